import SecsModel.Model.SecsILine
/-! Stage invariant of the SECS-I line protocol model (`Model.SecsILine`) and its inductiveness (C17). -/
namespace SecsModel.Proofs.SecsILine
open SecsModel SecsModel.Model.SecsI SecsModel.Model.SecsILine

/-- `enc` is a well-framed encoding of `blk`: length byte `l`, `l + 2` more bytes, and `Block.decode` returns `blk` -/
def Framed (enc : Bytes) (blk : Block) : Prop :=
  ∃ l rest, enc = l :: rest ∧ rest.length = l + 2 ∧ Block.decode enc = .ok (some blk)

/-- the fixed parameters of a transfer: the (encoding, block) pairs and the optional line fault `(j, t, v)` = byte `t` of block `j` arrives as `v` -/
structure Ctx where
  pairs : List (Bytes × Block)
  bad : Option (Nat × Nat × Nat)

def Ctx.fault (ctx : Ctx) : Option (Nat × Nat × Nat) := ctx.bad.map (fun b => (2 * b.1 + 1, b.2.1, b.2.2))

/-- is the block after `done` the faulty one -/
def Ctx.isBad (ctx : Ctx) (done : Nat) : Bool := match ctx.bad with | some (j, _, _) => decide (done = j) | none => false

/-- what arrives when block number `done` (= `enc`) is transmitted -/
def Ctx.wire (ctx : Ctx) (done : Nat) (enc : Bytes) : Bytes :=
  match ctx.bad with | some (j, t, v) => if done = j then enc.set t v else enc | none => enc

/-- the faulty block is not yet behind us -/
def Ctx.notPast (ctx : Ctx) (done : Nat) : Prop := ∀ j t v, ctx.bad = some (j, t, v) → done ≤ j

/-- the thread does nothing observable from here while its queue and buffer are empty -/
def Q (pc : TPc) : Prop := pc = .idle ∨ pc = .sendTop ∨ pc = .recvLoop false

def answer (ok : Bool) : Nat := if ok then ACK else NAK

/-- the four transmissions of one block -/
def cycle (enc : Bytes) (ok : Bool) : List (Bool × Bytes) := [(true, [ENQ]), (false, [EOT]), (true, enc), (false, [answer ok])]

theorem transcript_append (xs : List Bytes) (enc : Bytes) : transcript (xs ++ [enc]) = transcript xs ++ cycle enc true := by
  induction xs with
  | nil => rfl
  | cons x xs ih => simp only [List.cons_append, transcript, ih]

/-- facts that hold at every stage -/
structure Common (ctx : Ctx) (done todo : List (Bytes × Block)) (s : State) : Prop where
  split : ctx.pairs = done ++ todo
  bq : s.b.sendQ = []
  bapp : s.b.app = .none
  flt : s.fault = ctx.fault
  btrig : s.b.pc = .idle → s.b.rxbuf ≠ [] → s.b.trig = true

/-- the global stages of the transfer of one block (see the file header of `Props/C17.lean`) -/
inductive Stage (ctx : Ctx) (done todo : List (Bytes × Block)) (s : State) : Prop
  | s0 (happ : s.a.app = .run (todo.map (·.1)) false) (hq : s.a.sendQ = []) (hpa : Q s.a.pc) (hpb : Q s.b.pc)
      (harx : s.a.rxbuf = []) (hba : s.ba = []) (hbrx : s.b.rxbuf = []) (hab : s.ab = [])
      (hdel : s.b.delivered = done.map (·.2)) (hlog : s.log = transcript (done.map (·.1))) (htx : s.txA = 2 * done.length)
      (hnp : ctx.notPast done.length)
  | s1 (enc : Bytes) (blk : Block) (rest : List (Bytes × Block)) (htodo : todo = (enc, blk) :: rest)
      (happ : s.a.app = .run (todo.map (·.1)) true) (hq : s.a.sendQ = [enc]) (hslot : s.a.slot = none) (hpa : Q s.a.pc)
      (hatrig : s.a.pc = .sendTop ∨ s.a.trig = true) (hpb : Q s.b.pc)
      (harx : s.a.rxbuf = []) (hba : s.ba = []) (hbrx : s.b.rxbuf = []) (hab : s.ab = [])
      (hdel : s.b.delivered = done.map (·.2)) (hlog : s.log = transcript (done.map (·.1))) (htx : s.txA = 2 * done.length)
      (hnp : ctx.notPast done.length)
  | s2 (enc : Bytes) (blk : Block) (rest : List (Bytes × Block)) (htodo : todo = (enc, blk) :: rest)
      (happ : s.a.app = .run (todo.map (·.1)) true) (hq : s.a.sendQ = [enc]) (hslot : s.a.slot = none) (hpa : s.a.pc = .waitEnq)
      (hpb : Q s.b.pc) (harx : s.a.rxbuf = []) (hba : s.ba = []) (hpend : s.b.rxbuf ++ s.ab = [ENQ])
      (hdel : s.b.delivered = done.map (·.2)) (hlog : s.log = transcript (done.map (·.1)) ++ (cycle enc true).take 1)
      (htx : s.txA = 2 * done.length + 1) (hnp : ctx.notPast done.length)
  | s3 (enc : Bytes) (blk : Block) (rest : List (Bytes × Block)) (htodo : todo = (enc, blk) :: rest)
      (happ : s.a.app = .run (todo.map (·.1)) true) (hq : s.a.sendQ = [enc]) (hslot : s.a.slot = none) (hpa : s.a.pc = .waitEnq)
      (hpb : s.b.pc = .waitBlk false) (hpend : s.a.rxbuf ++ s.ba = [EOT]) (hbrx : s.b.rxbuf = []) (hab : s.ab = [])
      (hdel : s.b.delivered = done.map (·.2)) (hlog : s.log = transcript (done.map (·.1)) ++ (cycle enc true).take 2)
      (htx : s.txA = 2 * done.length + 1) (hnp : ctx.notPast done.length)
  | s4 (enc : Bytes) (blk : Block) (rest : List (Bytes × Block)) (htodo : todo = (enc, blk) :: rest)
      (happ : s.a.app = .run (todo.map (·.1)) true) (hq : s.a.sendQ = []) (hslot : s.a.slot = none) (hpa : s.a.pc = .waitAck)
      (hpb : s.b.pc = .waitBlk false) (harx : s.a.rxbuf = []) (hba : s.ba = []) (hpend : s.b.rxbuf ++ s.ab = ctx.wire done.length enc)
      (hdel : s.b.delivered = done.map (·.2)) (hlog : s.log = transcript (done.map (·.1)) ++ (cycle enc true).take 3)
      (htx : s.txA = 2 * done.length + 2) (hnp : ctx.notPast done.length)
  | s5 (enc : Bytes) (blk : Block) (rest : List (Bytes × Block)) (htodo : todo = (enc, blk) :: rest)
      (happ : s.a.app = .run (todo.map (·.1)) true) (hq : s.a.sendQ = []) (hslot : s.a.slot = none) (hpa : s.a.pc = .waitAck)
      (hpb : Q s.b.pc) (hpend : s.a.rxbuf ++ s.ba = [answer (!ctx.isBad done.length)]) (hbrx : s.b.rxbuf = []) (hab : s.ab = [])
      (hdel : s.b.delivered = done.map (·.2) ++ (if ctx.isBad done.length then [] else [blk]))
      (hlog : s.log = transcript (done.map (·.1)) ++ cycle enc (!ctx.isBad done.length))
      (htx : s.txA = 2 * done.length + 2) (hnp : ctx.notPast done.length)
  | s6 (enc : Bytes) (blk : Block) (rest : List (Bytes × Block)) (htodo : todo = (enc, blk) :: rest)
      (happ : s.a.app = .run (todo.map (·.1)) true) (hq : s.a.sendQ = []) (hslot : s.a.slot = some (!ctx.isBad done.length)) (hpa : Q s.a.pc)
      (hpb : Q s.b.pc) (harx : s.a.rxbuf = []) (hba : s.ba = []) (hbrx : s.b.rxbuf = []) (hab : s.ab = [])
      (hdel : s.b.delivered = done.map (·.2) ++ (if ctx.isBad done.length then [] else [blk]))
      (hlog : s.log = transcript (done.map (·.1)) ++ cycle enc (!ctx.isBad done.length))
      (htx : s.txA = 2 * done.length + 2) (hnp : ctx.notPast done.length)
  | finOk (htodo : todo = []) (happ : s.a.app = .fin true) (hq : s.a.sendQ = []) (hpa : Q s.a.pc) (hpb : Q s.b.pc)
      (harx : s.a.rxbuf = []) (hba : s.ba = []) (hbrx : s.b.rxbuf = []) (hab : s.ab = [])
      (hdel : s.b.delivered = done.map (·.2)) (hlog : s.log = transcript (done.map (·.1))) (hnp : ctx.notPast done.length)
  | finBad (enc : Bytes) (blk : Block) (rest : List (Bytes × Block)) (htodo : todo = (enc, blk) :: rest) (hbad : ctx.isBad done.length = true)
      (happ : s.a.app = .fin false) (hq : s.a.sendQ = []) (hpa : Q s.a.pc) (hpb : Q s.b.pc)
      (harx : s.a.rxbuf = []) (hba : s.ba = []) (hbrx : s.b.rxbuf = []) (hab : s.ab = [])
      (hdel : s.b.delivered = done.map (·.2)) (hlog : s.log = transcript (done.map (·.1)) ++ cycle enc false)

def Inv (ctx : Ctx) (s : State) : Prop := ∃ done todo, Common ctx done todo s ∧ Stage ctx done todo s

theorem inv_init (ctx : Ctx) (h : Bool) (hnp : ctx.notPast 0) : Inv ctx (init h (ctx.pairs.map (·.1)) ctx.fault) := by
  refine ⟨[], ctx.pairs, ⟨by simp, rfl, rfl, rfl, ?_⟩, ?_⟩
  · intro _ h; simp [init] at h
  · exact .s0 rfl rfl (Or.inl rfl) (Or.inl rfl) rfl rfl rfl rfl rfl rfl rfl hnp


theorem eot_ne_enq : (EOT : Nat) ≠ ENQ := by decide
theorem answer_ack (ok : Bool) : decide (answer ok = ACK) = ok := by cases ok <;> decide

/-- a quiescent thread with nothing queued and nothing received only moves among quiescent positions -/
theorem thr_quiet (e e' : End) (tx : Bytes) (hq : Q e.pc) (hsq : e.sendQ = []) (hrx : e.rxbuf = [])
    (h : thrStep e = some (e', tx)) : ∃ pc' tr', Q pc' ∧ e' = { e with pc := pc', trig := tr' } ∧ tx = [] := by
  rcases hq with hq | hq | hq <;> simp only [thrStep, hq, hsq, hrx] at h
  · split at h
    · cases h; exact ⟨.sendTop, false, Or.inr (Or.inl rfl), by simp [hsq, hrx], rfl⟩
    · cases h
  · cases h; exact ⟨.recvLoop false, e.trig, Or.inr (Or.inr rfl), by simp [hsq, hrx], rfl⟩
  · cases h; exact ⟨.idle, e.trig, Or.inl rfl, by simp [hsq, hrx, ret], rfl⟩

theorem stage_a_quiet (ctx : Ctx) (done todo) (s : State) (pc' : TPc) (tr' : Bool) (hst : Stage ctx done todo s)
    (hq : Q s.a.pc) (hsq : s.a.sendQ = []) (hq' : Q pc') :
    Stage ctx done todo { s with a := { s.a with pc := pc', trig := tr' } } := by
  cases hst
  case s0 h1 h2 h3 h4 h5 h6 h7 h8 h9 h10 h11 h12 => exact .s0 h1 h2 hq' h4 h5 h6 h7 h8 h9 h10 h11 h12
  case s1 enc blk rest htodo happ hq1 _ _ _ _ _ _ _ _ _ _ _ _ => rw [hsq] at hq1; cases hq1
  case s2 hpa _ _ _ _ _ _ _ _ => rw [hpa] at hq; simp [Q] at hq
  case s3 hpa _ _ _ _ _ _ _ _ => rw [hpa] at hq; simp [Q] at hq
  case s4 hpa _ _ _ _ _ _ _ _ => rw [hpa] at hq; simp [Q] at hq
  case s5 hpa _ _ _ _ _ _ _ _ => rw [hpa] at hq; simp [Q] at hq
  case s6 enc blk rest h0 h1 h2 h3 h4 h5 h6 h7 h8 h9 h10 h11 h12 h13 => exact .s6 enc blk rest h0 h1 h2 h3 hq' h5 h6 h7 h8 h9 h10 h11 h12 h13
  case finOk h0 h1 h2 h3 h4 h5 h6 h7 h8 h9 h10 h11 => exact .finOk h0 h1 h2 hq' h4 h5 h6 h7 h8 h9 h10 h11
  case finBad enc blk rest h0 hb h1 h2 h3 h4 h5 h6 h7 h8 h9 h10 => exact .finBad enc blk rest h0 hb h1 h2 hq' h4 h5 h6 h7 h8 h9 h10


theorem tamper_even (ctx : Ctx) (d : Nat) (bs : Bytes) : tamper ctx.fault (2 * d) bs = bs := by
  simp only [tamper, Ctx.fault]
  cases ctx.bad with
  | none => rfl
  | some b => obtain ⟨j, t, v⟩ := b; simp; omega

theorem tamper_odd (ctx : Ctx) (d : Nat) (bs : Bytes) : tamper ctx.fault (2 * d + 1) bs = ctx.wire d bs := by
  simp only [tamper, Ctx.fault, Ctx.wire]
  cases ctx.bad with
  | none => rfl
  | some b =>
    obtain ⟨j, t, v⟩ := b
    simp only [Option.map_some]
    by_cases h : d = j
    · subst h; simp
    · have : ¬ (2 * j + 1 = 2 * d + 1) := by omega
      simp [h]; omega

theorem common_emitA {ctx : Ctx} {done todo} {s : State} (e : End) (tx : Bytes) (hc : Common ctx done todo s) :
    Common ctx done todo (emitA s e tx) := by
  obtain ⟨h1, h2, h3, h4, h5⟩ := hc
  unfold emitA; split <;> exact ⟨h1, h2, h3, h4, h5⟩

theorem emitA_nil (s : State) (e : End) : emitA s e [] = { s with a := e } := by simp [emitA]
theorem emitA_cons (s : State) (e : End) (x : Nat) (xs : Bytes) :
    emitA s e (x :: xs) = { s with a := e, ab := s.ab ++ tamper s.fault s.txA (x :: xs), txA := s.txA + 1, log := s.log ++ [(true, x :: xs)] } := by
  simp [emitA]
theorem emitB_nil (s : State) (e : End) : emitB s e [] = { s with b := e } := by simp [emitB]
theorem emitB_cons (s : State) (e : End) (x : Nat) (xs : Bytes) :
    emitB s e (x :: xs) = { s with b := e, ba := s.ba ++ (x :: xs), log := s.log ++ [(false, x :: xs)] } := by
  simp [emitB]

/-- steps of `a`'s protocol thread -/
theorem step_thrA (ctx : Ctx) (hfr : ∀ p ∈ ctx.pairs, Framed p.1 p.2) (done todo) (s : State) (e : End) (tx : Bytes)
    (hc : Common ctx done todo s) (hst : Stage ctx done todo s) (h : thrStep s.a = some (e, tx)) :
    Inv ctx (emitA s e tx) := by
  refine ⟨done, todo, common_emitA e tx hc, ?_⟩
  cases hst
  case s0 h1 h2 h3 h4 h5 h6 h7 h8 h9 h10 h11 h12 =>
    obtain ⟨pc', tr', hq', rfl, rfl⟩ := thr_quiet _ _ _ h3 h2 h5 h
    exact stage_a_quiet ctx done todo s pc' tr' (.s0 h1 h2 h3 h4 h5 h6 h7 h8 h9 h10 h11 h12) h3 h2 hq'
  case s6 enc blk rest h0 h1 h2 h3 h4 h5 h6 h7 h8 h9 h10 h11 h12 h13 =>
    obtain ⟨pc', tr', hq', rfl, rfl⟩ := thr_quiet _ _ _ h4 h2 h6 h
    exact stage_a_quiet ctx done todo s pc' tr' (.s6 enc blk rest h0 h1 h2 h3 h4 h5 h6 h7 h8 h9 h10 h11 h12 h13) h4 h2 hq'
  case finOk h0 h1 h2 h3 h4 h5 h6 h7 h8 h9 h10 h11 =>
    obtain ⟨pc', tr', hq', rfl, rfl⟩ := thr_quiet _ _ _ h3 h2 h5 h
    exact stage_a_quiet ctx done todo s pc' tr' (.finOk h0 h1 h2 h3 h4 h5 h6 h7 h8 h9 h10 h11) h3 h2 hq'
  case finBad enc blk rest h0 hb h1 h2 h3 h4 h5 h6 h7 h8 h9 h10 =>
    obtain ⟨pc', tr', hq', rfl, rfl⟩ := thr_quiet _ _ _ h3 h2 h5 h
    exact stage_a_quiet ctx done todo s pc' tr' (.finBad enc blk rest h0 hb h1 h2 h3 h4 h5 h6 h7 h8 h9 h10) h3 h2 hq'
  case s1 enc blk rest htodo happ hq hslot hpa hatrig hpb harx hba hbrx hab hdel hlog htx hnp =>
    rcases hpa with hpa | hpa | hpa <;> simp only [thrStep, hpa, hq, harx] at h
    · split at h
      · cases h
        rw [emitA_nil]
        exact .s1 enc blk rest htodo happ rfl hslot (Or.inr (Or.inl rfl)) (Or.inl rfl) hpb rfl hba hbrx hab hdel hlog htx hnp
      · cases h
    · cases h
      rw [emitA_cons]
      exact .s2 enc blk rest htodo happ rfl hslot rfl hpb rfl hba (by simp only []; rw [hbrx, hab, htx, hc.flt, tamper_even]; rfl) hdel
        (by simp only []; rw [hlog]; rfl) (by simp only []; rw [htx]) hnp
    · cases h
      have ht : s.a.trig = true := by rcases hatrig with h' | h'; (rw [hpa] at h'; cases h'); exact h'
      rw [emitA_nil]
      exact .s1 enc blk rest htodo happ rfl hslot (Or.inl rfl) (Or.inr ht) hpb rfl hba hbrx hab hdel hlog htx hnp
  case s2 enc blk rest htodo happ hq hslot hpa hpb harx hba hpend hdel hlog htx hnp =>
    simp [thrStep, hpa, harx] at h
  case s4 enc blk rest htodo happ hq hslot hpa hpb harx hba hpend hdel hlog htx hnp =>
    simp [thrStep, hpa, harx] at h
  case s3 enc blk rest htodo happ hq hslot hpa hpb hpend hbrx hab hdel hlog htx hnp =>
    have hfe : Framed enc blk := hfr (enc, blk) (by rw [hc.split, htodo]; simp)
    obtain ⟨l, r0, rfl, _, _⟩ := hfe
    cases harx : s.a.rxbuf with
    | nil => simp [thrStep, hpa, harx] at h
    | cons r rs =>
      rw [harx] at hpend
      have hr : r = EOT ∧ rs = [] ∧ s.ba = [] := by
        simp only [List.cons_append, List.cons.injEq, List.append_eq_nil_iff] at hpend; exact ⟨hpend.1, hpend.2.1, hpend.2.2⟩
      obtain ⟨rfl, rfl, hba⟩ := hr
      simp only [thrStep, hpa, harx, hq] at h
      have : ¬ ((EOT : Nat) = ENQ ∧ s.a.host = true) := fun hh => eot_ne_enq hh.1
      simp only [this, if_false] at h
      cases h
      rw [emitA_cons]
      exact .s4 (l :: r0) blk rest htodo happ rfl hslot rfl hpb rfl hba (by simp only []; rw [hbrx, hab, htx, hc.flt, tamper_odd]; rfl) hdel
        (by simp only []; rw [hlog]; simp [cycle]) (by simp only []; rw [htx]) hnp
  case s5 enc blk rest htodo happ hq hslot hpa hpb hpend hbrx hab hdel hlog htx hnp =>
    cases harx : s.a.rxbuf with
    | nil => simp [thrStep, hpa, harx] at h
    | cons r rs =>
      rw [harx] at hpend
      have hr : r = answer (!ctx.isBad done.length) ∧ rs = [] ∧ s.ba = [] := by
        simp only [List.cons_append, List.cons.injEq, List.append_eq_nil_iff] at hpend; exact ⟨hpend.1, hpend.2.1, hpend.2.2⟩
      obtain ⟨rfl, rfl, hba⟩ := hr
      simp only [thrStep, hpa, harx, answer_ack] at h
      cases h
      rw [emitA_nil]
      exact .s6 enc blk rest htodo happ hq rfl (Or.inr (Or.inl rfl)) hpb rfl hba hbrx hab hdel hlog htx hnp


/-- the faulty block, if any: one of the blocks, corrupted at an offset ≥ 1 (not the length byte), and rejected by `Block.decode`
(C16: a block with an altered header, data or checksum byte is never accepted) -/
def BadOK (ctx : Ctx) : Prop :=
  ∀ j t v, ctx.bad = some (j, t, v) →
    ∃ enc blk, ctx.pairs[j]? = some (enc, blk) ∧ 1 ≤ t ∧ t < enc.length ∧ Block.decode (enc.set t v) = .ok none

theorem wire_framed (ctx : Ctx) (hbad : BadOK ctx) (done rest : List (Bytes × Block)) (enc : Bytes) (blk : Block)
    (hsplit : ctx.pairs = done ++ (enc, blk) :: rest) (hf : Framed enc blk) :
    ∃ l r, ctx.wire done.length enc = l :: r ∧ r.length = l + 2 ∧
      Block.decode (ctx.wire done.length enc) = .ok (if ctx.isBad done.length then none else some blk) := by
  obtain ⟨l, r0, rfl, hlen, hdec⟩ := hf
  have hget : ctx.pairs[done.length]? = some (l :: r0, blk) := by rw [hsplit]; simp
  unfold Ctx.wire Ctx.isBad
  cases hb : ctx.bad with
  | none => exact ⟨l, r0, rfl, hlen, by simpa using hdec⟩
  | some b =>
    obtain ⟨j, t, v⟩ := b
    simp only
    by_cases hd : done.length = j
    · obtain ⟨enc', blk', hg, ht1, ht2, hrej⟩ := hbad j t v hb
      rw [← hd, hget] at hg
      cases hg
      simp only [hd, if_true, decide_true]
      obtain ⟨t', rfl⟩ : ∃ t', t = t' + 1 := ⟨t - 1, by omega⟩
      refine ⟨l, r0.set t' v, by simp, by simp [hlen], ?_⟩
      exact hrej
    · simp only [hd, if_false, decide_false]
      exact ⟨l, r0, rfl, hlen, by simpa using hdec⟩

theorem stage_b_quiet (ctx : Ctx) (done todo) (s : State) (pc' : TPc) (tr' : Bool) (hst : Stage ctx done todo s)
    (hq : Q s.b.pc) (hq' : Q pc') :
    Stage ctx done todo { s with b := { s.b with pc := pc', trig := tr' } } := by
  cases hst
  case s0 h1 h2 h3 h4 h5 h6 h7 h8 h9 h10 h11 h12 => exact .s0 h1 h2 h3 hq' h5 h6 h7 h8 h9 h10 h11 h12
  case s1 enc blk rest h0 h1 h2 h3 h4 h5 h6 h7 h8 h9 h10 h11 h12 h13 h14 => exact .s1 enc blk rest h0 h1 h2 h3 h4 h5 hq' h7 h8 h9 h10 h11 h12 h13 h14
  case s2 enc blk rest h0 h1 h2 h3 h4 h5 h6 h7 h8 h9 h10 h11 h12 => exact .s2 enc blk rest h0 h1 h2 h3 h4 hq' h6 h7 h8 h9 h10 h11 h12
  case s3 _ _ _ _ _ _ _ hpb _ _ _ _ _ _ _ => rw [hpb] at hq; simp [Q] at hq
  case s4 _ _ _ _ _ _ _ hpb _ _ _ _ _ _ _ => rw [hpb] at hq; simp [Q] at hq
  case s5 enc blk rest h0 h1 h2 h3 h4 h5 h6 h7 h8 h9 h10 h11 h12 => exact .s5 enc blk rest h0 h1 h2 h3 h4 hq' h6 h7 h8 h9 h10 h11 h12
  case s6 enc blk rest h0 h1 h2 h3 h4 h5 h6 h7 h8 h9 h10 h11 h12 h13 => exact .s6 enc blk rest h0 h1 h2 h3 h4 hq' h6 h7 h8 h9 h10 h11 h12 h13
  case finOk h0 h1 h2 h3 h4 h5 h6 h7 h8 h9 h10 h11 => exact .finOk h0 h1 h2 h3 hq' h5 h6 h7 h8 h9 h10 h11
  case finBad enc blk rest h0 hb h1 h2 h3 h4 h5 h6 h7 h8 h9 h10 => exact .finBad enc blk rest h0 hb h1 h2 h3 hq' h5 h6 h7 h8 h9 h10

/-- `b`'s buffer is empty at this stage -/
theorem stage_brx_empty_of_quiet {ctx : Ctx} {done todo} {s : State} (hst : Stage ctx done todo s) (hne : ∀ x, s.b.rxbuf ++ s.ab ≠ [x] ∨ s.b.rxbuf = []) (hq : Q s.b.pc) :
    s.b.rxbuf = [] := by
  cases hst
  case s0 h7 _ _ _ _ _ => exact h7
  case s1 h7 _ _ _ _ _ => exact h7
  case s2 hpend _ _ _ _ => rcases hne ENQ with h | h; exact absurd hpend h; exact h
  case s3 hpb _ _ _ _ _ _ _ => rw [hpb] at hq; simp [Q] at hq
  case s4 hpb _ _ _ _ _ _ _ => rw [hpb] at hq; simp [Q] at hq
  case s5 h7 _ _ _ _ _ => exact h7
  case s6 h7 _ _ _ _ _ => exact h7
  case finOk h7 _ _ _ _ => exact h7
  case finBad h7 _ _ _ => exact h7


theorem common_b_quiet {ctx : Ctx} {done todo} {s : State} (pc' : TPc) (tr' : Bool) (hc : Common ctx done todo s) (hrx : s.b.rxbuf = []) :
    Common ctx done todo { s with b := { s.b with pc := pc', trig := tr' } } :=
  ⟨hc.split, hc.bq, hc.bapp, hc.flt, fun _ h => absurd hrx h⟩

theorem inv_b_quiet (ctx : Ctx) (done todo) (s : State) (e : End) (tx : Bytes)
    (hc : Common ctx done todo s) (hst : Stage ctx done todo s) (hq : Q s.b.pc) (hrx : s.b.rxbuf = [])
    (h : thrStep s.b = some (e, tx)) : Inv ctx (emitB s e tx) := by
  obtain ⟨pc', tr', hq', rfl, rfl⟩ := thr_quiet _ _ _ hq hc.bq hrx h
  rw [emitB_nil]
  exact ⟨done, todo, common_b_quiet pc' tr' hc hrx, stage_b_quiet ctx done todo s pc' tr' hst hq hq'⟩

/-- steps of `b`'s protocol thread -/
theorem step_thrB (ctx : Ctx) (hfr : ∀ p ∈ ctx.pairs, Framed p.1 p.2) (hbad : BadOK ctx) (done todo) (s : State) (e : End) (tx : Bytes)
    (hc : Common ctx done todo s) (hst : Stage ctx done todo s) (h : thrStep s.b = some (e, tx)) :
    Inv ctx (emitB s e tx) := by
  cases hst
  case s0 h1 h2 h3 h4 h5 h6 h7 h8 h9 h10 h11 h12 =>
    exact inv_b_quiet ctx done todo s e tx hc (.s0 h1 h2 h3 h4 h5 h6 h7 h8 h9 h10 h11 h12) h4 h7 h
  case s1 enc blk rest h0 h1 h2 h3 h4 h5 h6 h7 h8 h9 h10 h11 h12 h13 h14 =>
    exact inv_b_quiet ctx done todo s e tx hc (.s1 enc blk rest h0 h1 h2 h3 h4 h5 h6 h7 h8 h9 h10 h11 h12 h13 h14) h6 h9 h
  case s5 enc blk rest h0 h1 h2 h3 h4 h5 h6 h7 h8 h9 h10 h11 h12 =>
    exact inv_b_quiet ctx done todo s e tx hc (.s5 enc blk rest h0 h1 h2 h3 h4 h5 h6 h7 h8 h9 h10 h11 h12) h5 h7 h
  case s6 enc blk rest h0 h1 h2 h3 h4 h5 h6 h7 h8 h9 h10 h11 h12 h13 =>
    exact inv_b_quiet ctx done todo s e tx hc (.s6 enc blk rest h0 h1 h2 h3 h4 h5 h6 h7 h8 h9 h10 h11 h12 h13) h5 h8 h
  case finOk h0 h1 h2 h3 h4 h5 h6 h7 h8 h9 h10 h11 =>
    exact inv_b_quiet ctx done todo s e tx hc (.finOk h0 h1 h2 h3 h4 h5 h6 h7 h8 h9 h10 h11) h4 h7 h
  case finBad enc blk rest h0 hb h1 h2 h3 h4 h5 h6 h7 h8 h9 h10 =>
    exact inv_b_quiet ctx done todo s e tx hc (.finBad enc blk rest h0 hb h1 h2 h3 h4 h5 h6 h7 h8 h9 h10) h4 h7 h
  case s3 enc blk rest htodo happ hq hslot hpa hpb hpend hbrx hab hdel hlog htx hnp =>
    simp [thrStep, hpb, hbrx] at h
  case s2 enc blk rest htodo happ hq hslot hpa hpb harx hba hpend hdel hlog htx hnp =>
    cases hbrx : s.b.rxbuf with
    | nil => exact inv_b_quiet ctx done todo s e tx hc (.s2 enc blk rest htodo happ hq hslot hpa hpb harx hba hpend hdel hlog htx hnp) hpb hbrx h
    | cons x xs =>
      rw [hbrx] at hpend
      have hr : x = ENQ ∧ xs = [] ∧ s.ab = [] := by
        simp only [List.cons_append, List.cons.injEq, List.append_eq_nil_iff] at hpend; exact ⟨hpend.1, hpend.2.1, hpend.2.2⟩
      obtain ⟨rfl, rfl, hab⟩ := hr
      have hbq := hc.bq
      rcases hpb with hpb | hpb | hpb <;> simp only [thrStep, hpb, hbq, hbrx] at h
      · split at h
        · cases h
          rw [emitB_nil]
          refine ⟨done, todo, ⟨hc.split, rfl, hc.bapp, hc.flt, fun hh => by cases hh⟩, ?_⟩
          exact .s2 enc blk rest htodo happ hq hslot hpa (Or.inr (Or.inl rfl)) harx hba (by simp only []; rw [hab]; rfl) hdel hlog htx hnp
        · cases h
      · cases h
        rw [emitB_nil]
        refine ⟨done, todo, ⟨hc.split, rfl, hc.bapp, hc.flt, fun hh => by cases hh⟩, ?_⟩
        exact .s2 enc blk rest htodo happ hq hslot hpa (Or.inr (Or.inr rfl)) harx hba (by simp only []; rw [hab]; rfl) hdel hlog htx hnp
      · cases h
        rw [emitB_cons]
        refine ⟨done, todo, ⟨hc.split, rfl, hc.bapp, hc.flt, fun hh => by cases hh⟩, ?_⟩
        exact .s3 enc blk rest htodo happ hq hslot hpa rfl (by simp only []; rw [harx, hba]; rfl) rfl hab hdel
          (by simp only []; rw [hlog]; simp [cycle]) htx hnp
  case s4 enc blk rest htodo happ hq hslot hpa hpb harx hba hpend hdel hlog htx hnp =>
    have hfe : Framed enc blk := hfr (enc, blk) (by rw [hc.split, htodo]; simp)
    obtain ⟨l, r, hw, hlen, hdec⟩ := wire_framed ctx hbad done rest enc blk (by rw [hc.split, htodo]) hfe
    rw [hw] at hpend hdec
    cases hbrx : s.b.rxbuf with
    | nil => simp [thrStep, hpb, hbrx] at h
    | cons x xs =>
      rw [hbrx] at hpend
      have hx : x = l := by simp only [List.cons_append, List.cons.injEq] at hpend; exact hpend.1
      subst hx
      simp only [thrStep, hpb, hbrx] at h
      split at h
      · cases h
      · rename_i hlt
        -- the whole block has arrived
        have hxs : xs ++ s.ab = r := by simp only [List.cons_append, List.cons.injEq] at hpend; exact hpend.2
        have hl2 : xs.length + s.ab.length = x + 2 := by rw [← hlen, ← hxs, List.length_append]
        have hab : s.ab = [] := by
          have : s.ab.length = 0 := by simp only [List.length_cons] at hlt; omega
          exact List.length_eq_zero_iff.mp this
        have hxs' : xs = r := by rw [hab, List.append_nil] at hxs; exact hxs
        subst hxs'
        have htake : (x :: xs).take (x + 3) = x :: xs := List.take_of_length_le (by simp only [List.length_cons]; omega)
        have hdrop : (x :: xs).drop (x + 3) = [] := List.drop_of_length_le (by simp only [List.length_cons]; omega)
        rw [htake, hdrop, hdec] at h
        cases hib : ctx.isBad done.length with
        | true =>
          simp only [hib, if_true] at h
          cases h
          rw [emitB_cons]
          refine ⟨done, todo, ⟨hc.split, hc.bq, hc.bapp, hc.flt, fun _ hh => absurd rfl hh⟩, ?_⟩
          exact .s5 enc blk rest htodo happ hq hslot hpa (Or.inl rfl) (by simp only []; rw [harx, hba, hib]; rfl) rfl hab
            (by simp only []; rw [hdel, hib]; simp) (by simp only []; rw [hlog, hib]; simp [cycle, answer]) htx hnp
        | false =>
          simp only [hib] at h
          cases h
          rw [emitB_cons]
          refine ⟨done, todo, ⟨hc.split, hc.bq, hc.bapp, hc.flt, fun hh => by cases hh⟩, ?_⟩
          exact .s5 enc blk rest htodo happ hq hslot hpa (Or.inr (Or.inr rfl)) (by simp only []; rw [harx, hba, hib]; rfl) rfl hab
            (by simp only []; rw [hdel, hib]; simp) (by simp only []; rw [hlog, hib]; simp [cycle, answer]) htx hnp


theorem common_a {ctx : Ctx} {done todo} {s : State} (e : End) (hc : Common ctx done todo s) : Common ctx done todo { s with a := e } :=
  ⟨hc.split, hc.bq, hc.bapp, hc.flt, hc.btrig⟩

/-- steps of `a`'s application thread (`send_message`) -/
theorem step_appA (ctx : Ctx) (done todo) (s : State) (e : End)
    (hc : Common ctx done todo s) (hst : Stage ctx done todo s) (h : appStep s.a = some e) :
    Inv ctx { s with a := e } := by
  cases hst
  case s0 happ hq hpa hpb harx hba hbrx hab hdel hlog htx hnp =>
    cases todo with
    | nil =>
      simp only [appStep, happ, List.map_nil] at h
      cases h
      exact ⟨done, [], common_a _ hc, .finOk rfl rfl hq hpa hpb harx hba hbrx hab hdel hlog hnp⟩
    | cons p rest =>
      obtain ⟨enc, blk⟩ := p
      simp only [appStep, happ, List.map_cons] at h
      cases h
      refine ⟨done, (enc, blk) :: rest, common_a _ hc, ?_⟩
      exact .s1 enc blk rest rfl rfl (by simp only []; rw [hq]; rfl) rfl hpa (Or.inr rfl) hpb harx hba hbrx hab hdel hlog htx hnp
  case s1 enc blk rest htodo happ hq hslot hpa hatrig hpb harx hba hbrx hab hdel hlog htx hnp =>
    simp [appStep, happ, hslot] at h
  case s2 enc blk rest htodo happ hq hslot hpa hpb harx hba hpend hdel hlog htx hnp =>
    simp [appStep, happ, hslot] at h
  case s3 enc blk rest htodo happ hq hslot hpa hpb hpend hbrx hab hdel hlog htx hnp =>
    simp [appStep, happ, hslot] at h
  case s4 enc blk rest htodo happ hq hslot hpa hpb harx hba hpend hdel hlog htx hnp =>
    simp [appStep, happ, hslot] at h
  case s5 enc blk rest htodo happ hq hslot hpa hpb hpend hbrx hab hdel hlog htx hnp =>
    simp [appStep, happ, hslot] at h
  case finOk htodo happ hq hpa hpb harx hba hbrx hab hdel hlog hnp =>
    simp [appStep, happ] at h
  case finBad enc blk rest htodo hb happ hq hpa hpb harx hba hbrx hab hdel hlog =>
    simp [appStep, happ] at h
  case s6 enc blk rest htodo happ hq hslot hpa hpb harx hba hbrx hab hdel hlog htx hnp =>
    subst htodo
    cases hib : ctx.isBad done.length with
    | true =>
      simp only [appStep, happ, hslot, hib, Bool.not_true] at h
      cases h
      refine ⟨done, (enc, blk) :: rest, common_a _ hc, ?_⟩
      exact .finBad enc blk rest rfl hib rfl hq hpa hpb harx hba hbrx hab (by simp only []; rw [hdel, hib]; simp)
        (by simp only []; rw [hlog, hib]; rfl)
    | false =>
      simp only [appStep, happ, hslot, hib, Bool.not_false, List.map_cons, List.drop_succ_cons, List.drop_zero] at h
      cases h
      refine ⟨done ++ [(enc, blk)], rest, ⟨by rw [hc.split]; simp, hc.bq, hc.bapp, hc.flt, hc.btrig⟩, ?_⟩
      refine .s0 rfl hq hpa hpb harx hba hbrx hab (by simp only []; rw [hdel, hib]; simp)
        (by simp only []; rw [hlog, hib, List.map_append]; simp only [List.map_cons, List.map_nil]; rw [transcript_append]; rfl) (by simp only []; rw [htx]; simp; omega) ?_
      intro j t v hbj
      have := hnp j t v hbj
      have hne : done.length ≠ j := by
        intro he; simp [Ctx.isBad, hbj, he] at hib
      simp; omega

/-- delivery of a chunk to `a` -/
theorem step_dlvA (ctx : Ctx) (done todo) (s : State) (n : Nat)
    (hc : Common ctx done todo s) (hst : Stage ctx done todo s) (h0 : 0 < n) (hn : n ≤ s.ba.length) :
    Inv ctx { s with a := { s.a with rxbuf := s.a.rxbuf ++ s.ba.take n, trig := true }, ba := s.ba.drop n } := by
  have hne : s.ba ≠ [] := by intro h; rw [h] at hn; simp at hn; omega
  have key : (s.a.rxbuf ++ s.ba.take n) ++ s.ba.drop n = s.a.rxbuf ++ s.ba := by rw [List.append_assoc, List.take_append_drop]
  refine ⟨done, todo, ⟨hc.split, hc.bq, hc.bapp, hc.flt, hc.btrig⟩, ?_⟩
  cases hst
  case s0 hba _ _ _ _ _ _ => exact absurd hba hne
  case s1 hba _ _ _ _ _ _ => exact absurd hba hne
  case s2 hba _ _ _ _ _ => exact absurd hba hne
  case s4 hba _ _ _ _ _ => exact absurd hba hne
  case s6 hba _ _ _ _ _ _ => exact absurd hba hne
  case finOk hba _ _ _ _ _ => exact absurd hba hne
  case finBad hba _ _ _ _ => exact absurd hba hne
  case s3 enc blk rest htodo happ hq hslot hpa hpb hpend hbrx hab hdel hlog htx hnp =>
    exact .s3 enc blk rest htodo happ hq hslot hpa hpb (by simp only []; rw [key]; exact hpend) hbrx hab hdel hlog htx hnp
  case s5 enc blk rest htodo happ hq hslot hpa hpb hpend hbrx hab hdel hlog htx hnp =>
    exact .s5 enc blk rest htodo happ hq hslot hpa hpb (by simp only []; rw [key]; exact hpend) hbrx hab hdel hlog htx hnp

/-- delivery of a chunk to `b` -/
theorem step_dlvB (ctx : Ctx) (done todo) (s : State) (n : Nat)
    (hc : Common ctx done todo s) (hst : Stage ctx done todo s) (h0 : 0 < n) (hn : n ≤ s.ab.length) :
    Inv ctx { s with b := { s.b with rxbuf := s.b.rxbuf ++ s.ab.take n, trig := true }, ab := s.ab.drop n } := by
  have hne : s.ab ≠ [] := by intro h; rw [h] at hn; simp at hn; omega
  have key : (s.b.rxbuf ++ s.ab.take n) ++ s.ab.drop n = s.b.rxbuf ++ s.ab := by rw [List.append_assoc, List.take_append_drop]
  refine ⟨done, todo, ⟨hc.split, hc.bq, hc.bapp, hc.flt, fun _ _ => rfl⟩, ?_⟩
  cases hst
  case s0 hab _ _ _ _ => exact absurd hab hne
  case s1 hab _ _ _ _ => exact absurd hab hne
  case s3 hab _ _ _ _ => exact absurd hab hne
  case s5 hab _ _ _ _ => exact absurd hab hne
  case s6 hab _ _ _ _ => exact absurd hab hne
  case finOk hab _ _ _ => exact absurd hab hne
  case finBad hab _ _ => exact absurd hab hne
  case s2 enc blk rest htodo happ hq hslot hpa hpb harx hba hpend hdel hlog htx hnp =>
    exact .s2 enc blk rest htodo happ hq hslot hpa hpb harx hba (by simp only []; rw [key]; exact hpend) hdel hlog htx hnp
  case s4 enc blk rest htodo happ hq hslot hpa hpb harx hba hpend hdel hlog htx hnp =>
    exact .s4 enc blk rest htodo happ hq hslot hpa hpb harx hba (by simp only []; rw [key]; exact hpend) hdel hlog htx hnp

/-- **the stage invariant is inductive** -/
theorem inv_step (ctx : Ctx) (hfr : ∀ p ∈ ctx.pairs, Framed p.1 p.2) (hbad : BadOK ctx) (s s' : State) (l : Label)
    (hinv : Inv ctx s) (hs : step s l = some s') : Inv ctx s' := by
  obtain ⟨done, todo, hc, hst⟩ := hinv
  cases l with
  | thr isA =>
    cases isA
    · simp only [step] at hs
      cases ht : thrStep s.b with
      | none => rw [ht] at hs; cases hs
      | some r => rw [ht] at hs; cases hs; exact step_thrB ctx hfr hbad done todo s r.1 r.2 hc hst ht
    · simp only [step] at hs
      cases ht : thrStep s.a with
      | none => rw [ht] at hs; cases hs
      | some r => rw [ht] at hs; cases hs; exact step_thrA ctx hfr done todo s r.1 r.2 hc hst ht
  | app isA =>
    cases isA
    · simp [step, appStep, hc.bapp] at hs
    · simp only [step] at hs
      cases ht : appStep s.a with
      | none => rw [ht] at hs; cases hs
      | some e => rw [ht] at hs; cases hs; exact step_appA ctx done todo s e hc hst ht
  | dlv toA n =>
    cases toA <;> simp only [step] at hs <;> split at hs
    · rename_i hh; cases hs; exact step_dlvB ctx done todo s n hc hst hh.1 hh.2
    · cases hs
    · rename_i hh; cases hs; exact step_dlvA ctx done todo s n hc hst hh.1 hh.2
    · cases hs

end SecsModel.Proofs.SecsILine
