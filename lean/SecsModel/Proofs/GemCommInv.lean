import SecsModel.Proofs.GemComm
/-!
# Proofs.GemCommInv — invariants of `Model.GemComm.step` over all histories
-/
namespace SecsModel.Proofs.GemComm
open SecsModel SecsModel.Spec.E30Comm SecsModel.Model.GemComm

/-- the control invariant: each timer is pending exactly in its state, and COMMUNICATING implies a selected link -/
structure CInv (s : State) : Prop where
  t3 : s.t3Armed = true ↔ s.comm = .waitCra
  dly : s.delayArmed = true ↔ s.comm = .waitDelay
  up : s.comm = .communicating → s.selected = true
  sc : s.selected = true → s.connected = true

theorem cinv_init : CInv init := by
  constructor <;> simp [init]

theorem cinv_perform (s : State) (t : Trans) (h : CInv s) (hl : (t = .s1f14received ∨ t = .s1f13received) → s.selected = true) :
    CInv (perform s t).1 := by
  obtain ⟨c, cn, l, a, b, n, m, q⟩ := s
  obtain ⟨h3, hd, hu, hsc⟩ := h
  rw [perform_eq]
  cases c <;> cases t <;> simp_all [allowed, leaveEffects_eq, enterEffects_eq] <;> constructor <;> simp_all

theorem cinv_onMessage (cfg : Cfg) (s : State) (sf f : Nat) (w : Bool) (sys : Nat) (ck : Option Nat) (h : CInv s)
    (hl : s.selected = true) : CInv (onMessage cfg s sf f w sys ck).1 := by
  unfold onMessage
  rw [dispatchRow_eq]
  split
  · exact h
  · rename_i d e13 e14 x heq
    split
    · split
      · exact h
      · exact cinv_perform s _ h (fun _ => hl)
    · split
      · split
        · exact h
        · split
          · exact h
          · exact cinv_perform s _ h (fun _ => hl)
          · exact cinv_perform s _ h (fun _ => hl)
      · split
        · split <;> exact h
        · exact h

theorem cinv_step (cfg : Cfg) (s : State) (i : Input) (h : CInv s) : CInv (step cfg s i).1 := by
  cases i with
  | enable => exact cinv_perform s _ h (by simp)
  | disable => exact cinv_perform s _ h (by simp)
  | linkConnected =>
    simp only [step]
    split
    · exact h
    · rename_i hcn
      obtain ⟨h3, hd, hu, hsc⟩ := h
      refine ⟨h3, hd, hu, fun _ => rfl⟩
  | linkSelected =>
    simp only [step]
    split
    · exact h
    · simp only [hooked_comm, selects, Bool.and_self, if_true]
      apply cinv_perform _ _ _ (by simp)
      obtain ⟨h3, hd, hu, hsc⟩ := h
      exact ⟨h3, hd, fun _ => rfl, fun _ => rfl⟩
  | linkLost =>
    simp only [step]
    split
    · exact h
    · simp only [hooked_disc, forwards, lossStates, Bool.true_and]
      obtain ⟨c, cn, l, a, b, n, m, q⟩ := s
      obtain ⟨h3, hd, hu, hsc⟩ := h
      cases c <;> simp_all [perform_eq, allowed, leaveEffects_eq, enterEffects_eq] <;> constructor <;> simp_all
  | rx sf f w sys ck =>
    simp only [step]
    split
    · exact h
    · rename_i hl
      exact cinv_onMessage cfg s sf f w sys ck h (by simpa using hl)
  | t3Expired =>
    simp only [step]
    split
    · exact h
    · rename_i ha
      obtain ⟨c, cn, l, a, b, n, m, q⟩ := s
      obtain ⟨h3, hd, hu, hsc⟩ := h
      cases c <;> simp_all [perform_eq, allowed, leaveEffects_eq, enterEffects_eq] <;> constructor <;> simp_all
  | delayExpired =>
    simp only [step]
    split
    · exact h
    · rename_i ha
      obtain ⟨c, cn, l, a, b, n, m, q⟩ := s
      obtain ⟨h3, hd, hu, hsc⟩ := h
      cases c <;> simp_all [perform_eq, allowed, leaveEffects_eq, enterEffects_eq] <;> constructor <;> simp_all

theorem cinv_runFrom (cfg : Cfg) (is : List Input) : ∀ (s : State) (tr : List Obs), CInv s → CInv (runFrom cfg s tr is).1 := by
  induction is with
  | nil => intro s tr h; exact h
  | cons i is ih => intro s tr h; exact ih _ _ (cinv_step cfg s i h)

theorem cinv_run (cfg : Cfg) (h : List Input) : CInv (run cfg h).1 := cinv_runFrom cfg h _ _ cinv_init

end SecsModel.Proofs.GemComm
