import SecsModel.Proofs.CodecCanon
import SecsModel.Model.Item
/-! The Item API against Spec.E5 and against the variables API. -/
namespace SecsModel.Proofs.CodecItem
open SecsModel SecsModel.Spec.E5 SecsModel.Model.Var SecsModel.Proofs.CodecElem SecsModel.Proofs.CodecSpec SecsModel.Proofs.CodecHeader
  SecsModel.Proofs.CodecVar SecsModel.Proofs.CodecVarDec SecsModel.Proofs.CodecRound SecsModel.Proofs.CodecCanon

/-! ### generated class constants -/

/-- what E5 fixes of an Item class: mnemonic, format code, and for the numeric classes width and range -/
def itemProj (r : Gen.ItemTypes.Row) : String × Nat × Nat × Int × Int :=
  if r.base == "ItemNumber" then (r.sml_type, r.hsms_type.toNat, r.bytes.toNat, r.min, r.max) else (r.sml_type, r.hsms_type.toNat, 0, 0, 0)

/-- the registered Item classes are exactly the E5 formats (registration order differs from the table order) -/
theorem item_types_match_E5 :
    (Gen.ItemTypes.table.map itemProj).length = Spec.E5.typeTable.length
    ∧ (∀ x ∈ Gen.ItemTypes.table.map itemProj, x ∈ Spec.E5.typeTable)
    ∧ (∀ x ∈ Spec.E5.typeTable, x ∈ Gen.ItemTypes.table.map itemProj) := by decide +kernel

theorem item_code (t : Ty) : (Model.Item.rowOf t).hsms_type = (t.code : Int) := by cases t <;> rfl
theorem item_list_code : Gen.ItemTypes.ItemL.hsms_type = ((0 : Nat) : Int) := rfl
theorem item_bytes (t : Ty) : (Model.Item.rowOf t).bytes = (Model.Var.rowOf t).bytes := by cases t <;> rfl
theorem item_struct (t : Ty) : (Model.Item.rowOf t).struct_code = (Model.Var.rowOf t).struct_code := by cases t <;> rfl
theorem item_coding (t : Ty) : codingOf (Model.Item.rowOf t).encoding = codingOf (Model.Var.rowOf t).coding := by cases t <;> decide
theorem item_float (t : Ty) : (Model.Item.rowOf t).is_float = (Model.Var.rowOf t).is_float := by cases t <;> rfl
theorem item_bounds (t : Ty) (h : t.kind = .sint ∨ t.kind = .uint ∨ t.kind = .f32 ∨ t.kind = .f64) :
    (Model.Item.rowOf t).min = (Model.Var.rowOf t).min ∧ (Model.Item.rowOf t).max = (Model.Var.rowOf t).max := by
  cases t <;> simp [Ty.kind] at h <;> exact ⟨rfl, rfl⟩

/-- the two translated header functions agree on every input of a format code -/
theorem hdr_eq (code : Nat) (hc : code < 64) (l : Int) : Gen.ItemHeaderItem.encode (code : Int) l = Gen.ItemHeaderVar.encode (code : Int) l := by
  by_cases h : l < 0
  · rw [item_header_neg _ l h, var_header_neg _ l h]
  · obtain ⟨n, rfl⟩ := Int.eq_ofNat_of_zero_le (by omega : 0 ≤ l)
    rw [item_header_exact code n hc, var_header_exact code n hc]

theorem encodeLeaf_agree (t : Ty) (es : List Int) : Model.Item.encodeLeaf t es = Model.Var.encodeLeaf t es := by
  simp only [Model.Item.encodeLeaf, Model.Var.encodeLeaf, item_code, row_code, hdr_eq t.code (code_lt t).1, item_bytes, item_struct, item_coding]
  generalize t.kind = k
  cases k <;> rfl

mutual
/-- **C14_apis_agree**: for *every* value tree the two item APIs compute the same result (bytes or error) -/
theorem apis_agree (v : Val) : Model.Item.encode v = Model.Var.encode v := by
  match v with
  | .item t es => simp only [Model.Item.encode, Model.Var.encode, encodeLeaf_agree]
  | .list xs =>
    simp only [Model.Item.encode, Model.Var.encode, item_list_code, row_list_code.1, hdr_eq 0 (by omega), encodeList_agree xs]
    rfl
theorem encodeList_agree (xs : List Val) : Model.Item.encodeList xs = Model.Var.encodeList xs := by
  match xs with
  | [] => rfl
  | x :: xs => simp only [Model.Item.encodeList, Model.Var.encodeList, apis_agree x, encodeList_agree xs]; rfl
end

/-- **C14_encode_exact** -/
theorem item_encode_exact (v : Val) (ha : Accepted v) : Model.Item.encode v = Spec.E5.encode v := by
  rw [apis_agree, encode_exact v ha]

/-! ### decode completeness of `Item.decode` -/

theorem byHsms_leaf (t : Ty) : Model.Item.byHsms t.code = some (.leaf t) := by cases t <;> decide
theorem byHsms_list : Model.Item.byHsms 0 = some .l := by decide

theorem item_decHeader_agree {bs r0 : Bytes} {code len : Nat} (h : Spec.E5.decHeader bs = some (code, len, r0)) :
    Model.Item.decHeader bs = .ok (code, len, r0) ∧ ∃ fb r, bs = fb :: r ∧ fb / 4 = code := by
  obtain ⟨fb, lb, hbs, _, h4, hl, hcode, hlen⟩ := specHeader_suffix h
  subst hbs
  refine ⟨?_, fb, _, rfl, hcode.symm⟩
  have c1 : ¬ ((lb ++ r0).length < fb % 4) := by rw [List.length_append]; omega
  have e1 : (lb ++ r0).take (fb % 4) = lb := by rw [← hl]; exact List.take_left' rfl
  have e2 : (lb ++ r0).drop (fb % 4) = r0 := by rw [← hl]; exact List.drop_left' rfl
  simp only [Model.Item.decHeader]
  rw [if_neg c1, e1, e2, ← hcode, ← hlen]

theorem item_readNums_ok (t : Ty) (h : t.kind = .sint ∨ t.kind = .uint ∨ t.kind = .f32 ∨ t.kind = .f64) :
    ∀ (n : Nat) (body : Bytes), n * t.width ≤ body.length →
      Model.Item.readNums (Model.Var.rowOf t).struct_code t.width n body = .ok ((chunksN t.width n body).map (elemDec t), body.drop (n * t.width))
  | 0, body, _ => by simp [Model.Item.readNums, chunksN]
  | n+1, body, hl => by
    have hw : t.width ≤ body.length := by rw [Nat.succ_mul] at hl; omega
    have hlen : (body.take t.width).length = t.width := by rw [List.length_take]; omega
    have ih := item_readNums_ok t h n (body.drop t.width) (by rw [List.length_drop, Nat.succ_mul] at *; omega)
    simp only [Model.Item.readNums, hlen, ne_eq, not_true_eq_false, if_false, unpack_eq t h _ hlen, ih, chunksN, List.map_cons, List.drop_drop]
    congr 3
    rw [Nat.succ_mul]; omega

theorem verifyAll_ok (r : Model.Item.Row) : ∀ (es : List Int), (∀ e ∈ es, Model.Item.inBounds r e = true) → Model.Item.verifyAll r es = .ok es
  | [], _ => rfl
  | e :: es, h => by
    have h1 := h e (by simp)
    have ih := verifyAll_ok r es (fun x hx => h x (by simp [hx]))
    simp only [Model.Item.verifyAll, h1, Bool.not_true, Bool.false_eq_true, if_false, ih]

/-- an accepted non-NaN element passes the Item API's bounds test -/
theorem acc_inBounds (t : Ty) (h : t.kind = .sint ∨ t.kind = .uint ∨ t.kind = .f32 ∨ t.kind = .f64) (e : Int)
    (ha : accElem t e = true) (hn : nanElem t e = false) : Model.Item.inBounds (Model.Item.rowOf t) e = true := by
  obtain ⟨bmin, bmax⟩ := item_bounds t h
  generalize hk : t.kind = k at h
  cases k with
  | sint =>
    obtain ⟨hf, hmin, hmax⟩ := num_range t (by simp [hk])
    simp only [accElem, hk, outOfRange, hf, hmin, hmax, Bool.false_eq_true, if_false, Bool.not_eq_true', Bool.or_eq_false_iff, decide_eq_false_iff_not] at ha
    simp only [Model.Item.inBounds, item_float, hf, bmin, bmax, hmin, hmax, Bool.false_eq_true, if_false, Bool.and_eq_true, decide_eq_true_eq]
    omega
  | uint =>
    obtain ⟨hf, hmin, hmax⟩ := num_range t (by simp [hk])
    simp only [accElem, hk, outOfRange, hf, hmin, hmax, Bool.false_eq_true, if_false, Bool.not_eq_true', Bool.or_eq_false_iff, decide_eq_false_iff_not] at ha
    simp only [Model.Item.inBounds, item_float, hf, bmin, bmax, hmin, hmax, Bool.false_eq_true, if_false, Bool.and_eq_true, decide_eq_true_eq]
    omega
  | f32 =>
    have ht := f32_is_f4 t hk
    subst ht
    obtain ⟨_, _, h3⟩ := acc_f4 e ha
    simp only [nanElem, Ty.kind] at hn
    have hf : (Model.Var.rowOf .f4).is_float = true := rfl
    simp only [Model.Item.inBounds, item_float, hf, if_true, bmin, bmax, f4_bounds.1, f4_bounds.2]
    rw [IEEE.bounds_check _ IEEE.fltMax64 (by decide) hn]
    rcases h3 with h3 | h3
    · rw [hn] at h3; cases h3
    · exact h3
  | f64 =>
    have ht : t = .f8 := by cases t <;> simp [Ty.kind] at hk <;> rfl
    subst ht
    obtain ⟨_, _, h3⟩ := acc_f8 e ha
    simp only [nanElem, Ty.kind] at hn
    have hf : (Model.Var.rowOf .f8).is_float = true := rfl
    simp only [Model.Item.inBounds, item_float, hf, if_true, bmin, bmax, f8_bounds.1, f8_bounds.2]
    rw [IEEE.bounds_check _ IEEE.dblMax64 (by decide) hn]
    rcases h3 with h3 | h3
    · rw [hn] at h3; cases h3
    · exact h3
  | _ => simp at h

theorem fin_not_nan (t : Ty) (e : Int) (h : finElem t e = true) : nanElem t e = false := by
  simp only [finElem, nanElem] at *
  generalize t.kind = k at *
  cases k <;> first
    | rfl
    | (simp only [IEEE.isFinite64] at h; have h := of_decide_eq_true h; simp only []; rw [IEEE.isNaN64_false_iff]; omega)

/-- **one leaf item through `cls.decode`** -/
theorem item_decLeaf_complete (t : Ty) (bs r0 p r : Bytes) (len : Nat)
    (hh : Spec.E5.decHeader bs = some (t.code, len, r0)) (hm : len % t.width = 0) (ht : takeN len r0 = some (p, r)) (hab : AllBytes bs)
    (hfin : ∀ e ∈ (chunksN t.width (len / t.width) p).map (elemDec t), finElem t e = true) :
    Model.Item.decLeaf t bs = .ok (.item t ((chunksN t.width (len / t.width) p).map (elemDec t)), r) := by
  obtain ⟨hdec, fb, rr, hbs, _⟩ := item_decHeader_agree hh
  obtain ⟨e1, e2⟩ := takeN_some ht
  have habr0 : AllBytes r0 := by
    obtain ⟨fb', lb, hbs', _⟩ := specHeader_suffix hh
    subst hbs'
    exact fun x hx => hab x (by simp [hx])
  have habp : AllBytes p := by rw [e1] at habr0; exact allBytes_of_append_left habr0
  have hw := width_pos t
  have hnw : len / t.width * t.width = len := Nat.div_mul_cancel (Nat.dvd_of_mod_eq_zero hm)
  have hptake : r0.take len = p := by rw [e1, ← e2]; exact List.take_left' rfl
  have hpdrop : r0.drop len = r := by rw [e1, ← e2]; exact List.drop_left' rfl
  simp only [Model.Item.decLeaf, hdec]
  generalize hk : t.kind = k
  cases k with
  | sint | uint | f32 | f64 =>
    have hkk : t.kind = .sint ∨ t.kind = .uint ∨ t.kind = .f32 ∨ t.kind = .f64 := by simp [hk]
    have hb := row_bytes t hkk
    have c1 : ¬ ((t.width : Int) ≤ 0) := by omega
    have hnl : len / t.width * t.width ≤ r0.length := by rw [hnw, e1, List.length_append]; omega
    have hch : chunksN t.width (len / t.width) r0 = chunksN t.width (len / t.width) p := by
      rw [← chunksN_take t.width _ r0 hnl, hnw, hptake]
    have hall : ∀ e ∈ (chunksN t.width (len / t.width) p).map (elemDec t), Model.Item.inBounds (Model.Item.rowOf t) e = true := by
      intro e he
      obtain ⟨ch, hch1, rfl⟩ := List.mem_map.mp he
      obtain ⟨l1, l2⟩ := chunksN_mem t.width _ p (by rw [hnw, e2]; exact Nat.le_refl _) habp ch hch1
      have hf := hfin _ he
      exact acc_inBounds t hkk _ (dec_elem_acc t ch l1 l2 hf).1 (fin_not_nan t _ hf)
    simp only [item_bytes, hb, c1, if_false, Int.toNat_natCast, item_struct, item_readNums_ok t hkk _ r0 hnl, hch, verifyAll_ok _ _ hall, hnw, hpdrop]
  | char =>
    have ht1 : t = .a := by cases t <;> simp [Ty.kind] at hk <;> rfl
    subst ht1
    have hcw := chunks_width_one .a rfl p
    rw [e2] at hcw
    have hval : (chunksN Ty.a.width (len / Ty.a.width) p).map (elemDec .a) = p.map (fun (b : Nat) => (b : Int)) := by
      rw [hcw]; apply List.map_congr_left; intro b _; simp [elemDec, Ty.kind, ofBe]
    simp only [item_coding, string_coding, hptake, decodeText_latin, hval, hpdrop]
  | jis =>
    have ht1 : t = .j := by cases t <;> simp [Ty.kind] at hk <;> rfl
    subst ht1
    have hcw := chunks_width_one .j rfl p
    rw [e2] at hcw
    have hval : (chunksN Ty.j.width (len / Ty.j.width) p).map (elemDec .j) = p.map (fun (b : Nat) => ((jisChar b : Nat) : Int)) := by
      rw [hcw]; apply List.map_congr_left; intro b _; simp [elemDec, Ty.kind, ofBe]
    simp only [item_coding, jis8_coding, hptake, decodeText_jis p habp, hval, hpdrop]
  | byte =>
    have ht1 : t = .b := by cases t <;> simp [Ty.kind] at hk <;> rfl
    subst ht1
    have hcw := chunks_width_one .b rfl p
    rw [e2] at hcw
    have hval : (chunksN Ty.b.width (len / Ty.b.width) p).map (elemDec .b) = p.map (fun (b : Nat) => (b : Int)) := by
      rw [hcw]; apply List.map_congr_left; intro b _; simp [elemDec, Ty.kind, ofBe]
    simp only [hptake, hval, hpdrop]
  | bool =>
    have ht1 : t = .bool := by cases t <;> simp [Ty.kind] at hk <;> rfl
    subst ht1
    have hcw := chunks_width_one .bool rfl p
    rw [e2] at hcw
    have hval : (chunksN Ty.bool.width (len / Ty.bool.width) p).map (elemDec .bool) = p.map (fun (b : Nat) => if 0 < b then (1 : Int) else 0) := by
      rw [hcw]; apply List.map_congr_left; intro b _
      simp only [elemDec, Ty.kind, ofBe, List.length_nil, Nat.pow_zero, Nat.mul_one, Nat.add_zero]
      by_cases hb : b = 0
      · subst hb; rfl
      · have : 0 < b := by omega
        simp [hb, this]
    simp only [hptake, hval, hpdrop]

def R1 (f : Nat) : Prop := ∀ (bs : Bytes) (v : Val) (r : Bytes), decItem f bs = some (v, r) → AllBytes bs → v.Finite →
  ∀ (g : Nat), f ≤ g → Model.Item.decode g bs = .ok (v, r)
def R2 (f : Nat) : Prop := ∀ (n : Nat) (bs : Bytes) (xs : List Val) (r : Bytes), decList f n bs = some (xs, r) → AllBytes bs → FiniteList xs →
  ∀ (g : Nat), f ≤ g → Model.Item.decodeItems g n bs = .ok (xs, r)

theorem r1_step (f : Nat) (h2 : R2 f) : R1 (f + 1) := by
  intro bs v r h hab hfin g hg
  obtain ⟨g', rfl⟩ : ∃ g', g = g' + 1 := ⟨g - 1, by omega⟩
  simp only [decItem] at h
  split at h
  · simp at h
  · rename_i code len r0 hh
    obtain ⟨hdec, fb, rr, hbs, hcode⟩ := item_decHeader_agree hh
    have habr0 : AllBytes r0 := by
      obtain ⟨fb', lb, hbs', _⟩ := specHeader_suffix hh
      subst hbs'
      exact fun x hx => hab x (by simp [hx])
    subst hbs
    split at h
    · rename_i hc0
      subst hc0
      split at h
      · simp at h
      · rename_i xs r' hd
        injection h with h; injection h with e1 e2; subst e1; subst e2
        simp only [Val.Finite] at hfin
        simp only [Model.Item.decode, hcode, byHsms_list, hdec, h2 len r0 xs r' hd habr0 hfin g' (by omega)]
    · split at h
      · simp at h
      · rename_i t hof
        have htc := ofCode_some hof
        subst htc
        split at h
        · simp at h
        · rename_i hm
          have hm : len % t.width = 0 := by simpa using hm
          split at h
          · simp at h
          · rename_i p r' ht
            injection h with h; injection h with e1 e2; subst e1; subst e2
            simp only [Val.Finite] at hfin
            simp only [Model.Item.decode, hcode, byHsms_leaf]
            exact item_decLeaf_complete t _ r0 p r' len hh hm ht hab hfin

theorem r2_step (f : Nat) (h1 : R1 f) (h2 : R2 f) : R2 (f + 1) := by
  intro n bs xs r h hab hfin g hg
  match n with
  | 0 =>
    simp only [decList] at h; injection h with h; injection h with e1 e2; subst e1; subst e2
    cases g <;> simp [Model.Item.decodeItems]
  | n+1 =>
    simp only [decList] at h
    split at h
    · simp at h
    · rename_i x r1 hx
      split at h
      · simp at h
      · rename_i ys r2 hys
        injection h with h; injection h with e1 e2; subst e1; subst e2
        obtain ⟨g', rfl⟩ : ∃ g', g = g' + 1 := ⟨g - 1, by omega⟩
        simp only [FiniteList] at hfin
        obtain ⟨p1, hp1, _⟩ := decItem_suffix f bs x r1 hx
        have hab1 : AllBytes r1 := by rw [hp1] at hab; exact allBytes_of_append_right hab
        simp only [Model.Item.decodeItems, h1 bs x r1 hx hab hfin.1 g' (by omega), h2 n r1 ys r2 hys hab1 hfin.2 g' (by omega)]

theorem all_R : ∀ f, R1 f ∧ R2 f
  | 0 => by
    refine ⟨?_, ?_⟩
    · intro bs v r h; simp [decItem] at h
    · intro n bs xs r h hab hfin g hg
      match n with
      | 0 =>
        simp only [decList] at h; injection h with h; injection h with e1 e2; subst e1; subst e2
        cases g <;> simp [Model.Item.decodeItems]
      | n+1 => simp [decList] at h
  | f+1 => by
    obtain ⟨h1, h2⟩ := all_R f
    exact ⟨r1_step f h2, r2_step f h1 h2⟩

/-- **`Item.decode` is complete**: every byte string the reference accepts (finite floats) decodes to the same value, leaving the same bytes -/
theorem item_decode_complete (bs : Bytes) (v : Val) (rest : Bytes) (h : decodeAny bs = some (v, rest)) (hab : AllBytes bs) (hfin : v.Finite) :
    Model.Item.decodeBytes bs = .ok (v, rest) :=
  (all_R _).1 bs v rest h hab hfin _ (Nat.le_refl _)

/-! ### `Item.from_value` -/

open SecsModel.Model.Item in
theorem bySml_facts : bySml "U1" = some (.leaf .u1) ∧ bySml "U2" = some (.leaf .u2) ∧ bySml "U4" = some (.leaf .u4) ∧ bySml "U8" = some (.leaf .u8)
    ∧ bySml "I1" = some (.leaf .i1) ∧ bySml "I2" = some (.leaf .i2) ∧ bySml "I4" = some (.leaf .i4) ∧ bySml "I8" = some (.leaf .i8)
    ∧ bySml "A" = some (.leaf .a) ∧ bySml "B" = some (.leaf .b) ∧ bySml "BOOLEAN" = some (.leaf .bool) ∧ bySml "L" = some .l
    ∧ bySml "F4" = some (.leaf .f4) ∧ bySml "F8" = some (.leaf .f8) := by decide +kernel

/-- narrowest unsigned / signed E5 integer format that holds `n` -/
def uintFor (n : Int) : Ty := if n ≤ 255 then .u1 else if n ≤ 65535 then .u2 else if n ≤ 4294967295 then .u4 else .u8
def sintFor (n : Int) : Ty := if -128 ≤ n then .i1 else if -32768 ≤ n then .i2 else if -2147483648 ≤ n then .i4 else .i8

open SecsModel.Model.Item in
theorem from_value_uint (n : Int) (h0 : 0 ≤ n) (h1 : n < 18446744073709551616) :
    fromValue (.int n) = .ok (.item (uintFor n) [n]) := by
  obtain ⟨b1, b2, b3, b4, _⟩ := bySml_facts
  have hge : n ≥ 0 := h0
  by_cases c1 : n ≤ 255
  · simp [uintFor, c1, fromValue, Gen.ItemTypes.fromValueChain, isInstance, pickType, Gen.ItemTypes.fromValueUnsigned, hge, b1, b2, b3, b4,
      inBounds, tagRow, Model.Item.rowOf, Gen.ItemTypes.ItemU1, h0, validateLeaf, numElem, Ty.kind]
  · by_cases c2 : n ≤ 65535
    · simp [uintFor, c1, c2, fromValue, Gen.ItemTypes.fromValueChain, isInstance, pickType, Gen.ItemTypes.fromValueUnsigned, hge, b1, b2, b3, b4,
        inBounds, tagRow, Model.Item.rowOf, Gen.ItemTypes.ItemU1, Gen.ItemTypes.ItemU2, h0, validateLeaf, numElem, Ty.kind]
    · by_cases c3 : n ≤ 4294967295
      · have c2' : ¬ n ≤ 65535 := c2
        simp [uintFor, c1, c2, c3, fromValue, Gen.ItemTypes.fromValueChain, isInstance, pickType, Gen.ItemTypes.fromValueUnsigned, hge, b1, b2, b3, b4,
          inBounds, tagRow, Model.Item.rowOf, Gen.ItemTypes.ItemU1, Gen.ItemTypes.ItemU2, Gen.ItemTypes.ItemU4, h0, validateLeaf, numElem, Ty.kind]
      · have c4 : n ≤ 18446744073709551615 := by omega
        simp [uintFor, c1, c2, c3, c4, fromValue, Gen.ItemTypes.fromValueChain, isInstance, pickType, Gen.ItemTypes.fromValueUnsigned, hge, b1, b2, b3, b4,
          inBounds, tagRow, Model.Item.rowOf, Gen.ItemTypes.ItemU1, Gen.ItemTypes.ItemU2, Gen.ItemTypes.ItemU4, Gen.ItemTypes.ItemU8, h0, validateLeaf, numElem, Ty.kind]

open SecsModel.Model.Item in
theorem from_value_sint (n : Int) (h0 : n < 0) (h1 : -9223372036854775808 ≤ n) :
    fromValue (.int n) = .ok (.item (sintFor n) [n]) := by
  obtain ⟨_, _, _, _, b1, b2, b3, b4, _⟩ := bySml_facts
  have hge : ¬ (n ≥ 0) := by omega
  have hle1 : n ≤ 127 := by omega
  have hle2 : n ≤ 32767 := by omega
  have hle3 : n ≤ 2147483647 := by omega
  have hle4 : n ≤ 9223372036854775807 := by omega
  by_cases c1 : -128 ≤ n
  · simp [sintFor, c1, fromValue, Gen.ItemTypes.fromValueChain, isInstance, pickType, Gen.ItemTypes.fromValueSigned, hge, b1, b2, b3, b4,
      inBounds, tagRow, Model.Item.rowOf, Gen.ItemTypes.ItemI1, hle1, validateLeaf, numElem, Ty.kind]
  · by_cases c2 : -32768 ≤ n
    · simp [sintFor, c1, c2, fromValue, Gen.ItemTypes.fromValueChain, isInstance, pickType, Gen.ItemTypes.fromValueSigned, hge, b1, b2, b3, b4,
        inBounds, tagRow, Model.Item.rowOf, Gen.ItemTypes.ItemI1, Gen.ItemTypes.ItemI2, hle2, validateLeaf, numElem, Ty.kind]
    · by_cases c3 : -2147483648 ≤ n
      · simp [sintFor, c1, c2, c3, fromValue, Gen.ItemTypes.fromValueChain, isInstance, pickType, Gen.ItemTypes.fromValueSigned, hge, b1, b2, b3, b4,
          inBounds, tagRow, Model.Item.rowOf, Gen.ItemTypes.ItemI1, Gen.ItemTypes.ItemI2, Gen.ItemTypes.ItemI4, hle3, validateLeaf, numElem, Ty.kind]
      · simp [sintFor, c1, c2, c3, h1, fromValue, Gen.ItemTypes.fromValueChain, isInstance, pickType, Gen.ItemTypes.fromValueSigned, hge, b1, b2, b3, b4,
          inBounds, tagRow, Model.Item.rowOf, Gen.ItemTypes.ItemI1, Gen.ItemTypes.ItemI2, Gen.ItemTypes.ItemI4, Gen.ItemTypes.ItemI8, hle4, validateLeaf, numElem, Ty.kind]

open SecsModel.Model.Item in
theorem from_value_other :
    (∀ b : Bool, fromValue (.bool b) = .ok (.item .bool [if b then 1 else 0]))
    ∧ (∀ cps : List Nat, fromValue (.str cps) = .ok (.item .a (cps.map (fun (c : Nat) => (c : Int)))))
    ∧ (∀ bs : Bytes, fromValue (.bytes bs) = .ok (.item .b (bs.map (fun (b : Nat) => (b : Int)))))
    ∧ (∀ ps : List PyVal, fromValue (.list ps) = match fromValues ps with | .error e => .error e | .ok vs => .ok (.list vs))
    ∧ (∀ v : Val, fromValue (.obj v) = .ok v) := by
  obtain ⟨_, _, _, _, _, _, _, _, ba, bb, bbool, bl, _⟩ := bySml_facts
  refine ⟨?_, ?_, ?_, ?_, ?_⟩
  · intro b
    cases b <;>
      simp [fromValue, Gen.ItemTypes.fromValueChain, isInstance, bbool, validateLeaf, boolElem, inBounds, Model.Item.rowOf, Gen.ItemTypes.ItemBOOLEAN, Ty.kind] <;>
      decide
  · intro cps
    simp [fromValue, Gen.ItemTypes.fromValueChain, isInstance, ba, validateLeaf, Ty.kind]
  · intro bs
    simp [fromValue, Gen.ItemTypes.fromValueChain, isInstance, bb, validateLeaf, binElem, Ty.kind]
  · intro ps
    simp [fromValue, Gen.ItemTypes.fromValueChain]
    cases fromValues ps <;> rfl
  · intro v
    simp [fromValue, Gen.ItemTypes.fromValueChain]

/-! ### an item holds the value it was built from -/

/-- the elements a plain Python scalar stands for in an item of type `t` (no range or type checks: the meaning of the input) -/
def denoteScalar (t : Ty) : PyVal → Option (List Int)
  | .int n => some [n]
  | .bool b => some [if b then 1 else 0]
  | .float x => some [(x : Int)]
  | .bytes bs =>
    match t.kind with
    | .jis => some (bs.map (fun (b : Nat) => ((jisChar b : Nat) : Int)))
    | _ => some (bs.map (fun (b : Nat) => (b : Int)))
  | .str cps =>
    match t.kind with
    | .byte => (match Model.Item.utf8 cps with | .ok bs => some (bs.map (fun (b : Nat) => (b : Int))) | .error _ => none)
    | _ => some (cps.map (fun (c : Nat) => (c : Int)))
  | _ => none

def denoteList (t : Ty) : List PyVal → Option (List Int)
  | [] => some []
  | p :: ps =>
    match denoteScalar t p, denoteList t ps with
    | some a, some b => some (a ++ b)
    | _, _ => none

/-- a list input is the concatenation of what its members stand for -/
def denote (t : Ty) : PyVal → Option (List Int)
  | .list ps => denoteList t ps
  | p => denoteScalar t p

open SecsModel.Model.Item in
theorem numElem_denote (t : Ty) (p : PyVal) (v : Int)
    (hv : numElem (Model.Item.rowOf t) p = .ok v) : denoteScalar t p = some [v] := by
  cases hf : (Model.Item.rowOf t).is_float
  · match p with
    | .int n =>
      simp only [numElem, hf, Bool.false_eq_true, if_false] at hv
      split at hv
      · injection hv with hv; subst hv; rfl
      · cases hv
    | .bool b =>
      cases b <;> simp only [numElem, hf, Bool.false_eq_true, if_false, if_true] at hv <;>
        (split at hv
         · injection hv with hv; subst hv; rfl
         · cases hv)
    | .none | .float _ | .str _ | .bytes _ | .bytearray _ | .list _ | .tuple _ | .obj _ => simp [numElem, hf] at hv
  · match p with
    | .float x =>
      simp only [numElem, hf, if_true] at hv
      split at hv
      · injection hv with hv; subst hv; rfl
      · cases hv
    | .none | .int _ | .bool _ | .str _ | .bytes _ | .bytearray _ | .list _ | .tuple _ | .obj _ => simp [numElem, hf] at hv

open SecsModel.Model.Item in
theorem numElems_denote (t : Ty) :
    ∀ (ps : List PyVal) (vs : List Int), numElems (Model.Item.rowOf t) ps = .ok vs → denoteList t ps = some vs
  | [], vs, hv => by simp only [numElems] at hv; injection hv with hv; subst hv; rfl
  | p :: ps, vs, hv => by
    simp only [numElems] at hv
    split at hv
    · cases hv
    · rename_i v h1
      split at hv
      · cases hv
      · rename_i ws h2
        injection hv with hv; subst hv
        simp only [denoteList, numElem_denote t p v h1, numElems_denote t ps ws h2, List.singleton_append]

open SecsModel.Model.Item in
theorem bool_bounds (e : Int) : inBounds (Model.Item.rowOf .bool) e = true ↔ (0 ≤ e ∧ e ≤ 1) := by
  have : inBounds (Model.Item.rowOf .bool) e = (decide (0 ≤ e) && decide (e ≤ 1)) := rfl
  rw [this, Bool.and_eq_true]
  exact ⟨fun h => ⟨of_decide_eq_true h.1, of_decide_eq_true h.2⟩, fun h => ⟨decide_eq_true h.1, decide_eq_true h.2⟩⟩

open SecsModel.Model.Item in
theorem bin_bounds (e : Int) : inBounds (Model.Item.rowOf .b) e = true ↔ (0 ≤ e ∧ e ≤ 255) := by
  have : inBounds (Model.Item.rowOf .b) e = (decide (0 ≤ e) && decide (e ≤ 255)) := rfl
  rw [this, Bool.and_eq_true]
  exact ⟨fun h => ⟨of_decide_eq_true h.1, of_decide_eq_true h.2⟩, fun h => ⟨decide_eq_true h.1, decide_eq_true h.2⟩⟩

open SecsModel.Model.Item in
theorem boolElem_denote (p : PyVal) (v : Int) (hv : boolElem (Model.Item.rowOf .bool) p = .ok v) : denoteScalar .bool p = some [v] := by
  match p with
  | .bool b =>
    cases b <;> simp only [boolElem, Bool.false_eq_true, if_false, if_true] at hv <;>
      (split at hv
       · injection hv with hv; subst hv; rfl
       · cases hv)
  | .int n =>
    simp only [boolElem] at hv
    split at hv
    · rename_i hb
      injection hv with hv; subst hv
      have := (bool_bounds n).mp hb
      simp only [denoteScalar]
      by_cases h1 : n = 1
      · subst h1; rfl
      · have : n = 0 := by omega
        subst this; rfl
    · cases hv
  | .none | .float _ | .str _ | .bytes _ | .bytearray _ | .list _ | .tuple _ | .obj _ => simp [boolElem] at hv

open SecsModel.Model.Item in
theorem boolElems_denote : ∀ (ps : List PyVal) (vs : List Int), boolElems (Model.Item.rowOf .bool) ps = .ok vs → denoteList .bool ps = some vs
  | [], vs, hv => by simp only [boolElems] at hv; injection hv with hv; subst hv; rfl
  | p :: ps, vs, hv => by
    simp only [boolElems] at hv
    split at hv
    · cases hv
    · rename_i v h1
      split at hv
      · cases hv
      · rename_i ws h2
        injection hv with hv; subst hv
        simp only [denoteList, boolElem_denote p v h1, boolElems_denote ps ws h2, List.singleton_append]

open SecsModel.Model.Item in
theorem binElem_denote (p : PyVal) (bs : Bytes) (hv : binElem (Model.Item.rowOf .b) p = .ok bs) :
    denoteScalar .b p = some (bs.map (fun (b : Nat) => (b : Int))) := by
  match p with
  | .bool b =>
    cases b <;> simp only [binElem, Bool.false_eq_true, if_false, if_true] at hv <;>
      (split at hv
       · injection hv with hv; subst hv; rfl
       · cases hv)
  | .int n =>
    simp only [binElem] at hv
    split at hv
    · rename_i hb
      injection hv with hv; subst hv
      have := (bin_bounds n).mp hb
      simp only [denoteScalar, List.map_cons, List.map_nil]
      have : ((n.toNat : Nat) : Int) = n := Int.toNat_of_nonneg this.1
      rw [this]
    · cases hv
  | .str cps =>
    simp only [binElem] at hv
    simp only [denoteScalar, Ty.kind, hv]
  | .bytes bs' =>
    simp only [binElem] at hv
    injection hv with hv; subst hv
    simp only [denoteScalar, Ty.kind]
  | .none | .float _ | .bytearray _ | .list _ | .tuple _ | .obj _ => simp [binElem] at hv

open SecsModel.Model.Item in
theorem binElems_denote : ∀ (ps : List PyVal) (bs : Bytes), binElems (Model.Item.rowOf .b) ps = .ok bs →
    denoteList .b ps = some (bs.map (fun (b : Nat) => (b : Int)))
  | [], bs, hv => by simp only [binElems] at hv; injection hv with hv; subst hv; rfl
  | p :: ps, bs, hv => by
    simp only [binElems] at hv
    split at hv
    · cases hv
    · rename_i v h1
      split at hv
      · cases hv
      · rename_i ws h2
        injection hv with hv; subst hv
        simp only [denoteList, binElem_denote p v h1, binElems_denote ps ws h2, List.map_append]

/-- **C14_holds_value**: whatever a leaf constructor accepts, the item holds exactly the elements the input stands for —
nothing clipped, wrapped, reordered, dropped or zeroed -/
theorem holds_value (t : Ty) (p : PyVal) (es : List Int) (hab : ∀ bs, p = .bytes bs → AllBytes bs)
    (h : Model.Item.validateLeaf t p = .ok es) : denote t p = some es := by
  have num : (t.kind = .sint ∨ t.kind = .uint ∨ t.kind = .f32 ∨ t.kind = .f64) →
      (match p with
        | .list xs => Model.Item.numElems (Model.Item.rowOf t) xs
        | _ => match Model.Item.numElem (Model.Item.rowOf t) p with | .error e => .error e | .ok v => .ok [v]) = .ok es →
      denote t p = some es := by
    intro _ h
    match p with
    | .list ps => exact numElems_denote t ps es h
    | .none | .int _ | .bool _ | .float _ | .str _ | .bytes _ | .bytearray _ | .tuple _ | .obj _ =>
      simp only [] at h
      split at h
      · cases h
      · rename_i v hv
        injection h with h; subst h
        exact numElem_denote t _ v hv
  cases hk : t.kind with
  | sint => simp only [Model.Item.validateLeaf, hk] at h; exact num (by simp [hk]) h
  | uint => simp only [Model.Item.validateLeaf, hk] at h; exact num (by simp [hk]) h
  | f32 => simp only [Model.Item.validateLeaf, hk] at h; exact num (by simp [hk]) h
  | f64 => simp only [Model.Item.validateLeaf, hk] at h; exact num (by simp [hk]) h
  | bool =>
    have ht : t = .bool := by cases t <;> simp [Ty.kind] at hk <;> rfl
    subst ht
    simp only [Model.Item.validateLeaf, hk] at h
    match p with
    | .list ps => exact boolElems_denote ps es h
    | .none | .int _ | .bool _ | .float _ | .str _ | .bytes _ | .bytearray _ | .tuple _ | .obj _ =>
      simp only [] at h
      split at h
      · cases h
      · rename_i v hv
        injection h with h; subst h
        exact boolElem_denote _ v hv
  | byte =>
    have ht : t = .b := by cases t <;> simp [Ty.kind] at hk <;> rfl
    subst ht
    simp only [Model.Item.validateLeaf, hk] at h
    split at h
    · cases h
    · rename_i bs hb
      injection h with h; subst h
      match p with
      | .list ps => exact binElems_denote ps bs hb
      | .none | .int _ | .bool _ | .float _ | .str _ | .bytes _ | .bytearray _ | .tuple _ | .obj _ => exact binElem_denote _ bs hb
  | char =>
    have ht : t = .a := by cases t <;> simp [Ty.kind] at hk <;> rfl
    subst ht
    simp only [Model.Item.validateLeaf, hk] at h
    match p with
    | .str cps => simp only [] at h; injection h with h; subst h; rfl
    | .bytes bs =>
      simp only [] at h
      rw [item_coding, string_coding, decodeText_latin] at h
      injection h with h; subst h; rfl
    | .none | .int _ | .bool _ | .float _ | .bytearray _ | .list _ | .tuple _ | .obj _ => simp at h
  | jis =>
    have ht : t = .j := by cases t <;> simp [Ty.kind] at hk <;> rfl
    subst ht
    simp only [Model.Item.validateLeaf, hk] at h
    match p with
    | .str cps => simp only [] at h; injection h with h; subst h; rfl
    | .bytes bs =>
      simp only [] at h
      rw [item_coding, jis8_coding, decodeText_jis bs (hab bs rfl)] at h
      injection h with h; subst h; rfl
    | .none | .int _ | .bool _ | .float _ | .bytearray _ | .list _ | .tuple _ | .obj _ => simp at h

end SecsModel.Proofs.CodecItem
