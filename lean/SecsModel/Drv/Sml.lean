import SecsModel.Drv.Util
import SecsModel.Model.Sml
-- DRIVER-DOMAIN: sml
/-! Driver domain `sml`.

```
sml print <q><j> <ftable> <item-sexpr…>      -> ok <hex of the SML text (ASCII)>
sml parse <ptable> <text>                     -> ok <item-sexpr> rest=<tokens left> | err <kind>
sml tokens <text>                             -> ok <token>|<token>|…            (each token as dotted hex code points)
sml int <0|1> <text>                          -> ok <int> | err ValueError         (`int(text)` / `int(text, 0)`)
```
`<q><j>`   two digits: `defects.quotePrintable`, `defects.jis8Unicode`
`<ftable>` `-` or `bits16:texthex,…`  — the instance of the abstract `fmtF` (Python `repr` of the doubles that occur in the item)
`<ptable>` `-` or `token(dotted hex):bits16,…` — the instance of the abstract `parseF` (Python `float()` of every candidate token of the text)
`<text>`   `-` or dotted hex code points `3c.20.41`
item s-expr: `(L val*) (B hex) (BOOLEAN 0 1 …) (A hex) (J hex) (U1 n …) … (F8 bits16 …)`, hex `-` when empty
-/
namespace SecsModel.Drv.Sml
open SecsModel SecsModel.Drv SecsModel.Model.Sml

def hexNatAux : List Char → Nat → Option Nat
  | [], acc => some acc
  | c :: cs, acc => match hexVal c with
    | some v => hexNatAux cs (acc * 16 + v)
    | none => none

def hexNat (s : String) : Option Nat := if s.isEmpty then none else hexNatAux s.toList 0

def natHex (n : Nat) : String := String.ofList ((Nat.toDigits 16 n))

def pad16 (s : String) : String := String.ofList (List.replicate (16 - s.length) '0') ++ s

/-- dotted hex code points -/
def parseText (s : String) : Option Text :=
  if s == "-" then some [] else (s.splitOn ".").mapM hexNat

def showText (t : Text) : String := if t.isEmpty then "-" else ".".intercalate (t.map natHex)

def asciiHex (t : Text) : String := bytesToHex (t.map (· % 256))

/-- `k:v,k:v` -/
def parseTable (s : String) : Option (List (String × String)) :=
  if s == "-" then some [] else
  (s.splitOn ",").mapM (fun kv => match kv.splitOn ":" with | [k, v] => some (k, v) | _ => none)

def fmtOfTable (tbl : List (Nat × Text)) (b : Nat) : Text := (tbl.lookup b).getD [63]
def parseOfTable (tbl : List (Text × Nat)) (t : Text) : Option Nat := tbl.lookup t

/-! s-expression reader over the words of the request (parentheses are split off first) -/
def splitParens (ws : List String) : List String :=
  ws.foldr (fun w acc =>
    let rec go (cs : List Char) (cur : List Char) (out : List String) : List String :=
      match cs with
      | [] => if cur.isEmpty then out.reverse else (String.ofList cur.reverse :: out).reverse
      | c :: r =>
        if c == '(' || c == ')' then
          go r [] (String.singleton c :: (if cur.isEmpty then out else String.ofList cur.reverse :: out))
        else go r (c :: cur) out
    go w.toList [] [] ++ acc) []

def intTyOf : String → Option IntTy
  | "U1" => some .u1 | "U2" => some .u2 | "U4" => some .u4 | "U8" => some .u8
  | "I1" => some .i1 | "I2" => some .i2 | "I4" => some .i4 | "I8" => some .i8
  | _ => none

def takeAtoms : List String → List String → List String × List String
  | [], acc => (acc.reverse, [])
  | w :: r, acc => if w == ")" then (acc.reverse, w :: r) else if w == "(" then (acc.reverse, w :: r) else takeAtoms r (w :: acc)

mutual
partial def readSexp : List String → Option (Item × List String)
  | "(" :: tag :: rest =>
    if tag == "L" then
      match readSexps rest [] with
      | some (xs, ")" :: r) => some (.list xs, r)
      | _ => none
    else
      let (atoms, r) := takeAtoms rest []
      match r with
      | ")" :: r' =>
        let bytesArg : Option (List Nat) := match atoms with | [h] => hexToBytes h | _ => none
        if tag == "B" then bytesArg.map (fun bs => (.bin bs, r'))
        else if tag == "A" then bytesArg.map (fun bs => (.strA bs, r'))
        else if tag == "J" then bytesArg.map (fun bs => (.strJ bs, r'))
        else if tag == "BOOLEAN" then (atoms.mapM parseBool).map (fun vs => (.bool vs, r'))
        else if tag == "F4" then (atoms.mapM hexNat).map (fun vs => (.flt .f4 vs, r'))
        else if tag == "F8" then (atoms.mapM hexNat).map (fun vs => (.flt .f8 vs, r'))
        else match intTyOf tag with
          | some t => (atoms.mapM parseInt).map (fun vs => (.int t vs, r'))
          | none => none
      | _ => none
  | _ => none
partial def readSexps : List String → List Item → Option (List Item × List String)
  | ")" :: r, acc => some (acc.reverse, ")" :: r)
  | ws, acc => match readSexp ws with
    | some (x, r) => readSexps r (x :: acc)
    | none => none
end

def intTyName : IntTy → String
  | .u1 => "U1" | .u2 => "U2" | .u4 => "U4" | .u8 => "U8" | .i1 => "I1" | .i2 => "I2" | .i4 => "I4" | .i8 => "I8"

partial def showItem : Item → String
  | .list xs => if xs.isEmpty then "(L)" else "(L " ++ " ".intercalate (xs.map showItem) ++ ")"
  | .bin bs => "(B " ++ bytesToHex bs ++ ")"
  | .bool vs => "(BOOLEAN" ++ String.join (vs.map (fun v => " " ++ showBool v)) ++ ")"
  | .strA bs => "(A " ++ bytesToHex bs ++ ")"
  | .strJ bs => "(J " ++ bytesToHex bs ++ ")"
  | .int t vs => "(" ++ intTyName t ++ String.join (vs.map (fun v => " " ++ toString v)) ++ ")"
  | .flt t vs => "(" ++ (match t with | .f4 => "F4" | .f8 => "F8") ++ String.join (vs.map (fun v => " " ++ pad16 (natHex v))) ++ ")"

def parseDefects (s : String) : Option Defects :=
  match s.toList with
  | [q, j] => do pure ⟨← parseBool (String.singleton q), ← parseBool (String.singleton j)⟩
  | _ => none

def handle : List String → String
  | "print" :: df :: ft :: sexp =>
    match parseDefects df, parseTable ft, readSexp (splitParens sexp) with
    | some d, some tbl, some (item, []) =>
      match tbl.mapM (fun (k, v) => do pure ((← hexNat k), (← hexToBytes v))) with
      | some tbl => "ok " ++ asciiHex (toSml d (fmtOfTable tbl) 0 item)
      | none => "bad-op"
    | _, _, _ => "bad-op"
  | ["parse", pt, text] =>
    match parseTable pt, parseText text with
    | some tbl, some s =>
      match tbl.mapM (fun (k, v) => do pure ((← parseText k), (← hexNat v))) with
      | some tbl =>
        (match parseTokens (parseOfTable tbl) (tokenize s) with
         | .ok (x, rest) => "ok " ++ showItem x ++ " rest=" ++ toString rest.length
         | .error e => "err " ++ e.name)
      | none => "bad-op"
    | _, _ => "bad-op"
  | ["tokens", text] =>
    match parseText text with
    | some s => "ok " ++ "|".intercalate ((tokenize s).map showText)
    | none => "bad-op"
  | ["int", b0, text] =>
    match parseBool b0, parseText text with
    | some b, some s => (match pyInt b s with | some v => "ok " ++ toString v | none => "err ValueError")
    | _, _ => "bad-op"
  | _ => "bad-op"

end SecsModel.Drv.Sml
