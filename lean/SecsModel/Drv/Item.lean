import SecsModel.Drv.Codec
import SecsModel.Model.Item
-- DRIVER-DOMAIN: item
/-! Driver domain `item` (Item API).  Value / pyval / data syntax as in `Drv/Codec.lean`; class tags are `L` or a type mnemonic. -/
namespace SecsModel.Drv.Item
open SecsModel SecsModel.Drv SecsModel.Drv.Codec SecsModel.Spec.E5 SecsModel.Model.Var SecsModel.Model.Item

def itagOfName (s : String) : Option ITag := if s == "L" then some .l else (tyOfName s).map .leaf

def handle : List String → String
  | ["hdr", c, l] => match c.toInt?, l.toInt? with
    | some c, some l => answer bytesToHex (Gen.ItemHeaderItem.encode c l)
    | _, _ => "bad-op"
  | "new" :: tag :: ws => match itagOfName tag, parsePy (tokenize (" ".intercalate ws)) with
    | some g, some (p, []) => answer showVal (construct g p)
    | _, _ => "bad-op"
  | "from" :: ws => match parsePy (tokenize (" ".intercalate ws)) with
    | some (p, []) => answer showVal (fromValue p)
    | _ => "bad-op"
  | "enc" :: ws => match parseVal (tokenize (" ".intercalate ws)) with
    | some (v, []) => answer bytesToHex (Model.Item.encode v)
    | _ => "bad-op"
  | "encsum" :: ws => match parseVal (tokenize (" ".intercalate ws)) with
    | some (v, []) => answer digest (Model.Item.encode v)
    | _ => "bad-op"
  | "dec" :: ws => match parseData ws with
    | some bs => answer (fun (r : Val × Bytes) => s!"{showVal r.1} rest={r.2.length}") (decodeBytes bs)
    | none => "bad-op"
  | "decsum" :: ws => match parseData ws with
    | some bs => answer (fun (r : Val × Bytes) => s!"{valDigest r.1} rest={r.2.length}") (decodeBytes bs)
    | none => "bad-op"
  | "value" :: ws => match parseVal (tokenize (" ".intercalate ws)) with
    | some (v, []) => "ok " ++ showPy (valueOf v)
    | _ => "bad-op"
  | _ => "bad-op"

end SecsModel.Drv.Item
