import SecsModel.Drv.Util
import SecsModel.Model.GemComm
-- DRIVER-DOMAIN: gemcomm
/-! Driver domain `gemcomm`.

`gemcomm run <host|equipment> <commackReq> <sysChecked 0|1><commackGate 0|1> <user cbs s.f,s.f|-> <input>,<input>,…`
inputs: `en dis con sel lost t3 dly rx:<s>:<f>:<w>:<sys>:<commack|->`, and `cfg` — the application changes a timer setting: not an
input of the model (durations are not modelled), answered with the unchanged state and no output; `a+b`: one letter of the
harness that is several inputs of the model, shown as one step
answer: `ok <step>;<step>;…` with `<step> = <COMM>/<connected><selected><t3Armed><delayArmed><waitfor_communicating(0)>/<queued count>:<out>+<out>…`
-/
namespace SecsModel.Drv.GemComm
open SecsModel SecsModel.Drv SecsModel.Spec.E30Comm SecsModel.Model.GemComm

def parseNat (s : String) : Option Nat := s.toNat?

def parseInput (tok : String) : Option (Option Input) :=
  if tok == "cfg" then some none else
  (fun i => some i) <$> match tok.splitOn ":" with
  | ["en"] => some .enable
  | ["dis"] => some .disable
  | ["con"] => some .linkConnected
  | ["sel"] => some .linkSelected
  | ["lost"] => some .linkLost
  | ["t3"] => some .t3Expired
  | ["dly"] => some .delayExpired
  | ["rx", s, f, w, sys, c] => do
    let s ← parseNat s; let f ← parseNat f; let w ← parseBool w; let sys ← parseNat sys
    let c ← if c == "-" then some none else (parseNat c).map some
    pure (.rx s f w sys c)
  | _ => none

def parsePairs (s : String) : Option (List (Nat × Nat)) :=
  if s == "-" then some [] else
  (s.splitOn ",").mapM (fun p => match p.splitOn "." with
    | [a, b] => do pure ((← parseNat a), (← parseNat b))
    | _ => none)

def showOutput : Output → String
  | .txS1F13 k => s!"13.{k}"
  | .txS1F14 sys c => s!"14.{sys}.{c}"
  | .evtCommunicating => "evt"
  | .callback s f => s!"cb.{s}.{f}"
  | .unknown s f w => s!"unk.{s}.{f}.{showBool w}"
  | .wrongSource t => s!"ws.{t.name}"
  | .blocked => "blk"

def showStep (s : State) (o : List Output) : String :=
  s!"{s.comm.name}/{showBool s.connected}{showBool s.selected}{showBool s.t3Armed}{showBool s.delayArmed}{showBool (reportsEstablished s)}/{s.queued.length}:" ++ "+".intercalate (o.map showOutput)

/-- one letter of the harness may be several inputs of the model (`a+b`: e.g. `en+sel`, an `enable()` on a transport that
selects the link before it returns): they are run in order and shown as one step -/
def runLetter (cfg : Cfg) : State → List (Option Input) → List Output → State × List Output
  | s, [], acc => (s, acc)
  | s, none :: is, acc => runLetter cfg s is acc
  | s, some i :: is, acc => let r := step cfg s i; runLetter cfg r.1 is (acc ++ r.2)

def runShow (cfg : Cfg) : State → List (List (Option Input)) → List String → List String
  | _, [], acc => acc.reverse
  | s, l :: ls, acc => let r := runLetter cfg s l []; runShow cfg r.1 ls (showStep r.1 r.2 :: acc)

def handle : List String → String
  | ["run", role, ck, flags, cbs, inputs] =>
    match (if role == "host" then some Role.host else if role == "equipment" then some Role.equipment else none),
          parseNat ck, parsePairs cbs, (inputs.splitOn ",").mapM (fun l => (l.splitOn "+").mapM parseInput) with
    | some role, some ck, some cbs, some ins =>
      let fl := flags.toList
      let cfg : Cfg := { role := role, commackReq := ck, userCbs := cbs, sysChecked := fl.getD 0 '0' == '1', commackGate := fl.getD 1 '0' == '1' }
      "ok " ++ ";".intercalate (runShow cfg init ins [])
    | _, _, _, _ => "bad-op"
  | _ => "bad-op"

end SecsModel.Drv.GemComm
