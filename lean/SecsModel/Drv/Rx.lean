import SecsModel.Drv.Util
import SecsModel.Drv.Hsms
import SecsModel.Model.Wedge
-- DRIVER-DOMAIN: rx
/-! Driver domain `rx`: the receive loop (`feed`) and the thread-level close-sequence model (`wedge`). -/
namespace SecsModel.Drv.Rx
open SecsModel SecsModel.Drv SecsModel.Model.Rx SecsModel.Model.Wedge

def parseChunks : List String → Option (List Bytes)
  | [] => some []
  | w :: ws => do
    let c ← hexToBytes w
    let cs ← parseChunks ws
    pure (c :: cs)

def showRx (s : Rx) : String :=
  "delivered=[" ++ ";".intercalate (s.delivered.map Hsms.showBlock) ++ "] buf=" ++ bytesToHex s.buf ++ " aborts=" ++ toString s.aborts

/-- does the handler of this block send an answer?  (`selected`: session state when it is handled) -/
def needsReply (selected : Bool) (b : Block) : Bool :=
  let t := b.header.s_type
  if t = 1 ∨ t = 3 ∨ t = 5 then true          -- Select.req, Deselect.req, Linktest.req
  else if t = 0 then !selected                 -- data message while not selected: Reject.req
  else false

/-- bookkeeping of the scripted run: model state, number of blocks the dispatcher has popped, session selected? -/
structure Run where
  st : St
  popped : Nat
  selected : Bool

def stepDispAuto (r : Run) : Option Run :=
  match r.st.disp with
  | .handle =>
    if r.st.dispQ = 0 then (step .current r.st (.disp false)).map (fun s => { r with st := s })
    else
      match r.st.delivered[r.popped]? with
      | some b =>
        let reply := needsReply r.selected b
        -- Select.req / (any) Select.rsp select, Deselect.req / Deselect.rsp deselect (`connection_state.select()/deselect()` in the handlers)
        let t := b.header.s_type
        let sel := if t = 1 ∨ t = 2 then true else if t = 3 ∨ t = 4 then false else r.selected
        (step .current r.st (.disp reply)).map (fun s => { st := s, popped := r.popped + 1, selected := sel })
      | none => none
  | _ => (step .current r.st (.disp false)).map (fun s => { r with st := s })

/-- run the endpoint's own threads until nothing moves (bounded by `mu`): connection thread first, then receiver, then dispatcher -/
def settle (blocking : Variant) : Nat → Run → Run
  | 0, r => r
  | n+1, r =>
    match step blocking r.st .tcp with
    | some s => settle blocking n { r with st := s }
    | none =>
      match step blocking r.st (.prx true) with
      | some s => settle blocking n { r with st := s }
      | none =>
        match stepDispAuto r with
        | some r' => settle blocking n r'
        | none => r

def showPc (s : St) : String :=
  let t := match s.tcp with | .running => "running" | .sepEnq => "sepEnq" | .sepWait => "sepWait" | .discon => "discon" | .join => "join" | .clear => "clear" | .done => "done"
  let p := match s.prx with | .notStarted => "notStarted" | .idle => "idle" | .chk => "chk" | .send => "send" | .recv => "recv" | .blockedRead => "blockedRead" | .loopCheck => "loopCheck" | .exited => "exited"
  s!"tcp={t} prx={p}"

def showTag : Tag → String | .sep => "sep" | .reply => "reply"

def showRun (blocking : Variant) (r : Run) : String :=
  showPc r.st ++ s!" rx={showBool r.st.prx.alive} conn={showBool r.st.conn} buf={r.st.buf.length} delivered={r.st.delivered.length - r.st.mark} total={r.st.delivered.length}"
    ++ " out=[" ++ ",".intercalate (r.st.out.map showTag) ++ "]" ++ s!" selected={showBool (r.selected && r.st.conn)} wedged={showBool (wedged blocking r.st)}"

/-- script: `C` connect, `X` close, `K<hex>` chunk, `Q` settle, `|` print a snapshot, `T`/`P`/`p`/`D` single thread steps -/
def script (blocking : Variant) : List String → Run → List String → Option (List String)
  | [], _, acc => some acc.reverse
  | w :: ws, r, acc =>
    if w == "C" then (step blocking r.st .connect).bind (fun s => script blocking ws { r with st := s, selected := false } acc)
    else if w == "X" then (step blocking r.st .close).bind (fun s => script blocking ws { r with st := s } acc)
    else if w == "Q" then script blocking ws (settle blocking (mu r.st + 1) r) acc
    else if w == "|" then script blocking ws r (showRun blocking r :: acc)
    -- single steps of one thread, for replaying a witness schedule: T connection thread, P/p receiver (send ok / send fails), D dispatcher
    else if w == "T" then (step blocking r.st .tcp).bind (fun s => script blocking ws { r with st := s } acc)
    else if w == "P" then (step blocking r.st (.prx true)).bind (fun s => script blocking ws { r with st := s } acc)
    else if w == "p" then (step blocking r.st (.prx false)).bind (fun s => script blocking ws { r with st := s } acc)
    else if w == "D" then (stepDispAuto r).bind (fun r' => script blocking ws r' acc)
    else if w.startsWith "K" then
      match hexToBytes (String.ofList (w.toList.drop 1)) with
      | some c => (step blocking r.st (.chunk c)).bind (fun s => script blocking ws { r with st := s } acc)
      | none => none
    else none

def handle : List String → String
  | "feed" :: ws => match parseChunks ws with
    | some cs => "ok " ++ showRx (cs.foldl feed Rx.init)
    | none => "bad-op"
  | "wedge" :: b :: ws =>
    let blocking : Variant := if b == "blocking" then .blockingRead else if b == "returning" then .returningSendLoop else .current
    match script blocking ws ⟨St.init, 0, false⟩ [] with
    | some outs => "ok " ++ " | ".intercalate outs
    | none => "err NotEnabled"
  | _ => "bad-op"

end SecsModel.Drv.Rx
