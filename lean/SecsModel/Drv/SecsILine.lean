import SecsModel.Drv.Util
import SecsModel.Drv.SecsI
import SecsModel.Model.SecsILine
-- DRIVER-DOMAIN: secsiline
/-! Driver domain `secsiline`: run `Model.SecsILine` under a deterministic round scheduler.

`secsiline run <aIsHost 0|1> <fault: i:t:v | -> <order> <chunks: n,n,…> <blocks: hex;hex;…>`
`order` is a string over `p` (app a) `t` (thread a) `d` (deliver to b) `T` (thread b) `D` (deliver to a) `P` (app b): in every round each
letter fires once if enabled; the run ends when a whole round fires nothing.  `chunks` are the sizes of successive deliveries (cyclic,
capped by what is in flight).
Answer: `ok log=a:05,b:04,… delivered=<blocks> outcome=1|0|- apc=… bpc=… arx=… brx=… steps=<n>`.
-/
namespace SecsModel.Drv.SecsILine
open SecsModel SecsModel.Drv SecsModel.Model.SecsILine

def showPc : TPc → String
  | .idle => "idle" | .sendTop => "sendTop" | .waitEnq => "waitEnq" | .waitAck => "waitAck"
  | .recvLoop n => "recvLoop" ++ showBool n | .waitBlk n => "waitBlk" ++ showBool n

def showApp : App → String
  | .none => "-" | .run _ _ => "running" | .fin ok => showBool ok

def showState (s : State) (steps : Nat) : String :=
  "log=" ++ (if s.log.isEmpty then "-" else ",".intercalate (s.log.map (fun e => (if e.1 then "a:" else "b:") ++ bytesToHex e.2)))
    ++ " delivered=" ++ (if s.b.delivered.isEmpty then "-" else ";".intercalate (s.b.delivered.map SecsI.showBlock))
    ++ " outcome=" ++ showApp s.a.app
    ++ " apc=" ++ showPc s.a.pc ++ " bpc=" ++ showPc s.b.pc
    ++ " arx=" ++ bytesToHex s.a.rxbuf ++ " brx=" ++ bytesToHex s.b.rxbuf
    ++ s!" inflight={s.ab.length + s.ba.length} steps={steps}"

structure Run where
  s : State
  chunks : List Nat
  ci : Nat := 0
  steps : Nat := 0

def nextChunk (r : Run) : Nat := match r.chunks[r.ci % (max 1 r.chunks.length)]? with | some n => max 1 n | none => 1

def fire (r : Run) (c : Char) : Option Run :=
  let lbl : Option (Label × Bool) := match c with
    | 'p' => some (.app true, false) | 't' => some (.thr true, false) | 'T' => some (.thr false, false) | 'P' => some (.app false, false)
    | 'd' => if r.s.ab.isEmpty then none else some (.dlv false (min (nextChunk r) r.s.ab.length), true)
    | 'D' => if r.s.ba.isEmpty then none else some (.dlv true (min (nextChunk r) r.s.ba.length), true)
    | _ => none
  match lbl with
  | some (l, isDlv) => match step r.s l with
    | some s' => some { r with s := s', ci := if isDlv then r.ci + 1 else r.ci, steps := r.steps + 1 }
    | none => none
  | none => none

def round (r : Run) (order : List Char) : Run × Bool :=
  order.foldl (fun (acc : Run × Bool) c => match fire acc.1 c with | some r' => (r', true) | none => acc) (r, false)

partial def runAll (r : Run) (order : List Char) (fuel : Nat) : Run :=
  if fuel = 0 then r else
  let (r', fired) := round r order
  if fired then runAll r' order (fuel - 1) else r'

partial def parseHexList (parts : List String) (acc : List Bytes) : Option (List Bytes) :=
  match parts with
  | [] => some acc.reverse
  | p :: ps => match hexToBytes p with
    | some b => parseHexList ps (b :: acc)
    | none => none

def parseFault (s : String) : Option (Option (Nat × Nat × Nat)) :=
  if s == "-" then some none else
  match s.splitOn ":" with
  | [a, b, c] => do
    let a ← a.toNat?
    let b ← b.toNat?
    let c ← c.toNat?
    pure (some (a, b, c))
  | _ => none

def handle : List String → String
  | ["run", h, f, order, chunks, blocks] =>
    match parseBool h, parseFault f, parseHexList (blocks.splitOn ";") [] with
    | some h, some f, some bs =>
      let cs := (chunks.splitOn ",").filterMap String.toNat?
      let r := runAll { s := init h bs f, chunks := cs } order.toList 10000000
      "ok " ++ showState r.s r.steps
    | _, _, _ => "bad-op"
  | _ => "bad-op"

end SecsModel.Drv.SecsILine
