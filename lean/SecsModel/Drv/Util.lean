import SecsModel.Basic.Py
/-! Driver utilities: hex, token parsing, answer formatting.  Not part of any theorem. -/
namespace SecsModel.Drv
open SecsModel

def hexDigit (n : Nat) : Char := if n < 10 then Char.ofNat (48 + n) else Char.ofNat (87 + n)

def bytesToHex (bs : Bytes) : String :=
  if bs.isEmpty then "-" else
  String.ofList (bs.foldr (fun b acc => hexDigit (b / 16 % 16) :: hexDigit (b % 16) :: acc) [])

def hexVal (c : Char) : Option Nat :=
  if '0' ≤ c ∧ c ≤ '9' then some (c.toNat - 48)
  else if 'a' ≤ c ∧ c ≤ 'f' then some (c.toNat - 87)
  else if 'A' ≤ c ∧ c ≤ 'F' then some (c.toNat - 55)
  else none

def hexToBytesAux : List Char → List Nat → Option Bytes
  | [], acc => some acc.reverse
  | [_], _ => none
  | a :: b :: rest, acc =>
    match hexVal a, hexVal b with
    | some x, some y => hexToBytesAux rest ((x * 16 + y) :: acc)
    | _, _ => none

def hexToBytes (s : String) : Option Bytes :=
  if s == "-" then some [] else hexToBytesAux s.toList []

def parseInt (s : String) : Option Int := s.toInt?
def parseBool (s : String) : Option Bool := if s == "1" then some true else if s == "0" then some false else none
def showBool (b : Bool) : String := if b then "1" else "0"

def words (s : String) : List String := (s.splitOn " ").filter (· ≠ "")

def answer {α} (f : α → String) : Except Err α → String
  | .ok a => "ok " ++ f a
  | .error e => "err " ++ e.name

end SecsModel.Drv
