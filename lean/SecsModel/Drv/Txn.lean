import SecsModel.Drv.Util
import SecsModel.Model.Txn
-- DRIVER-DOMAIN: txn
/-! Driver domain `txn`: run a schedule on `Model.Txn`.

`txn next <counter>`                                          → `ok <id> <counter'>`   (generated allocator)
`txn run <atomic> <patched> <c0> <ncallers> <s1,s2,…>`        → `ok callers=… delivered=… wire=… disp=… live=… busy=… inbox=… two=… stale=…`
                                                              or `stuck <index> <token>` when a step is not enabled.
Step tokens: `a<c>` alloc, `i<c>` allocRmw, `t<c>` allocRet, `g<c>` register, `s<c>` send, `f<c>` sendFail, `y<c>` fire,
`r<c>` recv, `o<c>` timeout, `u<c>` unregister, `q<n>` rxPart (n bytes of an incomplete frame), `x<sys>:<tag>` rx, `p<d>` pop, `h<d>` handle (the `in _response_queues` test; delivers when false), `w<d>` put (`put_nowait` / KeyError), `e<d>` finish, `D` linkDown, `U` linkUp.
-/
namespace SecsModel.Drv.Txn
open SecsModel SecsModel.Drv SecsModel.Model.Txn

def parseStep (t : String) : Option Step :=
  match t.toList with
  | ['D'] => some .linkDown
  | ['U'] => some .linkUp
  | 'x' :: rest =>
    match (String.ofList rest).splitOn ":" with
    | [a, b] => do
      let sy ← a.toInt?
      let tg ← b.toNat?
      pure (.rx ⟨sy, tg⟩)
    | _ => none
  | k :: rest => do
    let n ← (String.ofList rest).toNat?
    match k with
    | 'a' => pure (.alloc n) | 'i' => pure (.allocRmw n) | 't' => pure (.allocRet n)
    | 'g' => pure (.register n) | 's' => pure (.send n) | 'f' => pure (.sendFail n) | 'y' => pure (.fire n)
    | 'r' => pure (.recv n) | 'o' => pure (.timeout n) | 'u' => pure (.unregister n)
    | 'p' => pure (.pop n) | 'h' => pure (.handle n) | 'w' => pure (.put n) | 'e' => pure (.finish n) | 'q' => pure (.rxPart n)
    | _ => none
  | [] => none

def showPc : Pc → String
  | .idle => "idle" | .mid => "mid" | .allocated => "allocated" | .registered => "registered"
  | .sent => "sent" | .got => "got" | .done => "done"

def showMsg (m : Msg) : String := s!"{m.sys}:{m.tag}"
def showMsgs (ms : List Msg) : String := if ms.isEmpty then "-" else ",".intercalate (ms.map showMsg)

def showCaller (k : Caller) : String :=
  let r := match k.pc with
    | .got | .done => (match k.result with | some m => showMsg m | none => "None")
    | _ => "-"
  let idv := if k.pc.hasId || k.pc == .done then toString k.id else "-"
  s!"{showPc k.pc}/{idv}/{r}/{showBool k.keyErr}"

def showState (n : Nat) (s : State) : String :=
  "callers=" ++ ";".intercalate ((List.range n).map (fun c => showCaller (s.callers c)))
    ++ " delivered=" ++ showMsgs s.delivered
    ++ " wire=" ++ (if s.wire.isEmpty then "-" else ",".intercalate (s.wire.map toString))
    ++ s!" disp={s.disp.length} live={live s} busy={busy s}"
    ++ " inbox=" ++ showMsgs s.inbox
    ++ " two=" ++ showBool s.everTwo
    ++ s!" stale={s.stale}"
    ++ " lost=" ++ showMsgs s.lost

partial def runTokens (cfg : Cfg) (s : State) (idx : Nat) : List String → Except String State
  | [] => .ok s
  | t :: ts =>
    match parseStep t with
    | none => .error s!"bad-step {idx} {t}"
    | some st =>
      match step cfg s st with
      | none => .error s!"stuck {idx} {t}"
      | some s' => runTokens cfg s' (idx + 1) ts

def handle : List String → String
  | ["next", c] => match parseInt c with
    | some c => (match next c with | some (a, b) => s!"ok {a} {b}" | none => "err Other")
    | none => "bad-op"
  | ["atomic"] => "ok " ++ showBool Gen.Misc.getNextSystemCounterAtomic
  | ["run", atm, pa, c0, n, sched] =>
    match parseBool (String.ofList (atm.toList.take 1)), parseBool pa, parseInt c0, n.toNat? with
    | some atm', some pa, some c0, some n =>
      -- `<atomic>` may carry a second digit: reply-only routing (proposal C06-primary-system-bytes)
      let cfg : Cfg := { atomic := atm', patched := pa, c0 := c0, replyOnly := atm.toList.drop 1 == ['1'] }
      let toks := if sched == "-" then [] else sched.splitOn ","
      (match runTokens cfg (init cfg) 0 toks with
       | .ok s => "ok " ++ showState n s
       | .error e => e)
    | _, _, _, _ => "bad-op"
  | _ => "bad-op"

end SecsModel.Drv.Txn
