import SecsModel.Drv.Util
import SecsModel.Model.Catalogue
-- DRIVER-DOMAIN: cat
/-! Driver domain `cat`: `cat lookup <s> <f>` is `StreamsFunctions.function(s, f)` over `Gen.Catalogue.py` (class name or `none`). -/
namespace SecsModel.Drv.Catalogue
open SecsModel SecsModel.Drv

def handle : List String → String
  | ["lookup", s, f] => match s.toNat?, f.toNat? with
    | some s, some f => answer (fun o => match o with | some x => String.ofList x.cls | none => "none") (Model.Catalogue.function Gen.Catalogue.py s f)
    | _, _ => "bad-op"
  | _ => "bad-op"

end SecsModel.Drv.Catalogue
