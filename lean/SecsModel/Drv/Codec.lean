import SecsModel.Drv.Util
import SecsModel.Model.Var
-- DRIVER-DOMAIN: codec
/-!
Driver domain `codec` (variables API, Spec.E5, IEEE helpers).  Syntax (one request per line, tokens separated by blanks,
parentheses are their own tokens):

    val    := ( L val* ) | ( T elem* )            T ∈ B BOOLEAN A J I8 I1 I2 I4 F8 F4 U8 U1 U2 U4
    elem   := decimal int | xHEX (one element per byte) | *n:xx (n times byte xx) | for F4/F8: 16 hex digits (binary64 pattern)
    struct := ( leaf T count ) | ( dyn count tag* ) | ( arr count struct ) | ( rec struct* ) | ( any )     tag := T | ARR
    pyval  := ( none ) | ( bool 0|1 ) | ( int n ) | ( float hex16 ) | ( str cp* ) | ( bytes elem* ) | ( ba elem* )
            | ( list pyval* ) | ( tuple pyval* ) | ( obj val )
    data   := elem*  (no parentheses)

Floats cross the boundary only as hex bit patterns.
-/
namespace SecsModel.Drv.Codec
open SecsModel SecsModel.Drv SecsModel.Spec.E5 SecsModel.Model.Var

/-- blanks separate tokens, parentheses are tokens -/
def tokenize (s : String) : List String :=
  let flush (acc : List String) (cur : List Char) : List String :=
    if cur.isEmpty then acc else String.ofList cur.reverse :: acc
  let (acc, cur) := s.toList.foldl (fun (st : List String × List Char) c =>
    if c == ' ' then (flush st.1 st.2, [])
    else if c == '(' || c == ')' then (String.singleton c :: flush st.1 st.2, [])
    else (st.1, c :: st.2)) ([], [])
  (flush acc cur).reverse

def tyOfName (s : String) : Option Ty := Ty.all.find? (fun t => t.name == s)

def hexNat (s : String) : Option Nat :=
  s.toList.foldl (fun acc c => match acc, hexVal c with | some a, some d => some (a * 16 + d) | _, _ => none) (some 0)

def isFloatTy (t : Ty) : Bool := match t.kind with | .f32 | .f64 => true | _ => false

/-- one element token, appended (reversed) to `acc` -/
def elemTok (float : Bool) (tok : String) (acc : List Int) : Option (List Int) :=
  if tok.startsWith "x" then
    match hexToBytes (tok.drop 1).toString with
    | some bs => some (bs.foldl (fun (a : List Int) (b : Nat) => (b : Int) :: a) acc)
    | none => none
  else if tok.startsWith "*" then
    match (tok.drop 1).toString.splitOn ":" with
    | [n, x] => match n.toNat?, hexNat x with
      | some n, some b => some ((List.replicate n (b : Int)) ++ acc)
      | _, _ => none
    | _ => none
  else if float then (hexNat tok).map (fun n => (n : Int) :: acc)
  else tok.toInt?.map (· :: acc)

partial def elemsUntilClose (float : Bool) (ts : List String) (acc : List Int) : Option (List Int × List String) :=
  match ts with
  | ")" :: rest => some (acc.reverse, rest)
  | tok :: rest => match elemTok float tok acc with
    | some acc' => elemsUntilClose float rest acc'
    | none => none
  | [] => none

mutual
partial def parseVal (ts : List String) : Option (Val × List String) :=
  match ts with
  | "(" :: "L" :: rest => match parseVals rest [] with
    | some (xs, rest') => some (.list xs, rest')
    | none => none
  | "(" :: name :: rest => match tyOfName name with
    | some t => match elemsUntilClose (isFloatTy t) rest [] with
      | some (es, rest') => some (.item t es, rest')
      | none => none
    | none => none
  | _ => none
partial def parseVals (ts : List String) (acc : List Val) : Option (List Val × List String) :=
  match ts with
  | ")" :: rest => some (acc.reverse, rest)
  | _ => match parseVal ts with
    | some (v, rest) => parseVals rest (v :: acc)
    | none => none
end

def tagOfName (s : String) : Option Tag := if s == "ARR" then some .arr else (tyOfName s).map .leaf

partial def tagsUntilClose (ts : List String) (acc : List Tag) : Option (List Tag × List String) :=
  match ts with
  | ")" :: rest => some (acc.reverse, rest)
  | tok :: rest => match tagOfName tok with | some g => tagsUntilClose rest (g :: acc) | none => none
  | [] => none

mutual
partial def parseStruct (ts : List String) : Option (Struct × List String) :=
  match ts with
  | "(" :: "any" :: ")" :: rest => some (anyStruct, rest)
  | "(" :: "leaf" :: name :: c :: ")" :: rest => match tyOfName name, c.toInt? with
    | some t, some c => some (.leaf t c, rest)
    | _, _ => none
  | "(" :: "dyn" :: c :: rest => match c.toInt?, tagsUntilClose rest [] with
    | some c, some (gs, rest') => some (.dyn gs c, rest')
    | _, _ => none
  | "(" :: "arr" :: c :: rest => match c.toInt?, parseStruct rest with
    | some c, some (el, ")" :: rest') => some (.array el c, rest')
    | _, _ => none
  | "(" :: "rec" :: rest => match parseStructs rest [] with
    | some (fs, rest') => some (.record fs, rest')
    | none => none
  | _ => none
partial def parseStructs (ts : List String) (acc : List Struct) : Option (List Struct × List String) :=
  match ts with
  | ")" :: rest => some (acc.reverse, rest)
  | _ => match parseStruct ts with
    | some (s, rest) => parseStructs rest (s :: acc)
    | none => none
end

mutual
partial def parsePy (ts : List String) : Option (PyVal × List String) :=
  match ts with
  | "(" :: "none" :: ")" :: rest => some (.none, rest)
  | "(" :: "bool" :: b :: ")" :: rest => (parseBool b).map (fun b => (.bool b, rest))
  | "(" :: "int" :: n :: ")" :: rest => n.toInt?.map (fun n => (.int n, rest))
  | "(" :: "float" :: x :: ")" :: rest => (hexNat x).map (fun x => (.float x, rest))
  | "(" :: "str" :: rest => (elemsUntilClose false rest []).map (fun (es, r) => (.str (es.map Int.toNat), r))
  | "(" :: "bytes" :: rest => (elemsUntilClose false rest []).map (fun (es, r) => (.bytes (es.map Int.toNat), r))
  | "(" :: "ba" :: rest => (elemsUntilClose false rest []).map (fun (es, r) => (.bytearray (es.map Int.toNat), r))
  | "(" :: "list" :: rest => (parsePys rest []).map (fun (xs, r) => (.list xs, r))
  | "(" :: "tuple" :: rest => (parsePys rest []).map (fun (xs, r) => (.tuple xs, r))
  | "(" :: "obj" :: rest => match parseVal rest with
    | some (v, ")" :: r) => some (.obj v, r)
    | _ => none
  | _ => none
partial def parsePys (ts : List String) (acc : List PyVal) : Option (List PyVal × List String) :=
  match ts with
  | ")" :: rest => some (acc.reverse, rest)
  | _ => match parsePy ts with
    | some (p, rest) => parsePys rest (p :: acc)
    | none => none
end

/-- `data` tokens to bytes -/
def parseData (ts : List String) : Option Bytes :=
  (ts.foldl (fun acc tok => match acc with | some a => elemTok false tok a | none => none) (some [])).map (fun es => (es.map Int.toNat).reverse)

/-! ### printing -/

def hex64 (n : Nat) : String := String.ofList ((List.range 16).map (fun i => hexDigit (n / 16 ^ (15 - i) % 16)))
def hex32 (n : Nat) : String := String.ofList ((List.range 8).map (fun i => hexDigit (n / 16 ^ (7 - i) % 16)))

def showElems (t : Ty) (es : List Int) : String :=
  match t.kind with
  | .f32 | .f64 => " ".intercalate (es.map (fun e => hex64 e.toNat))
  | .byte =>
    if es.all (fun e => 0 ≤ e && e < 256) then (if es.isEmpty then "" else "x" ++ bytesToHex (es.map Int.toNat))
    else " ".intercalate (es.map toString)
  | _ => " ".intercalate (es.map toString)

partial def showVal : Val → String
  | .list xs => "(L" ++ String.join (xs.map (fun x => " " ++ showVal x)) ++ ")"
  | .item t es => let body := showElems t es; "(" ++ t.name ++ (if body.isEmpty then "" else " " ++ body) ++ ")"

/-- the state of a *fresh* object of the given structure (what fields beyond a short list keep) -/
partial def showFresh : Struct → String
  | .leaf t _ => "(" ++ t.name ++ ")"
  | .dyn _ _ => "(NONE)"
  | .array _ _ => "(L)"
  | .record fs => "(L" ++ String.join (fs.map (fun f => " " ++ showFresh f)) ++ ")"

/-- the decoded value inside its structure: record fields the list header did not announce keep their fresh state -/
partial def showIn : Struct → Val → String
  | .record fs, .list xs =>
    let rec go : List Struct → List Val → List String
      | f :: fs, x :: xs => showIn f x :: go fs xs
      | fs, [] => fs.map showFresh
      | [], xs => xs.map showVal
    "(L" ++ String.join ((go fs xs).map (" " ++ ·)) ++ ")"
  | .array el _, .list xs => "(L" ++ String.join (xs.map (fun x => " " ++ showIn el x)) ++ ")"
  | _, v => showVal v

partial def showPy : PyVal → String
  | .none => "(none)"
  | .bool b => "(bool " ++ showBool b ++ ")"
  | .int n => "(int " ++ toString n ++ ")"
  | .float x => "(float " ++ hex64 x ++ ")"
  | .str cps => "(str" ++ String.join (cps.map (fun c => " " ++ toString c)) ++ ")"
  | .bytes bs => "(bytes" ++ (if bs.isEmpty then "" else " x" ++ bytesToHex bs) ++ ")"
  | .bytearray bs => "(ba" ++ (if bs.isEmpty then "" else " x" ++ bytesToHex bs) ++ ")"
  | .list xs => "(list" ++ String.join (xs.map (fun x => " " ++ showPy x)) ++ ")"
  | .tuple xs => "(tuple" ++ String.join (xs.map (fun x => " " ++ showPy x)) ++ ")"
  | .obj v => "(obj " ++ showVal v ++ ")"

/-- Adler-32 (zlib) of a byte string -/
def adler32 (bs : Bytes) : Nat :=
  let (a, b) := bs.foldl (fun (st : Nat × Nat) x => let a := (st.1 + x) % 65521; (a, (st.2 + a) % 65521)) (1, 0)
  b * 65536 + a

def digest (bs : Bytes) : String := s!"len={bs.length} adler={adler32 bs}"

partial def valDigest : Val → String
  | .list xs => "(L" ++ String.join (xs.map (fun x => " " ++ valDigest x)) ++ ")"
  | .item t es => s!"({t.name} n={es.length} adler={adler32 (es.map (fun e => (e % 256).toNat))})"

def handle : List String → String
  | ["hdr", c, l] => match c.toInt?, l.toInt? with
    | some c, some l => answer bytesToHex (Gen.ItemHeaderVar.encode c l)
    | _, _ => "bad-op"
  | ["shdr", c, l] => match c.toNat?, l.toNat? with
    | some c, some l => answer bytesToHex (Spec.E5.header c l)
    | _, _ => "bad-op"
  | ["r32", x] => match hexNat x with | some x => answer hex32 (IEEE.round32 x) | none => "bad-op"
  | ["wid", x] => match hexNat x with | some x => "ok " ++ hex64 (IEEE.widen x) | none => "bad-op"
  | ["fint", n] => match n.toInt? with | some n => answer hex64 (floatOfInt n) | none => "bad-op"
  | ["trunc", x] => match hexNat x with | some x => answer toString (truncToInt x) | none => "bad-op"
  | "spec" :: ws => match parseVal (tokenize (" ".intercalate ws)) with
    | some (v, []) => answer bytesToHex (Spec.E5.encode v)
    | _ => "bad-op"
  | "enc" :: ws => match parseVal (tokenize (" ".intercalate ws)) with
    | some (v, []) => answer bytesToHex (Model.Var.encode v)
    | _ => "bad-op"
  | "specsum" :: ws => match parseVal (tokenize (" ".intercalate ws)) with
    | some (v, []) => answer digest (Spec.E5.encode v)
    | _ => "bad-op"
  | "encsum" :: ws => match parseVal (tokenize (" ".intercalate ws)) with
    | some (v, []) => answer digest (Model.Var.encode v)
    | _ => "bad-op"
  | "norm" :: ws => match parseVal (tokenize (" ".intercalate ws)) with
    | some (v, []) => "ok " ++ showVal (Spec.E5.norm v)
    | _ => "bad-op"
  | "any" :: ws => match parseData ws with
    | some bs => (match Spec.E5.decodeAny bs with
      | some (v, rest) => s!"ok {showVal v} rest={rest.length}"
      | none => "none")
    | none => "bad-op"
  | "anysum" :: ws => match parseData ws with
    | some bs => (match Spec.E5.decodeAny bs with
      | some (v, rest) => s!"ok {valDigest v} rest={rest.length}"
      | none => "none")
    | none => "bad-op"
  | "dec" :: ws => match parseStruct (tokenize (" ".intercalate ws)) with
    | some (s, start :: dws) => (match start.toNat?, parseData dws with
      | some st, some bs => answer (fun (r : Val × Nat) => s!"{showIn s r.1} pos={r.2}") (decodeAs s bs st)
      | _, _ => "bad-op")
    | _ => "bad-op"
  | "decsum" :: ws => match parseStruct (tokenize (" ".intercalate ws)) with
    | some (s, start :: dws) => (match start.toNat?, parseData dws with
      | some st, some bs => answer (fun (r : Val × Nat) => s!"{valDigest r.1} pos={r.2}") (decodeAs s bs st)
      | _, _ => "bad-op")
    | _ => "bad-op"
  | "set" :: name :: c :: ws => match tyOfName name, c.toInt?, parsePy (tokenize (" ".intercalate ws)) with
    | some t, some c, some (p, []) =>
      if !modelledLeaf t p then "unmodelled" else answer (fun es => showVal (.item t es)) (setLeaf t c p)
    | _, _, _ => "bad-op"
  | "get" :: ws => match parseVal (tokenize (" ".intercalate ws)) with
    | some (.item t es, []) => "ok " ++ showPy (getLeaf t es)
    | _ => "bad-op"
  | _ => "bad-op"

end SecsModel.Drv.Codec
