import SecsModel.Drv.Util
import SecsModel.Model.Rx
import SecsModel.Spec.E37Frame
-- DRIVER-DOMAIN: hsms
/-! Driver domain `hsms`: generated HSMS header codec, hand-modelled block codec, E37 frame of the specification. -/
namespace SecsModel.Drv.Hsms
open SecsModel SecsModel.Drv SecsModel.Model.Rx

def parseHeader : List String → Option (Gen.HsmsHeader × List String)
  | sy :: dv :: st :: fn :: w :: pt :: ty :: rest => do
    let sy ← parseInt sy; let dv ← parseInt dv; let st ← parseInt st; let fn ← parseInt fn
    let w ← parseBool w; let pt ← parseInt pt; let ty ← parseInt ty
    pure (⟨sy, dv, st, fn, w, pt, ty⟩, rest)
  | _ => none

def showHeader (h : Gen.HsmsHeader) : String :=
  s!"{h.system} {h.device_id} {h.stream} {h.function} {showBool h.requires_response} {h.p_type} {h.s_type}"

def showBlock (b : Block) : String := showHeader b.header ++ " " ++ bytesToHex b.data

def parseBlock (ws : List String) : Option (Block × List String) := do
  let (h, rest) ← parseHeader ws
  match rest with
  | d :: rest' => pure (⟨h, ← hexToBytes d⟩, rest')
  | [] => none

def handle : List String → String
  | "henc" :: ws => match parseHeader ws with
    | some (h, []) => answer bytesToHex h.encode
    | _ => "bad-op"
  | ["hdec", hx] => match hexToBytes hx with
    | some bs => answer showHeader (Gen.HsmsHeader.decode bs)
    | none => "bad-op"
  | "benc" :: ws => match parseBlock ws with
    | some (b, []) => answer bytesToHex b.encode
    | _ => "bad-op"
  | ["bdec", hx] => match hexToBytes hx with
    | some bs => answer showBlock (Block.decode bs)
    | none => "bad-op"
  -- the frame E37 prescribes for naturals in range (the harness only asks for in-range fields)
  | "spec" :: ws => match parseBlock ws with
    | some (b, []) =>
      let h : Spec.E37.Hdr := ⟨b.header.device_id.toNat, b.header.requires_response, b.header.stream.toNat, b.header.function.toNat,
        b.header.p_type.toNat, b.header.s_type.toNat, b.header.system.toNat⟩
      if h.InRange then "ok " ++ bytesToHex (Spec.E37.frame h b.data) else "err OutOfRange"
    | _ => "bad-op"
  | ["stypes"] => "ok " ++ " ".intercalate (Gen.HsmsSType.values.map toString)
  | _ => "bad-op"

end SecsModel.Drv.Hsms
