import SecsModel.Drv.Util
import SecsModel.Model.Pair
-- DRIVER-DOMAIN: pair
/-! Driver domain `pair`: `pair trace <ev> …` with ev = `H.conn:NOT_CONNECTED` | `E.comm:WAIT_CRA` …; `pair run <aActive> <step,…>`. -/
namespace SecsModel.Drv.Pair
open SecsModel.Drv SecsModel.Model.Pair

def parseConn : String → Option Conn
  | "NOT_CONNECTED" => some .nc | "CONNECTED_NOT_SELECTED" => some .ns | "CONNECTED_SELECTED" => some .sel | _ => none

def parseComm : String → Option Comm
  | "DISABLED" => some .dis | "NOT_COMMUNICATING" => some .notc | "WAIT_CRA" => some .wcra
  | "WAIT_DELAY" => some .wdelay | "COMMUNICATING" => some .comm | _ => none

structure Proj where
  hConn : Conn := .nc
  hComm : Comm := .dis
  eConn : Conn := .nc
  eComm : Comm := .dis

def applyEvent (p : Proj) (ev : String) : Except String Proj :=
  match ev.splitOn ":" with
  | [m, st] =>
    match m with
    | "H.conn" => match parseConn st with
      | some c => if connOk p.hConn c then .ok { p with hConn := c } else .error s!"{ev}: session step not in the model"
      | none => .error s!"{ev}: unknown state"
    | "E.conn" => match parseConn st with
      | some c => if connOk p.eConn c then .ok { p with eConn := c } else .error s!"{ev}: session step not in the model"
      | none => .error s!"{ev}: unknown state"
    | "H.comm" => match parseComm st with
      | some c => if commOk p.hConn p.hComm c then .ok { p with hComm := c } else .error s!"{ev}: communication step not in the model"
      | none => .error s!"{ev}: unknown state"
    | "E.comm" => match parseComm st with
      | some c => if commOk p.eConn p.eComm c then .ok { p with eComm := c } else .error s!"{ev}: communication step not in the model"
      | none => .error s!"{ev}: unknown state"
    | _ => .error s!"{ev}: unknown machine"
  | _ => .error s!"{ev}: bad event"

def checkTrace : Proj → Nat → List String → String
  | _, n, [] => s!"ok {n}"
  | p, n, ev :: rest => match applyEvent p ev with
    | .ok p' => checkTrace p' (n + 1) rest
    | .error e => s!"bad step {n}: {e}"

def parseSide : String → Option Side | "A" => some .A | "B" => some .B | _ => none

def parseStep (s : String) : Option Step :=
  match s.splitOn "." with
  | ["enable", x] => (parseSide x).map .enable
  | ["disable", x] => (parseSide x).map .disable
  | ["linkUp"] => some .linkUp
  | ["linkDown"] => some .linkDown
  | ["deliver", x] => (parseSide x).map .deliver
  | ["t3", x] => (parseSide x).map .t3
  | ["delay", x] => (parseSide x).map .delay
  | _ => none

def showConn : Conn → String | .nc => "NC" | .ns => "NS" | .sel => "SEL"
def showComm : Comm → String | .dis => "DIS" | .notc => "NOTC" | .wcra => "WCRA" | .wdelay => "WDELAY" | .comm => "COMM"
def showMsg : Msg → String | .selReq => "selReq" | .selRsp => "selRsp" | .s1f13 => "s1f13" | .s1f14 ok => if ok then "s1f14ok" else "s1f14nok"
def showPair (p : Pair) : String :=
  s!"a={showConn p.a.conn}/{showComm p.a.comm} b={showConn p.b.conn}/{showComm p.b.comm} ab=[{",".intercalate (p.ab.map showMsg)}] ba=[{",".intercalate (p.ba.map showMsg)}]"

def handle : List String → String
  | "trace" :: evs => checkTrace {} 0 evs
  | ["run", act, steps] =>
    match parseBool act, (steps.splitOn ",").mapM parseStep with
    | some a, some ss => match run (init a) ss with
      | some p => "ok " ++ showPair p
      | none => "err step-not-enabled"
    | _, _ => "bad-op"
  | _ => "bad-op"

end SecsModel.Drv.Pair
