import SecsModel.Drv.Util
import SecsModel.Model.Sfdl
import SecsModel.Spec.Sfdl
-- DRIVER-DOMAIN: sfdl
/-! Driver domain `sfdl`.

* `sfdl split <hex>`   elements of `SFDLTokenizer.parse_all` for the UTF-8 text given as hex
* `sfdl tok <hex>`     validated tokens `T:value` (`O` open, `C` close, `D` data item, `L` list, `N` list name)
* `sfdl parse <hex>`   `functions.generate(text)`: `(item N)`, `(arr NAME elem)`, `(rec NAME (KEY struct)…)`
* `sfdl spec <def>`    the documented shape of a `Def` and the hypotheses of `C19.shape_partial` it satisfies
* `sfdl render <seed> <def>`  the text `Spec.Sfdl.render` gives the `Def` under a layout derived from the seed (hex of UTF-8)
A `Def` is written `( I NAME )` / `( L NAME|- member… )`, blanks between all tokens.  Names that are not plain
`[A-Za-z0-9_]+` are written `%` followed by their code points in hex joined with `.`.
-/
namespace SecsModel.Drv.Sfdl
open SecsModel SecsModel.Drv

def plainChar (c : Char) : Bool := c.isAlphanum || c == '_'

def hexNat (n : Nat) : String := String.ofList (Nat.toDigits 16 n)

def encName (n : List Char) : String :=
  if !n.isEmpty && n.all plainChar then String.ofList n
  else "%" ++ ".".intercalate (n.map (fun c => hexNat c.toNat))

def hexDigitVal (c : Char) : Option Nat := hexVal c

def parseHexNat (s : String) : Option Nat :=
  if s.isEmpty then none else
  s.toList.foldl (fun acc c => match acc, hexVal c with | some a, some d => some (a * 16 + d) | _, _ => none) (some 0)

def decName (s : String) : Option (List Char) :=
  match s.toList with
  | '%' :: rest =>
    if rest.isEmpty then some [] else
    ((String.ofList rest).splitOn ".").foldr (fun h acc => match parseHexNat h, acc with
      | some n, some cs => some (Char.ofNat n :: cs) | _, _ => none) (some [])
  | cs => some cs

def textOfHex (hx : String) : Option (List Char) := do
  let bs ← hexToBytes hx
  let ba : ByteArray := ⟨(bs.map (fun b => UInt8.ofNat b)).toArray⟩
  let s ← String.fromUTF8? ba
  pure s.toList

def hexOfText (cs : List Char) : String :=
  bytesToHex ((String.ofList cs).toUTF8.toList.map (·.toNat))

open Model.Sfdl in
def showTok (t : Tok) : String :=
  (match t.typ with | .openTag => "O" | .closeTag => "C" | .dataItem => "D" | .list => "L" | .listName => "N") ++ ":" ++ encName t.value

open Model.Sfdl in
/-- dump; creating the element of an array whose descriptor is broken raises (first one in traversal order) -/
partial def showObj : Obj → Except Err String
  | .item n => .ok ("(item " ++ encName n ++ ")")
  | .array nm e => do pure ("(arr " ++ encName nm ++ " " ++ (← showObj e) ++ ")")
  | .record nm fs => do
    let parts ← fs.mapM (fun (k, v) => do pure (" (" ++ encName k ++ " " ++ (← showObj v) ++ ")"))
    pure ("(rec " ++ encName nm ++ String.join parts ++ ")")
  | .bad e => .error e

open Spec.Sfdl in
partial def showStruct : Struct → String
  | .item n => "(item " ++ encName n ++ ")"
  | .array e => "(arr " ++ showStruct e ++ ")"
  | .record fs => "(rec" ++ String.join (fs.map (fun (k, v) => " (" ++ encName k ++ " " ++ showStruct v ++ ")")) ++ ")"

open Spec.Sfdl in
/-- parse one `Def` from the word list -/
partial def parseDef : List String → Option (Def × List String)
  | "(" :: "I" :: n :: ")" :: rest => do pure (.item (← decName n), rest)
  | "(" :: "L" :: n :: rest => do
    let nm ← if n == "-" then pure none else (decName n).map some
    let rec members (ws : List String) (acc : List Def) : Option (List Def × List String) :=
      match ws with
      | ")" :: rest => some (acc.reverse, rest)
      | _ => match parseDef ws with
        | some (d, rest) => members rest (d :: acc)
        | none => none
    let (ms, rest) ← members rest []
    pure (.list nm ms, rest)
  | _ => none

/-! a layout from a seed (SplitMix64 over seed, path and gap index) -/
def mix (z : UInt64) : UInt64 :=
  let z := (z ^^^ (z >>> 30)) * 0xBF58476D1CE4E5B9
  let z := (z ^^^ (z >>> 27)) * 0x94D049BB133111EB
  z ^^^ (z >>> 31)

def hashPath (seed : UInt64) (p : List Nat) (k : Nat) : UInt64 :=
  mix (p.foldl (fun h i => mix (h + 0x9E3779B97F4A7C15 * (UInt64.ofNat i + 1))) (mix (seed + 0x9E3779B97F4A7C15)) + UInt64.ofNat k * 0xD1B54A32D192ED03)

open Spec.Sfdl in
def gapOf (h : UInt64) : Gap :=
  let n := (h % 4).toNat
  let rec go (i : Nat) (h : UInt64) : Gap :=
    match i with
    | 0 => []
    | i + 1 =>
      let h' := mix (h + 0x9E3779B97F4A7C15)
      let piece : Piece :=
        match (h' % 8).toNat with
        | 0 => .ws .space | 1 => .ws .space | 2 => .ws .tab | 3 => .ws .lf | 4 => .ws .cr
        | 5 => .comment [] .lf
        | 6 => .comment [' ', 'c', '<', '#', 'L', '>', ' '] .cr
        | _ => .comment ['x', Char.ofNat (0xe9), '\n', 'y'] .lf
      piece :: go i h'
  go n (mix h)

open Spec.Sfdl in
def layoutOf (seed : UInt64) : Layout where
  gap := fun p k => gapOf (hashPath seed p k)
  lead := gapOf (mix (seed + 1))
  trail := gapOf (mix (seed + 2))
  eof := if seed % 3 == 0 then some ['e', 'n', 'd', ' ', '<'] else none

def b01 (b : Bool) : String := if b then "1" else "0"

open Spec.Sfdl in
def allKnown (d : Def) : Bool := (itemNames d).all Model.Sfdl.classKnown

def handle : List String → String
  | ["split", hx] => match textOfHex hx with
    | some t => "ok " ++ " ".intercalate ((Model.Sfdl.split t).map encName)
    | none => "bad-op"
  | ["tok", hx] => match textOfHex hx with
    | some t => answer (fun ts => " ".intercalate (ts.map showTok)) (Model.Sfdl.tokenize t)
    | none => "bad-op"
  | ["parse", hx] => match textOfHex hx with
    | some t => answer id (Model.Sfdl.parse t >>= showObj)
    | none => "bad-op"
  | "spec" :: ws => match parseDef ws with
    | some (d, []) =>
      "ok " ++ showStruct (Spec.Sfdl.shape d) ++ " words=" ++ b01 (Spec.Sfdl.wordsOk d) ++ " known=" ++ b01 (allKnown d)
        ++ " nonempty=" ++ b01 (Spec.Sfdl.nonEmptyLists d) ++ " names=" ++ b01 (Spec.Sfdl.namesAsDocumented d)
        ++ " distinct=" ++ b01 (Spec.Sfdl.keysDistinct d)
    | _ => "bad-op"
  | "render" :: seed :: ws => match seed.toNat?, parseDef ws with
    | some s, some (d, []) => "ok " ++ hexOfText (Spec.Sfdl.render d (layoutOf (UInt64.ofNat s)))
    | _, _ => "bad-op"
  | _ => "bad-op"

end SecsModel.Drv.Sfdl
