import SecsModel.Drv.Codec
import SecsModel.Model.FnCodec
-- DRIVER-DOMAIN: fn
/-! Driver domain `fn` (stream/function codec over the generated catalogue, `Dynamic._match_type`).  Value / pyval / struct / data
syntax as in `Drv/Codec.lean`.

    fn struct <stream> <function>                -> ok <struct> | ok header-only | none
    fn enc <stream> <function> <val> | -         -> ok <hex>
    fn dec <stream> <function> <data>            -> ok <class> <val> | ok <class> header-only
    fn match <count> <tag>* | <pyval>            -> ok <TAG> | ok none | err TypeError | unmodelled
    fn setget <count> <tag>* | <pyval>           -> ok <T> <pyval>
-/
namespace SecsModel.Drv.Fn
open SecsModel SecsModel.Drv SecsModel.Drv.Codec SecsModel.Spec.E5 SecsModel.Model.Var SecsModel.Model.Fn

def showTag : Tag → String
  | .arr => "ARR"
  | .leaf t => t.name

partial def showStruct : Struct → String
  | .leaf t c => s!"(leaf {t.name} {c})"
  | .dyn gs c => s!"(dyn {c}" ++ String.join (gs.map (fun g => " " ++ showTag g)) ++ ")"
  | .array el c => s!"(arr {c} {showStruct el})"
  | .record fs => "(rec" ++ String.join (fs.map (fun f => " " ++ showStruct f)) ++ ")"

def lookup (s f : String) : Option Gen.Catalogue.Fn :=
  match s.toNat?, f.toNat? with
  | some s, some f => Model.Catalogue.find Gen.Catalogue.py s f
  | _, _ => none

def splitBar (ws : List String) : List String × List String :=
  (ws.takeWhile (· != "|"), (ws.dropWhile (· != "|")).drop 1)

def parseTags (ws : List String) : Option (List Tag) :=
  ws.foldr (fun w acc => match tagOfName w, acc with | some g, some gs => some (g :: gs) | _, _ => none) (some [])

def handle : List String → String
  | ["struct", s, f] => match lookup s f with
    | none => "none"
    | some fn => match fn.dataFormat with
      | none => "ok header-only"
      | some _ => match structOf fn with | some st => "ok " ++ showStruct st | none => "err Other"
  | "enc" :: s :: f :: ws => match lookup s f with
    | none => "none"
    | some fn =>
      if ws == ["-"] then answer bytesToHex (Model.Fn.encode fn none) else
      match parseVal (tokenize (" ".intercalate ws)) with
      | some (v, []) => answer bytesToHex (Model.Fn.encode fn (some v))
      | _ => "bad-op"
  | "dec" :: s :: f :: ws => match s.toNat?, f.toNat?, parseData ws with
    | some s, some f, some body =>
      answer (fun (r : Gen.Catalogue.Fn × Option Val) =>
        String.ofList r.1.cls ++ " " ++ (match r.2, structOf r.1 with
          | some v, some st => showIn st v
          | some v, none => showVal v
          | none, _ => "header-only")) (Model.Fn.decode Gen.Catalogue.py s f body)
    | _, _, _ => "bad-op"
  | "match" :: c :: ws =>
    let (tags, pws) := splitBar ws
    match c.toInt?, parseTags tags, parsePy (tokenize (" ".intercalate pws)) with
    | some c, some gs, some (p, []) => (match matchType gs c p with
      | .found g => "ok " ++ showTag g
      | .notFound => "ok none"
      | .typeError => "err TypeError"
      | .unmodelled => "unmodelled")
    | _, _, _ => "bad-op"
  | "setget" :: c :: ws =>
    let (tags, pws) := splitBar ws
    match c.toInt?, parseTags tags, parsePy (tokenize (" ".intercalate pws)) with
    | some c, some gs, some (p, []) =>
      if matchType gs c p == .unmodelled then "unmodelled" else
      (match matchType gs c p with
       | .found (.leaf t) => if !modelledLeaf t p then "unmodelled" else answer (fun (r : Ty × PyVal) => r.1.name ++ " " ++ showPy r.2) (setGet gs c p)
       | _ => answer (fun (r : Ty × PyVal) => r.1.name ++ " " ++ showPy r.2) (setGet gs c p))
    | _, _, _ => "bad-op"
  | _ => "bad-op"

end SecsModel.Drv.Fn
