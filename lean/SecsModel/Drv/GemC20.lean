import SecsModel.Drv.Util
import SecsModel.Drv.GemEv
import SecsModel.Model.GemRcmd
import SecsModel.Model.GemHost
-- DRIVER-DOMAIN: gemc20
/-! Driver domain `gemc20`: remote commands and the host/equipment pair (one case / history per line).

```
gemc20 rcmd C<name hex>~<param id>,…~<ce id>;…  B<name hex>,…  R<name hex>,…  <t<hex> | #>  P<id>=<val>,…
   -> ok <eff>;…        eff := r<hcack> | x | c<name hex>(<id>=<val>,…) | t<ce id>
gemc20 pair <gemev cfg> <op>*
   op := U<ceid>=<dv>,…  subscribe (auto id) | X<rptid>:<ceid>=<dv>,…  subscribe (explicit id) | C  clear | D  disable_ceid_reports | N  disable_ceids | T<ceid>,…  trigger
       | V<id>=<val> | W<id>=<val>
   -> ok (<out>@<reports>@<links>@<subs>|<counter>)*
   out := k<ack>,…  (acks of the equipment: a number or x) | <msg>|<msg>…(!)  per S6F11: e<ceid>/<rptid>(<dv>=<val>,…);…;ok  or …;x | -
```
-/
namespace SecsModel.Drv.GemC20
open SecsModel SecsModel.Drv SecsModel.Drv.GemEv SecsModel.Model.Gem SecsModel.Spec.EventReports

def tail1 (s : String) : String := String.ofList (s.toList.drop 1)

def parseCommand (w : String) : Option Rcmd.Command :=
  match w.splitOn "~" with
  | [n, ps, ce] => do pure ⟨← unhexStr n, ← parseIds ps, ← parseId ce⟩
  | _ => none

def parseNames (s : String) : Option (List String) := (splitNE (tail1 s) ",").mapM unhexStr

def parsePairs (s : String) : Option (List (Id × Val)) :=
  (splitNE s ",").mapM (fun (p : String) => match p.splitOn "=" with
    | [i, v] => do pure (← parseId i, ← parseVal v)
    | _ => none)

def showPairs (ps : List (Id × Val)) : String := ",".intercalate (ps.map (fun p => showId p.1 ++ "=" ++ showVal p.2))

def showEff : Rcmd.Eff → String
  | .reply h => s!"r{h}"
  | .abort => "x"
  | .call n kw => "c" ++ hexStr n ++ "(" ++ showPairs kw ++ ")"
  | .trigger ce => "t" ++ showId ce

def showAck : Ack → String
  | .code n => toString n
  | .abort => "x"

def showHostEff : Host.HostEff → String
  | .received c r vs => "e" ++ showId c ++ "/" ++ showId r ++ "(" ++ showPairs vs ++ ")"
  | .alarm a i t => s!"al{a}~{showId i}~{hexStr t}"
  | .reply12 => "ok"
  | .reply52 n => s!"ok{n}"
  | .abort => "x"

def showOut : Host.Out → String
  | .acks a b c => "k" ++ showAck a ++ "," ++ showAck b ++ "," ++ showAck c
  | .cleared a b => "k" ++ showAck a ++ "," ++ showAck b
  | .single a => "k" ++ showAck a
  | .delivered ms crashed =>
    (if ms.isEmpty && !crashed then "-" else "|".intercalate (ms.map (fun m => ";".intercalate (m.map showHostEff)))) ++ (if crashed then "!" else "")
  | .nothing => "-"

def showPair (p : Host.Pair) : String :=
  showConf p.eq.conf ++ "@" ++ ";".intercalate (p.host.subs.map (fun e => showId e.1 ++ "=" ++ showIds e.2)) ++ s!"|{p.host.counter}"

def parsePairOp (w : String) : Option Host.Op :=
  match w.toList with
  | 'U' :: rest => (parseEntry (String.ofList rest)).map (fun e => Host.Op.subscribe e.1 e.2 none)
  | 'X' :: rest => match (String.ofList rest).splitOn ":" with
    | [r, e] => do
      let e ← parseEntry e
      pure (Host.Op.subscribe e.1 e.2 (some (← parseId r)))
    | _ => none
  | ['C'] => some .clear
  | ['D'] => some .disableReports
  | ['N'] => some .disableCeids
  | 'T' :: rest => (parseIds (String.ofList rest)).map Host.Op.trigger
  | 'V' :: rest => match (String.ofList rest).splitOn "=" with
    | [i, v] => do pure (Host.Op.setSv (← parseId i) (← parseVal v))
    | _ => none
  | 'W' :: rest => match (String.ofList rest).splitOn "=" with
    | [i, v] => do pure (Host.Op.setDv (← parseId i) (← parseVal v))
    | _ => none
  | _ => none

def handle : List String → String
  | ["rcmd", cmds, cbs, raising, rcmd, ps] =>
    match (splitNE (tail1 cmds) ";").mapM parseCommand, parseNames cbs, parseNames raising, parsePairs (tail1 ps) with
    | some cmds, some cbs, some raising, some ps =>
      let name : Option Rcmd.RcmdName := if rcmd == "#" then some .notText else (unhexStr (tail1 rcmd)).map Rcmd.RcmdName.text
      match name with
      | some name => "ok " ++ ";".intercalate ((Rcmd.s2f41 ⟨cmds, cbs, raising⟩ name ps).map showEff)
      | none => "bad-op"
    | _, _, _, _ => "bad-op"
  | "pair" :: cfg :: ops =>
    match parseCfg cfg, ops.mapM parsePairOp with
    | some cfg, some ops =>
      "ok " ++ " ".intercalate ((Host.trace cfg Host.Pair.init ops).map (fun r => showOut r.1 ++ "@" ++ showPair r.2))
    | _, _ => "bad-op"
  | _ => "bad-op"

end SecsModel.Drv.GemC20
