import SecsModel.Drv.Util
import SecsModel.Model.GemEv
-- DRIVER-DOMAIN: gemev
/-! Driver domain `gemev`: one history per line.

```
gemev run <cfg> <op>*
cfg  := C<id>,…;S<id>:c|e,…;D<id>,…          collection events ; status variables (cell / EventsEnabled) ; data values
id   := n<int>.<int>…  |  t<hex of ASCII>       (`n` alone = empty numeric item)
val  := n<int>.… | f<num>/<k> | t<hex> | l<id>+<id>…
op   := R<rptid>=<vid>,…;…   S2F33     L<ceid>=<rptid>,…;…   S2F35     E<0|1>:<ceid>,…   S2F37
        Q<ceid>  S6F15       T<ceid>,…  trigger     V<id>=<val>  SV update      W<id>=<val>  DV update
answer := ok (<out>@<reports>@<links>)*         out := a<n> | x | r<ceid>[<rptid>(<val>,…);…] | - | r…|r…(!)   (trigger: the S6F11 bodies in order, `-` for none, `!` appended if the sender died)
```
-/
namespace SecsModel.Drv.GemEv
open SecsModel SecsModel.Drv SecsModel.Model.Gem SecsModel.Model.Gem.Ev SecsModel.Spec.EventReports

def hexStr (s : String) : String :=
  String.ofList (s.toList.foldr (fun c acc => hexDigit (c.toNat / 16 % 16) :: hexDigit (c.toNat % 16) :: acc) [])

def unhexStr (s : String) : Option String :=
  if s.isEmpty then some "" else (hexToBytesAux s.toList []).map (fun bs => String.ofList (bs.map Char.ofNat))

def splitNE (s : String) (sep : String) : List String := if s.isEmpty then [] else s.splitOn sep

def parseId (s : String) : Option Id :=
  match s.toList with
  | 'n' :: rest => (splitNE (String.ofList rest) ".").mapM String.toInt? |>.map Id.nums
  | 't' :: rest => (unhexStr (String.ofList rest)).map Id.text
  | _ => none

def parseIds (s : String) : Option (List Id) := (splitNE s ",").mapM parseId

def showId : Id → String
  | .nums xs => "n" ++ ".".intercalate (xs.map toString)
  | .text s => "t" ++ hexStr s

def showIds (xs : List Id) : String := ",".intercalate (xs.map showId)

def parseVal (s : String) : Option Val :=
  match s.toList with
  | 'n' :: rest => (splitNE (String.ofList rest) ".").mapM String.toInt? |>.map Val.nums
  | 't' :: rest => (unhexStr (String.ofList rest)).map Val.text
  | 'f' :: rest => match (String.ofList rest).splitOn "/" with
    | [a, b] => do pure (Val.flt (← a.toInt?) (← b.toNat?))
    | _ => none
  | 'l' :: rest => (splitNE (String.ofList rest) "+").mapM parseId |>.map Val.ids
  | _ => none

def showVal : Val → String
  | .nums xs => "n" ++ ".".intercalate (xs.map toString)
  | .flt a k => s!"f{a}/{k}"
  | .text s => "t" ++ hexStr s
  | .ids xs => "l" ++ "+".intercalate (xs.map showId)

/-- `<key>=<id>,…` -/
def parseEntry (s : String) : Option (Id × List Id) :=
  match s.splitOn "=" with
  | [k, v] => do pure (← parseId k, ← parseIds v)
  | _ => none

def parseCfg (s : String) : Option Cfg :=
  match s.splitOn ";" with
  | [c, sv, d] =>
    match c.toList, sv.toList, d.toList with
    | 'C' :: c, 'S' :: sv, 'D' :: d => do
      let ceids ← parseIds (String.ofList c)
      let svs ← (splitNE (String.ofList sv) ",").mapM (fun w => match w.splitOn ":" with
        | [i, "c"] => (parseId i).map (·, SvSrc.cell)
        | [i, "e"] => (parseId i).map (·, SvSrc.eventsEnabled)
        | _ => none)
      let dvs ← parseIds (String.ofList d)
      pure ⟨ceids, svs, dvs⟩
    | _, _, _ => none
  | _ => none

def parseOp (w : String) : Option Op :=
  match w.toList with
  | 'R' :: rest => (splitNE (String.ofList rest) ";").mapM parseEntry |>.map (fun es => Op.s2f33 (es.map (fun e => ⟨e.1, e.2⟩)))
  | 'L' :: rest => (splitNE (String.ofList rest) ";").mapM parseEntry |>.map (fun es => Op.s2f35 (es.map (fun e => ⟨e.1, e.2⟩)))
  | 'E' :: b :: ':' :: rest => do
    let ceed ← parseBool (String.singleton b)
    pure (Op.s2f37 ceed (← parseIds (String.ofList rest)))
  | 'Q' :: rest => (parseId (String.ofList rest)).map Op.s6f15
  | 'T' :: rest => (parseIds (String.ofList rest)).map Op.trigger
  | 'V' :: rest => match (String.ofList rest).splitOn "=" with
    | [i, v] => do pure (Op.setSv (← parseId i) (← parseVal v))
    | _ => none
  | 'W' :: rest => match (String.ofList rest).splitOn "=" with
    | [i, v] => do pure (Op.setDv (← parseId i) (← parseVal v))
    | _ => none
  | _ => none

def showReport (c : Id) (rpts : List (Id × List Val)) : String :=
  "r" ++ showId c ++ "[" ++ ";".intercalate (rpts.map (fun p => showId p.1 ++ "(" ++ ",".intercalate (p.2.map showVal) ++ ")")) ++ "]"

def showOut : Out → String
  | .ack (.code n) => s!"a{n}"
  | .ack .abort => "x"
  | .report c rpts => showReport c rpts
  | .nothing => "-"
  | .sent msgs crashed =>
    (if msgs.isEmpty && !crashed then "-" else "|".intercalate (msgs.map (fun m => showReport m.1 m.2))) ++ (if crashed then "!" else "")

def showConf (c : Config) : String :=
  ";".intercalate (c.reports.map (fun e => showId e.1 ++ "=" ++ showIds e.2)) ++ "@" ++
  ";".intercalate (c.links.map (fun e => showId e.1 ++ "=" ++ showIds e.2.1 ++ ":" ++ showBool e.2.2))

def handle : List String → String
  | "run" :: cfg :: ops =>
    match parseCfg cfg, ops.mapM parseOp with
    | some cfg, some ops =>
      "ok " ++ " ".intercalate ((trace cfg St.init ops).map (fun r => showOut r.1 ++ "@" ++ showConf r.2.conf))
    | _, _ => "bad-op"
  | _ => "bad-op"

end SecsModel.Drv.GemEv
