import SecsModel.Drv.Util
import SecsModel.Model.SecsHandle
-- DRIVER-DOMAIN: secshandle
/-! Driver domain `secshandle`.

`secshandle handle <host|equipment> <wGate 0|1><abortAny 0|1> <selected 0|1> <COMM> <waiting sys,sys|-> <user s.f,s.f|->
                   <outcome none|raises|reply.<s>.<f>|rtr.<s>.<f>> <s> <f> <w> <sys> <header hex>`
answer `ok <frame>;<frame>…` with `<frame> = D.<s>.<f>.<w>.<sys>.<fn|E|H<hex>>` or `R.<sys>`
`secshandle handlex <extra catalogue s.f,…|-> …` is `handle` with functions the application added to the catalogue
(`streams_functions.update`) — the reply depends on the catalogue and the callbacks at the time of the message;
`secshandle which <host|equipment> <user s.f,…|-> <s> <f>` → `ok user|builtin|none` (which callable `_call` runs);
`secshandle builtin <host|equipment>`, `secshandle catalogue`, `secshandle f0` list the generated facts.
-/
namespace SecsModel.Drv.SecsHandle
open SecsModel SecsModel.Drv SecsModel.Spec.E30Comm SecsModel.Model.SecsHandle

def parsePairs (s : String) : Option (List (Nat × Nat)) :=
  if s == "-" then some [] else
  (s.splitOn ",").mapM (fun p => match p.splitOn "." with
    | [a, b] => do pure ((← a.toNat?), (← b.toNat?))
    | _ => none)

def parseNats (s : String) : Option (List Nat) :=
  if s == "-" then some [] else (s.splitOn ",").mapM (·.toNat?)

def parseOutcome (s : String) : Option CbOutcome :=
  match s.splitOn "." with
  | ["none"] => some .none
  | ["raises"] => some .raises
  | ["reply", a, b] => do pure (.reply (← a.toNat?) (← b.toNat?))
  | ["rtr", a, b] => do pure (.replyThenRaises (← a.toNat?) (← b.toNat?))
  | _ => none

def showPairs (ps : List (Nat × Nat)) : String := ",".intercalate (ps.map fun p => s!"{p.1}.{p.2}")

def showFrame : Frame → String
  | .data s f w sys b => s!"D.{s}.{f}.{showBool w}.{sys}." ++ (match b with | .fn => "fn" | .empty => "E" | .header h => "H" ++ bytesToHex h)
  | .reject sys => s!"R.{sys}"

def builtinOf (cls : String) : Option (List (Nat × Nat)) :=
  if cls == "host" then some Gen.Callbacks.builtinGemHostHandler
  else if cls == "equipment" then some Gen.Callbacks.builtinGemEquipmentHandler else none

def handle : List String → String
  | ["handle", cls, flags, sel, comm, waiting, user, outcome, s, f, w, sys, hdr] =>
    match builtinOf cls, parseBool sel, Comm.ofName comm, parseNats waiting, parsePairs user, parseOutcome outcome,
          s.toNat?, f.toNat?, parseBool w, sys.toNat?, hexToBytes hdr with
    | some bi, some sel, some comm, some waiting, some user, some oc, some s, some f, some w, some sys, some hdr =>
      let fl := flags.toList
      let env : Env := { selected := sel, waiting := waiting, comm := comm, user := user, builtin := bi, outcome := fun _ => oc,
                         wGate := fl.getD 0 '0' == '1', abortAny := fl.getD 1 '0' == '1' }
      "ok " ++ ";".intercalate ((Model.SecsHandle.handle env ⟨s, f, w, sys, hdr⟩).map showFrame)
    | _, _, _, _, _, _, _, _, _, _, _ => "bad-op"
  | ["handlex", extra, cls, flags, sel, comm, waiting, user, outcome, s, f, w, sys, hdr] =>
    match parsePairs extra, builtinOf cls, parseBool sel, Comm.ofName comm, parseNats waiting, parsePairs user, parseOutcome outcome,
          s.toNat?, f.toNat?, parseBool w, sys.toNat?, hexToBytes hdr with
    | some extra, some bi, some sel, some comm, some waiting, some user, some oc, some s, some f, some w, some sys, some hdr =>
      let fl := flags.toList
      let env : Env := { selected := sel, waiting := waiting, comm := comm, user := user, builtin := bi, catalogue := Gen.Callbacks.catalogue ++ extra, outcome := fun _ => oc,
                         wGate := fl.getD 0 '0' == '1', abortAny := fl.getD 1 '0' == '1' }
      "ok " ++ ";".intercalate ((Model.SecsHandle.handle env ⟨s, f, w, sys, hdr⟩).map showFrame)
    | _, _, _, _, _, _, _, _, _, _, _, _ => "bad-op"
  | ["which", cls, user, s, f] =>
    match builtinOf cls, parsePairs user, s.toNat?, f.toNat? with
    | some bi, some user, some s, some f =>
      "ok " ++ (match selects { user := user, builtin := bi } s f with | .user => "user" | .builtin => "builtin" | .none => "none")
    | _, _, _, _ => "bad-op"
  | ["builtin", cls] => match builtinOf cls with
    | some bi => "ok " ++ showPairs bi
    | none => "bad-op"
  | ["catalogue"] => "ok " ++ showPairs Gen.Callbacks.catalogue
  | ["f0"] => "ok " ++ ",".intercalate (Gen.Callbacks.streamsWithF0.map toString)
  | _ => "bad-op"

end SecsModel.Drv.SecsHandle
