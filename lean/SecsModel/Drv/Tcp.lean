import SecsModel.Drv.Util
import SecsModel.Model.TcpSend
import SecsModel.Model.Wedge
-- DRIVER-DOMAIN: tcp
/-! Driver domain `tcp`: `send_data` / send queue against a socket oracle, and the stop-flag handshakes. -/
namespace SecsModel.Drv.Tcp
open SecsModel SecsModel.Drv SecsModel.Model.TcpSend

def parseAns (w : String) : Option SockAns :=
  if w == "w" then some .wouldBlock
  else if w == "e" then some .error
  else if w == "t" then some .selTimeout
  else if w.startsWith "a" then (String.ofList (w.toList.drop 1)).toNat?.map .accept
  else none

def parseOracle : List String → Option (List SockAns)
  | [] => some []
  | w :: ws => do
    let a ← parseAns w
    let r ← parseOracle ws
    pure (a :: r)

def showOutcome : Outcome → String | .ok => "True" | .fail => "False" | .pending => "pending"

def showRes (r : SendRes) : String := s!"{showOutcome r.outcome} written={bytesToHex r.written} rest={r.rest.length}"

def splitOn1 (s : String) (c : Char) : List String := (s.splitOn (String.singleton c)).filter (· ≠ "")

open SecsModel.Model.TcpStop in
def showApp : AppPc → String
  | .before => "before" | .check => "check" | .alive => "alive" | .spin => "spin" | .disc => "disc" | .discWait => "discWait" | .returned => "returned"
open SecsModel.Model.TcpStop in
def showRcv : RcvPc → String | .off => "off" | .run => "run" | .closing => "closing"

open SecsModel.Model.TcpStop in
def clientRun (fixed : Bool) : Client.St → List Char → Option Client.St
  | s, [] => some s
  | s, c :: cs =>
    let l : Option Client.Lbl := match c with
      | 'A' => some .app | 'T' => some (.thr true) | 't' => some (.thr false) | 'R' => some .rcv | 'P' => some .peerClose | _ => none
    match l with
    | some l => (Client.step fixed s l).bind (fun s' => clientRun fixed s' cs)
    | none => none

open SecsModel.Model.TcpStop in
def serverRun (fixed : Bool) : Server.St → List Char → Option Server.St
  | s, [] => some s
  | s, c :: cs =>
    let l : Option Server.Lbl := match c with
      | 'A' => some .app | 'T' => some (.thr true) | 't' => some (.thr false) | 'R' => some .rcv | 'P' => some .peerClose | _ => none
    match l with
    | some l => (Server.step fixed s l).bind (fun s' => serverRun fixed s' cs)
    | none => none

open SecsModel.Model.TcpStop in
def handle : List String → String
  | "send" :: d :: ws => match hexToBytes d, parseOracle ws with
    | some d, some o => "ok " ++ showRes (sendData d o)
    | _, _ => "bad-op"
  | "block" :: sz :: d :: ws => match sz.toNat?, hexToBytes d, parseOracle ws with
    | some sz, some d, some o => if sz = 0 then "err ValueError" else "ok " ++ showRes (sendBlock sz d o)
    | _, _, _ => "bad-op"
  | "queue" :: sz :: q :: ws => match sz.toNat?, (splitOn1 q ',').mapM hexToBytes, parseOracle ws with
    | some sz, some q, some o =>
      if sz = 0 then "err ValueError" else
      let r := processQueue sz q o
      "ok resolved=" ++ ",".intercalate (r.resolved.map showBool) ++ " written=" ++ bytesToHex r.written
        ++ s!" left={r.queue.length} rest={r.rest.length} pending={showBool r.pending}"
    | _, _, _ => "bad-op"
  | ["packetsize"] => "ok " ++ toString packetSize
  | ["stop", "client", f, tr] =>
    match clientRun (f == "fixed") Client.St.init tr.toList with
    | some s => s!"ok app={showApp s.app} alive={showBool s.thr.isAlive} rcv={showRcv s.rcv} flag={showBool s.flag} stuck={showBool (Client.stuck s)}"
    | none => "err NotEnabled"
  | ["stop", "server", f, tr] =>
    match serverRun (f == "fixed") Server.St.init tr.toList with
    | some s => s!"ok app={showApp s.app} alive={showBool s.thr.isAlive} rcv={showRcv s.rcv} flag={showBool s.flag} stuck={showBool (Server.stuck s)}"
    | none => "err NotEnabled"
  | _ => "bad-op"

end SecsModel.Drv.Tcp
