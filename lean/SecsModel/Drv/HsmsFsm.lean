import SecsModel.Drv.Util
import SecsModel.Model.Hsms
-- DRIVER-DOMAIN: hsmsfsm
/-!
Driver domain `hsmsfsm`.

    hsmsfsm run <a|p> <ctr> <d1><d2> <op,op,…|->      one history; d1 = selectRspUnchecked, d2 = separateIgnored (0|1; 00 = the code as it is)
       op := con | pcl | dib | die | rx.<stype>.<sys>.<status> | dat.<stream>.<function>.<w>.<sys>.<decodable> | datq.<…same…> (dispatch of a block queued earlier)
           | api.sel | api.des | api.lnk | t6.<sys> | lt (a pending linktest timer fires)
       stype := selreq | selrsp | desreq | desrsp | lnkreq | lnkrsp | rejreq | sepreq
    -> ok <conn> dis=<0|1> ctr=<n> open=<sys>/<kind>;… lt=<stored timer pending>/<orphan timers> | <conn> tx=<stype>/<sys>/<b2>/<b3>;… ev=<name>;… dl=<app|wait>/<sys>;… err=<ErrKind>;… [blk=<frames put into the send queue without a connection>] | …
    hsmsfsm race <gen|old> <schedule of a/d letters|-|eager|lazy>
    -> ok conn=<conn> started=<0|1> rsp=<0|1> raised=<0|1> final=<0|1>
-/
namespace SecsModel.Drv.HsmsFsm
open SecsModel SecsModel.Drv SecsModel.Model.Hsms
open SecsModel.Spec.E37 (Conn)

def parseSType : String → Option SType
  | "selreq" => some .selectReq | "selrsp" => some .selectRsp | "desreq" => some .deselectReq | "desrsp" => some .deselectRsp
  | "lnkreq" => some .linktestReq | "lnkrsp" => some .linktestRsp | "rejreq" => some .rejectReq | "sepreq" => some .separateReq
  | _ => none

def parseOp (s : String) : Option In :=
  match s.splitOn "." with
  | ["con"] => some .connect
  | ["pcl"] => some .peerClose
  | ["dib"] => some .disableBegin
  | ["die"] => some .disableEnd
  | ["rx", st, sys, status] => do
    let st ← parseSType st; let sys ← parseInt sys; let status ← parseInt status
    pure (.rxCtrl st sys status)
  | ["dat", st, f, w, sys, d] => do
    let st ← parseInt st; let f ← parseInt f; let w ← parseBool w; let sys ← parseInt sys; let d ← parseBool d
    pure (.rxData st f w sys d)
  | ["datq", st, f, w, sys, d] => do
    let st ← parseInt st; let f ← parseInt f; let w ← parseBool w; let sys ← parseInt sys; let d ← parseBool d
    pure (.rxDataQueued st f w sys d)
  | ["api", "sel"] => some .apiSelect
  | ["api", "des"] => some .apiDeselect
  | ["api", "lnk"] => some .apiLinktest
  | ["t6", sys] => do let sys ← parseInt sys; pure (.timeoutT6 sys)
  | ["lt"] => some .linktestTimer
  | _ => none

def parseHistory (s : String) : Option (List In) :=
  if s == "-" then some [] else (s.splitOn ",").mapM parseOp

def showConn : Conn → String
  | .notConnected => "NC" | .notSelected => "NS" | .selected => "SEL"

def showReq : Req → String
  | .select => "sel" | .deselect => "des" | .linktest => "lnk" | .ltimer => "ltm"

def joinOr (xs : List String) : String := if xs.isEmpty then "-" else ";".intercalate xs

def showOuts (os : List Out) : String :=
  let tx := os.filterMap (fun o => match o with | .tx st sys b2 b3 => some s!"{st}/{sys}/{b2}/{b3}" | _ => none)
  let ev := os.filterMap (fun o => match o with | .evt n => some n | _ => none)
  let dl := os.filterMap (fun o => match o with | .deliverApp sys => some s!"app/{sys}" | .deliverWaiter sys => some s!"wait/{sys}" | _ => none)
  let er := os.filterMap (fun o => match o with | .swallowed e => some e.name | _ => none)
  let bl := os.filterMap (fun o => match o with | .txBlocked st sys b2 b3 => some s!"{st}/{sys}/{b2}/{b3}" | _ => none)
  s!"tx={joinOr tx} ev={joinOr ev} dl={joinOr dl} err={joinOr er}" ++ (if bl.isEmpty then "" else s!" blk={joinOr bl}")

/-- the run, showing the connection state after every step -/
def trace (d : Defects) : St → List In → List String
  | _, [] => []
  | s, i :: is =>
    let (s1, o1) := step d s i
    (showConn s1.conn ++ " " ++ showOuts o1) :: trace d s1 is

def showSt (s : St) : String :=
  s!"{showConn s.conn} dis={showBool s.disconnecting} ctr={s.ctr} open={joinOr (s.opn.map (fun e => s!"{e.1}/{showReq e.2}"))} lt={showBool s.ltStored}/{s.ltOrphans}"

def parseSched (s : String) : Option (List Bool) :=
  if s == "-" then some [] else s.toList.mapM (fun c => if c == 'a' then some true else if c == 'd' then some false else none)

/-- the two schedules the harness can force on the real threads: `eager` = the dispatcher moves whenever it can,
`lazy` = the accepting thread finishes first -/
def policyRun (eager : Bool) : Nat → Race.RSt → Race.RSt
  | 0, s => s
  | fuel + 1, s =>
    let dCan := s.started && s.pcD < 2
    let aCan := !s.restA.isEmpty
    if eager then
      if dCan then policyRun eager fuel (Race.stepD s) else if aCan then policyRun eager fuel (Race.stepA s) else s
    else
      if aCan then policyRun eager fuel (Race.stepA s) else if dCan then policyRun eager fuel (Race.stepD s) else s

def showRace (s : Race.RSt) : String :=
  s!"ok conn={showConn s.conn} started={showBool s.started} rsp={showBool s.rspSent} raised={showBool s.raised} final={showBool (Race.isFinal s)}"

def handle : List String → String
  | ["run", mode, ctr, defects, hist] =>
    match (if mode == "a" then some true else if mode == "p" then some false else none), parseInt ctr, defects.toList, parseHistory hist with
    | some active, some ctr, [d1, d2], some is =>
      match parseBool (String.ofList [d1]), parseBool (String.ofList [d2]) with
      | some d1, some d2 =>
        let d : Defects := ⟨d1, d2⟩
        let s0 := St.init active ctr
        let sf := final d s0 is
        " | ".intercalate (("ok " ++ showSt sf) :: trace d s0 is)
      | _, _ => "bad-op"
    | _, _, _, _ => "bad-op"
  | ["race", order, sched] =>
    match (if order == "gen" then some Gen.HsmsProto.onConnected else if order == "old" then some Race.oldOrder else none) with
    | some prog =>
      if sched == "eager" then showRace (policyRun true 32 (Race.init prog))
      else if sched == "lazy" then showRace (policyRun false 32 (Race.init prog))
      else match parseSched sched with
        | some sc => showRace (Race.runSched (Race.init prog) sc)
        | none => "bad-op"
    | none => "bad-op"
  | _ => "bad-op"

end SecsModel.Drv.HsmsFsm
