import SecsModel.Drv.Util
import SecsModel.Model.SecsI
-- DRIVER-DOMAIN: secsi
/-! Driver domain `secsi`. -/
namespace SecsModel.Drv.SecsI
open SecsModel SecsModel.Drv SecsModel.Model.SecsI

def parseHeader : List String → Option (Gen.SecsIHeader × List String)
  | sy :: dv :: st :: fn :: bl :: r :: w :: e :: rest => do
    let sy ← parseInt sy; let dv ← parseInt dv; let st ← parseInt st; let fn ← parseInt fn
    let bl ← parseInt bl; let r ← parseBool r; let w ← parseBool w; let e ← parseBool e
    pure (⟨sy, dv, st, fn, bl, r, w, e⟩, rest)
  | _ => none

def showHeader (h : Gen.SecsIHeader) : String :=
  s!"{h.system} {h.device_id} {h.stream} {h.function} {h.block} {showBool h.from_equipment} {showBool h.require_response} {showBool h.last_block}"

def showBlock (b : Block) : String := showHeader b.header ++ " " ++ bytesToHex b.data

def parseBlock (ws : List String) : Option (Block × List String) := do
  let (h, rest) ← parseHeader ws
  match rest with
  | d :: rest' => pure (⟨h, ← hexToBytes d⟩, rest')
  | [] => none

partial def parseBlocks (ws : List String) (acc : List Block) : Option (List Block) :=
  match ws with
  | [] => some acc.reverse
  | _ => match parseBlock ws with
    | some (b, rest) => parseBlocks rest (b :: acc)
    | none => none

def showMessage (m : Message) : String :=
  (match m.header? with | some h => showHeader h | none => "nohdr") ++ " " ++ bytesToHex m.data ++ " n=" ++ toString m.length

def handle : List String → String
  | "henc" :: ws => match parseHeader ws with
    | some (h, []) => answer bytesToHex h.encode
    | _ => "bad-op"
  | ["hdec", hx] => match hexToBytes hx with
    | some bs => answer showHeader (Gen.SecsIHeader.decode bs)
    | none => "bad-op"
  | "benc" :: ws => match parseBlock ws with
    | some (b, []) => answer bytesToHex b.encode
    | _ => "bad-op"
  | ["bdec", hx] => match hexToBytes hx with
    | some bs => answer (fun o => match o with | some b => showBlock b | none => "none") (Block.decode bs)
    | none => "bad-op"
  | "split" :: ws => match parseBlock ws with
    | some (b, []) => "ok " ++ ";".intercalate ((split b.header b.data).map showBlock)
    | _ => "bad-op"
  | "reasm" :: ws => match parseBlocks ws [] with
    | some bs =>
      let (p, ms) := reassemble [] bs
      "ok " ++ ";".intercalate (ms.map showMessage) ++ " | pending=" ++ ",".intercalate (p.map (fun e => toString e.1))
    | none => "bad-op"
  | _ => "bad-op"

end SecsModel.Drv.SecsI
