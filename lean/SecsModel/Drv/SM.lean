import SecsModel.Drv.Util
import SecsModel.Model.SM
import SecsModel.Model.SMSched
import SecsModel.Model.Ctrl
import SecsModel.Spec.Machines
-- DRIVER-DOMAIN: sm
/-! Driver domain `sm` (engine model).

```
sm run     P=<parents> T=<transitions> H=<handlers> I=<cur> R=<requests>
sm sched   P=… T=… H=… I=<cur> A=<name> B=<name> S=<tid>.<label>,…
sm shipped <ConnSM|CommSM|CtrlSM> I=<state name> R=<requests>          (no handler requests)
sm table   <ConnSM|CommSM|CtrlSM>
sm reftable <ConnSM|CommSM|CtrlSM>                                   the reference definition (Spec.Machines), same format as `table`
sm ref     <ConnSM|CommSM> R=<requests>                              reference definition interpreted by the engine model, from its initial state;
sm ref     CtrlSM <initial_control_state> <LOCAL|REMOTE> R=<requests>  … with the generated forwarders; answer by NAME:
           (both forms take an optional H=<handlers> before R=: callbacks the harness registered in addition)
           a request named `!` in a handler entry stands for a callback that raises a plain exception (an unknown transition for the model)
           ok cur=<NAME> active=<NAME+NAME…> log=<l.NAME,e.NAME,c.transition,…> res=<r,r,…>

parents     := p,p,…          p = index of the parent or `-`
transitions := name:src+src>dst,…      or `-`
handlers    := entry;entry;…  or `-`   entry = e<s>:req+req | l<s>:… | c.<name>:…   (upper-case letter: only the first time the event fires)
requests    := name,name,…
answer      := ok cur=<n> active=<bits> log=<ev,ev,…> res=<r,r,…>     r = ok | WrongSource | UnknownTransition
               ok diverges=<i>          request i exceeded the recursion limit (nothing after it is compared)
```
-/
namespace SecsModel.Drv.SM
open SecsModel SecsModel.Drv SecsModel.Model.SM SecsModel.Model.SMSched SecsModel.Gen

def dropS (s : String) (n : Nat) : String := String.ofList (s.toList.drop n)

def kv (k : String) (w : String) : Option String :=
  if w.startsWith (k ++ "=") then some (dropS w (k.length + 1)) else none

def splitList (sep : String) (s : String) : List String := if s == "-" || s == "" then [] else s.splitOn sep

def parseParents (s : String) : Option (List (Option Nat)) :=
  (splitList "," s).mapM fun w => if w == "-" then some none else w.toNat?.map some

def parseTrans (s : String) : Option (List (String × List Nat × Nat)) :=
  (splitList "," s).mapM fun w =>
    match w.splitOn ":" with
    | [name, rest] => match rest.splitOn ">" with
      | [srcs, dst] => do
        let ss ← (splitList "+" srcs).mapM String.toNat?
        let d ← dst.toNat?
        pure (name, ss, d)
      | _ => none
    | _ => none

/-- handler entry: event, once?, requests -/
structure HEntry where
  ev : Ev
  once : Bool
  reqs : List String

def parseHandlers (s : String) : Option (List HEntry) :=
  (splitList ";" s).mapM fun w =>
    match w.splitOn ":" with
    | [key, reqs] =>
      let rs := splitList "+" reqs
      let k := key.toList.headD ' '
      let once := k.isUpper
      let body := dropS key 1
      match k.toLower with
      | 'e' => body.toNat?.map fun n => ⟨.enter n, once, rs⟩
      | 'l' => body.toNat?.map fun n => ⟨.leave n, once, rs⟩
      | 'c' => if body.startsWith "." then some ⟨.called (dropS body 1), once, rs⟩ else none
      | _ => none
    | _ => none

/-- one callback per entry, in entry order; a once-entry looks at the log at the moment it runs -/
def mkHandlers (es : List HEntry) : Handlers := fun ev =>
  (es.filter fun e => e.ev == ev).map fun e => fun st =>
    if e.once && (st.log.filter (· == ev)).length != 1 then [] else e.reqs

def mkDef (ps : List (Option Nat)) (ts : List (String × List Nat × Nat)) : MDef where
  n := ps.length
  parent := fun s => match ps[s]? with | some p => p | none => none
  trans := ts

def showEv : Ev → String
  | .enter s => s!"e{s}" | .leave s => s!"l{s}" | .called t => s!"c.{t}"

def showFail : Fail → String
  | .unknown => "UnknownTransition" | .wrongSource => "WrongSource" | .fuel => "Diverges"

def bits (bs : List Bool) : String := String.ofList (bs.map fun b => if b then '1' else '0')

def showSt (m : MDef) (st : St) : String :=
  s!"cur={st.cur} active={bits (flags m st)} log={",".intercalate (st.log.map showEv)}"

def runFuel : Nat := 6000

/-- requests one after the other, each caught separately (the state carries over, also after a raise) -/
def runReqs (m : MDef) (h : Handlers) : St → List String → Nat → List String → String
  | st, [], _, acc => s!"ok {showSt m st} res={",".intercalate acc.reverse}"
  | st, r :: rest, i, acc =>
    match perform m h runFuel st r with
    | .ok s1 => runReqs m h s1 rest (i+1) ("ok" :: acc)
    | .fail .fuel _ => s!"ok diverges={i}"
    | .fail e s1 => runReqs m h s1 rest (i+1) (showFail e :: acc)

def canonSt (m : MDef) (c : Nat) : St := { cur := c, active := canonFlags m c, log := [] }

def tableOf : String → Option MachineTable
  | "ConnSM" => some ConnSM | "CommSM" => some CommSM | "CtrlSM" => some CtrlSM | _ => none

def showTable (t : MachineTable) : String :=
  let ss := t.states.map fun r => s!"{r.1}:{r.2.1}:{match r.2.2.1 with | some p => p | none => "-"}:{if r.2.2.2 then 1 else 0}"
  let ts := t.transitions.map fun r => s!"{r.1}:{"+".intercalate r.2.1}>{r.2.2}"
  s!"ok states={",".intercalate ss} transitions={",".intercalate ts} initial={t.initial}"

def parseStep (w : String) : Option (Nat × String) :=
  match w.splitOn "." with
  | [t, l] => t.toNat?.map (·, l)
  | _ => none

def runSched (P : Prog St Thread) : Sys St Thread → List (Nat × String) → Nat → Except String (Sys St Thread)
  | s, [], _ => .ok s
  | s, (i, l) :: rest, k =>
    if (s.loc i).pc.label != l then .error s!"desync@{k}:{(s.loc i).pc.label}"
    else runSched P (stepFree P s i) rest (k+1)

def showResult (t : Thread) : String :=
  match t.pc with
  | .done none => "ok"
  | .done (some e) => showFail e
  | pc => "at." ++ pc.label

def refOf : String → Option Spec.Machines.RefMachine
  | "ConnSM" => some Spec.Machines.conn | "CommSM" => some Spec.Machines.comm | "CtrlSM" => some Spec.Machines.ctrl | _ => none

def showStNamed (t : MachineTable) (m : MDef) (st : St) : String :=
  let act := (List.range m.n).filter st.active
  let ev : Ev → String
    | .enter s => "e." ++ stateName t s | .leave s => "l." ++ stateName t s | .called n => "c." ++ n
  s!"cur={stateName t st.cur} active={"+".intercalate (act.map (stateName t))} log={",".intercalate (st.log.map ev)}"

def runReqsNamed (t : MachineTable) (m : MDef) (h : Handlers) : St → List String → Nat → List String → String
  | st, [], _, acc => s!"ok {showStNamed t m st} res={",".intercalate acc.reverse}"
  | st, r :: rest, i, acc =>
    match perform m h runFuel st r with
    | .ok s1 => runReqsNamed t m h s1 rest (i+1) ("ok" :: acc)
    | .fail .fuel _ => s!"ok diverges={i}"
    | .fail e s1 => runReqsNamed t m h s1 rest (i+1) (showFail e :: acc)

def handle : List String → String
  | ["reftable", name] =>
    match refOf name with
    | some r => showTable r.toTable
    | none => "bad-op"
  | ["ref", name, r] =>
    match refOf name, kv "R" r with
    | some rm, some rs =>
      let t := rm.toTable
      runReqsNamed t (ofTable t) noHandlers (initOf t) (splitList "," rs) 0 []
    | _, _ => "bad-op"
  | ["ref", name, h, r] =>
    -- additional callbacks (same syntax as `run`, state indices of the reference definition) registered by the harness
    match refOf name, kv "H" h >>= parseHandlers, kv "R" r with
    | some rm, some hs, some rs =>
      let t := rm.toTable
      runReqsNamed t (ofTable t) (mkHandlers hs) (initOf t) (splitList "," rs) 0 []
    | _, _, _ => "bad-op"
  | ["ref", "CtrlSM", initial, sub, r] =>
    match kv "R" r with
    | some rs =>
      let t := Spec.Machines.ctrl.toTable
      let c : Model.Gem.Ctrl.CState := { cur := 0, flags := [], remote := sub == "REMOTE", initial := initial }
      runReqsNamed t (ofTable t) (Model.Gem.Ctrl.handlers c none) (initOf t) (splitList "," rs) 0 []
    | none => "bad-op"
  | ["ref", "CtrlSM", initial, sub, h, r] =>
    -- the constructor's own callbacks first, then the harness's (registration order)
    match kv "H" h >>= parseHandlers, kv "R" r with
    | some hs, some rs =>
      let t := Spec.Machines.ctrl.toTable
      let c : Model.Gem.Ctrl.CState := { cur := 0, flags := [], remote := sub == "REMOTE", initial := initial }
      let hh : Handlers := fun ev => Model.Gem.Ctrl.handlers c none ev ++ mkHandlers hs ev
      runReqsNamed t (ofTable t) hh (initOf t) (splitList "," rs) 0 []
    | _, _ => "bad-op"
  | ["run", p, t, h, i, r] =>
    match kv "P" p >>= parseParents, kv "T" t >>= parseTrans, kv "H" h >>= parseHandlers, kv "I" i >>= String.toNat?, kv "R" r with
    | some ps, some ts, some hs, some c, some rs =>
      let m := mkDef ps ts
      runReqs m (mkHandlers hs) (canonSt m c) (splitList "," rs) 0 []
    | _, _, _, _, _ => "bad-op"
  | ["sched", p, t, h, i, a, b, s] =>
    match kv "P" p >>= parseParents, kv "T" t >>= parseTrans, kv "H" h >>= parseHandlers, kv "I" i >>= String.toNat?,
          kv "A" a, kv "B" b, kv "S" s >>= fun x => (splitList "," x).mapM parseStep with
    | some ps, some ts, some hs, some c, some na, some nb, some steps =>
      let m := mkDef ps ts
      let P := prog m (mkHandlers hs) runFuel
      match runSched P (two (canonSt m c) na nb) steps 0 with
      | .ok s => s!"ok {showSt m s.sh} res={showResult (s.loc 0)},{showResult (s.loc 1)}"
      | .error e => "ok " ++ e
    | _, _, _, _, _, _, _ => "bad-op"
  | ["shipped", name, i, r] =>
    match tableOf name, kv "I" i, kv "R" r with
    | some t, some iname, some rs =>
      let m := ofTable t
      let c := stateIdx t iname
      if c < m.n then runReqs m noHandlers (canonSt m c) (splitList "," rs) 0 [] else "bad-op"
    | _, _, _ => "bad-op"
  | ["table", name] =>
    match tableOf name with
    | some t => showTable t
    | none => "bad-op"
  | _ => "bad-op"

end SecsModel.Drv.SM
