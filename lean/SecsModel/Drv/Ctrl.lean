import SecsModel.Drv.Util
import SecsModel.Model.Ctrl
import SecsModel.Spec.E30Control
-- DRIVER-DOMAIN: gemctrl
/-! Driver domain `gemctrl` (control-state model and the E30 table).

```
gemctrl run  <initial_control_state> <LOCAL|REMOTE> <inputs>        model
gemctrl spec <initial_control_state> <LOCAL|REMOTE> <inputs>        E30 table (Spec.E30), same input language
gemctrl bare <initial_control_state> <LOCAL|REMOTE> <m,m,…>         bare ControlStateMachine, public methods; step = <state>:<active bits>:<remembered>:<ok|class>
inputs := input,input,…  | -
input  := on.answers | on.silent | on.aborts | on.nocomm | begin | probe.answers | probe.silent | probe.aborts | probe.nocomm
        | off | local | remote | s1f15 | s1f17 | linklost
answer := ok <step>|<step>|…      first step = the constructor
step   := <state name>:<SVID 1002>:<active bits>:<out+out+…|->          (spec: flags column is `*`)
out    := ceid<k> | ack<n> | raised.<class>
```
-/
namespace SecsModel.Drv.Ctrl
open SecsModel SecsModel.Drv SecsModel.Model.SM SecsModel.Model.Gem.Ctrl SecsModel.Gen

def parseProbe : String → Option Probe
  | "answers" => some .hostAnswers | "silent" => some .hostSilent | "aborts" => some .hostAborts | "nocomm" => some .notCommunicating
  | _ => none

def parseInput (w : String) : Option Input :=
  match w.splitOn "." with
  | ["on", p] => (parseProbe p).map .switchOnline
  | ["probe", p] => (parseProbe p).map .probe
  | ["begin"] => some .onlineBegin
  | ["off"] => some .switchOffline
  | ["local"] => some .switchLocal
  | ["remote"] => some .switchRemote
  | ["s1f15"] => some .s1f15
  | ["s1f17"] => some .s1f17
  | ["linklost"] => some .linkLost
  | _ => none

def parseInputs (s : String) : Option (List Input) := if s == "-" then some [] else (s.splitOn ",").mapM parseInput

def showFail : Fail → String
  | .unknown => "UnknownTransition" | .wrongSource => "WrongSource" | .fuel => "Diverges"

def showOut : Output → String
  | .ack n => s!"ack{n}" | .ceid k => s!"ceid{k}" | .raised e => "raised." ++ showFail e

def showOuts (os : List String) : String := if os.isEmpty then "-" else "+".intercalate os

def showSv (c : CState) : String := match sv1002 c with | .ok v => toString v | .error e => e.name

def showStep (c : CState) (outs : List Output) : String :=
  let bits := String.ofList (c.flags.map fun b => if b then '1' else '0')
  s!"{stateName CtrlSM c.cur}:{showSv c}:{bits}:{showOuts (outs.map showOut)}"

def runShow : CState → List Input → List String → List String
  | _, [], acc => acc.reverse
  | c, i :: rest, acc => match step c i with | (c', outs) => runShow c' rest (showStep c' outs :: acc)

/-! the E30 side, in the same input language -/
open SecsModel.Spec.E30 in
def specName : S → String
  | .equipmentOffline => "EQUIPMENT_OFFLINE" | .attemptOnline => "ATTEMPT_ONLINE" | .hostOffline => "HOST_OFFLINE"
  | .onlineLocal => "ONLINE_LOCAL" | .onlineRemote => "ONLINE_REMOTE"

open SecsModel.Spec.E30 in
def specOut : Spec.E30.Out → String
  | .ack n => s!"ack{n}"
  | .event .equipmentOffline => s!"ceid{ceEquipmentOffline}"
  | .event .controlLocal => s!"ceid{ceControlLocal}"
  | .event .controlRemote => s!"ceid{ceControlRemote}"

open SecsModel.Spec.E30 in
/-- triggers an input stands for in state `s` (the probe is only sent once the ON-LINE switch was accepted; the shipped handler's
transition-4 target is HOST OFF-LINE; link loss is not an E30 trigger) -/
def specTrigs (s : S) : Input → List Trig
  | .switchOnline p => if s == .equipmentOffline then (match p with | .hostAnswers => [.opOnline, .probeOk] | _ => [.opOnline, .probeFail]) else [.opOnline]
  | .onlineBegin => [.opOnline]
  | .probe .hostAnswers => [.probeOk]
  | .probe _ => [.probeFail]
  | .switchOffline => [.opOffline]
  | .switchLocal => [.opLocal]
  | .switchRemote => [.opRemote]
  | .s1f15 => [.s1f15]
  | .s1f17 => [.s1f17]
  | .linkLost => []

open SecsModel.Spec.E30 in
def specMacro (s : SState) : List Trig → List Spec.E30.Out → SState × List Spec.E30.Out
  | [], acc => (s, acc)
  | t :: rest, acc => match Spec.E30.step .hostOffline s t with | (s', o) => specMacro s' rest (acc ++ o)

open SecsModel.Spec.E30 in
def specShowStep (s : SState) (outs : List Spec.E30.Out) : String :=
  s!"{specName s.st}:{svValue s.st}:*:{showOuts (outs.map specOut)}"

open SecsModel.Spec.E30 in
def specRunShow : SState → List Input → List String → List String
  | _, [], acc => acc.reverse
  | s, i :: rest, acc => match specMacro s (specTrigs s.st i) [] with | (s', outs) => specRunShow s' rest (specShowStep s' outs :: acc)

open SecsModel.Spec.E30 in
def specDefault : String → Option Default
  | "EQUIPMENT_OFFLINE" => some .equipmentOffline | "ATTEMPT_ONLINE" => some .attemptOnline
  | "HOST_OFFLINE" => some .hostOffline | "ONLINE" => some .online | _ => none

/-- the bare `ControlStateMachine` (no capability handler on ATTEMPT_ONLINE): public methods called one after the other -/
def bareShow : CState → List String → List String → List String
  | _, [], acc => acc.reverse
  | c, m :: rest, acc =>
    match runMethod c none m with
    | (c', outs, _) =>
      let res := match outs.filterMap (fun o => match o with | .raised e => some (showFail e) | _ => none) with
        | e :: _ => e
        | [] => "ok"
      let bits := String.ofList (c'.flags.map fun b => if b then '1' else '0')
      bareShow c' rest (s!"{stateName CtrlSM c'.cur}:{bits}:{if c'.remote then "REMOTE" else "LOCAL"}:{res}" :: acc)

def handle : List String → String
  | ["bare", initial, sub, ms] =>
    if sub != "LOCAL" && sub != "REMOTE" then "bad-op" else
    let c0 : CState := { cur := (initOf CtrlSM).cur, flags := SecsModel.Model.SM.flags ctrl (initOf CtrlSM), remote := sub == "REMOTE", initial := initial }
    "ok " ++ "|".intercalate (bareShow c0 (if ms == "-" then [] else ms.splitOn ",") [])
  | ["run", initial, sub, ins] =>
    match parseInputs ins with
    | some is =>
      if sub != "LOCAL" && sub != "REMOTE" then "bad-op" else
      match Model.Gem.Ctrl.init initial (sub == "REMOTE") with
      | (c0, outs0) => "ok " ++ "|".intercalate (showStep c0 outs0 :: runShow c0 is [])
    | none => "bad-op"
  | ["spec", initial, sub, ins] =>
    match parseInputs ins, specDefault initial with
    | some is, some d =>
      if sub != "LOCAL" && sub != "REMOTE" then "bad-op" else
      match Spec.E30.initial d (sub == "REMOTE") with
      | (s0, outs0) =>
        -- the constructor of the shipped handler cannot probe: transition 4 immediately
        match (if d == .attemptOnline then specMacro s0 [.probeFail] outs0 else (s0, outs0)) with
        | (s1, outs1) => "ok " ++ "|".intercalate (specShowStep s1 outs1 :: specRunShow s1 is [])
    | _, _ => "bad-op"
  | _ => "bad-op"

end SecsModel.Drv.Ctrl
