import SecsModel.Drv.Util
import SecsModel.Drv.Codec
import SecsModel.Drv.Hsms
import SecsModel.Drv.SecsI
-- DRIVER-DOMAIN: wire
/-! Driver domain `wire`: the composed pipeline of `Props/C20d.lean` made executable — value → `Model.Var.encode` → transport
(HSMS: `Block.encode`, the receive loop over the given segmentation; SECS-I: `split`, `Block.encode`/`Block.decode` per block in the
given interleaving, `reassemble`) → `decodeAs` into the receiver's structure.

    wire hsms  <c1,c2,…>  M <7 header fields> <struct> <val>  M …        chunk sizes are cycled over the byte stream
    wire secsi <i1,i2,…>  M <8 header fields> <struct> <val>  M …        order: index of the message whose next block goes next

Answers: `ok frames=<hex>,<hex>,… | rx=<delivered> buf=<n> aborts=<n> | <header> <value in struct> pos=<n> | …`. -/
namespace SecsModel.Drv.Wire
open SecsModel SecsModel.Drv SecsModel.Spec.E5 SecsModel.Model.Var

structure M (H : Type) where
  header : H
  struct : Struct
  value : Val

partial def parseMsgs {H : Type} (ph : List String → Option (H × List String)) (ts : List String) (acc : List (M H)) : Option (List (M H)) :=
  match ts with
  | [] => some acc.reverse
  | "M" :: rest => do
    let (h, r1) ← ph rest
    let (s, r2) ← Codec.parseStruct r1
    let (v, r3) ← Codec.parseVal r2
    parseMsgs ph r3 (⟨h, s, v⟩ :: acc)
  | _ => none

def parseNats (s : String) : Option (List Nat) := (s.splitOn ",").mapM (·.toNat?)

/-- cut `bs` into chunks whose sizes cycle through `sizes` (a size 0 is read as 1) -/
partial def cut (sizes : List Nat) (k : Nat) (bs : Bytes) (acc : List Bytes) : List Bytes :=
  if bs.isEmpty then acc.reverse else
  let n := max 1 (sizes.getD (k % max 1 sizes.length) 1)
  cut sizes (k + 1) (bs.drop n) (bs.take n :: acc)

def showDecoded (s : Struct) (data : Bytes) : String :=
  match decodeAs s data 0 with
  | .ok (v, pos) => s!"{Codec.showIn s v} pos={pos}/{data.length}"
  | .error e => s!"err {repr e}"

def hsms (sizes : List Nat) (ms : List (M Gen.HsmsHeader)) : String :=
  let enc := ms.map (fun m => (m, Model.Var.encode m.value))
  match enc.mapM (fun (m, e) => match e with | .ok body => some (m, (⟨m.header, body⟩ : Model.Rx.Block)) | .error _ => none) with
  | none => "err encode"
  | some mbs =>
    match mbs.mapM (fun (_, b) => match b.encode with | .ok fr => some fr | .error _ => none) with
    | none => "err frame"
    | some frames =>
      let rx := (cut sizes 0 frames.flatten []).foldl Model.Rx.feed Model.Rx.Rx.init
      let outs := (mbs.zip rx.delivered).map (fun ((m, _), d) => Hsms.showHeader d.header ++ " " ++ showDecoded m.struct d.data)
      "ok frames=" ++ ",".intercalate (frames.map bytesToHex) ++ s!" | rx={rx.delivered.length} buf={rx.buf.length} aborts={rx.aborts} | "
        ++ " | ".intercalate outs

/-- take the blocks in the given order: `order[k] = i` takes the next block of message `i` (an index with nothing left is skipped);
whatever is left afterwards follows message by message -/
partial def interleave (order : List Nat) (ls : List (List Model.SecsI.Block)) (acc : List Model.SecsI.Block) : List Model.SecsI.Block :=
  match order with
  | [] => acc.reverse ++ ls.flatten
  | i :: rest =>
    match ls[i]? with
    | some (b :: bs) => interleave rest (ls.set i bs) (b :: acc)
    | _ => interleave rest ls acc

def secsi (order : List Nat) (ms : List (M Gen.SecsIHeader)) : String :=
  match ms.mapM (fun m => match Model.Var.encode m.value with | .ok body => some (m, body) | .error _ => none) with
  | none => "err encode"
  | some mbs =>
    let line := interleave order (mbs.map (fun (m, body) => Model.SecsI.split m.header body)) []
    match line.mapM (fun b => match b.encode with | .ok raw => some raw | .error _ => none) with
    | none => "err frame"
    | some raws =>
      match raws.mapM (fun raw => match Model.SecsI.Block.decode raw with | .ok (some b) => some b | _ => none) with
      | none => "err blockdecode"
      | some got =>
        let (pending, done) := Model.SecsI.reassemble [] got
        let outs := done.map (fun msg =>
          match msg.header? with
          | none => "nohdr"
          | some h =>
            match mbs.find? (fun (m, _) => m.header.system == h.system) with
            | some (m, _) => SecsI.showHeader h ++ s!" n={msg.length} " ++ showDecoded m.struct (Model.SecsI.Message.data msg)
            | none => SecsI.showHeader h ++ " unknown")
        "ok frames=" ++ ",".intercalate (raws.map bytesToHex) ++ s!" | done={done.length} pending={pending.length} | " ++ " | ".intercalate outs

def handle : List String → String
  | "hsms" :: sz :: ws => match parseNats sz, parseMsgs Hsms.parseHeader (Codec.tokenize (" ".intercalate ws)) [] with
    | some sizes, some ms => hsms sizes ms
    | _, _ => "bad-op"
  | "secsi" :: od :: ws => match parseNats od, parseMsgs SecsI.parseHeader (Codec.tokenize (" ".intercalate ws)) [] with
    | some order, some ms => secsi order ms
    | _, _ => "bad-op"
  | _ => "bad-op"

end SecsModel.Drv.Wire
