import SecsModel.Drv.Util
import SecsModel.Drv.GemEv
import SecsModel.Model.GemTab
-- DRIVER-DOMAIN: gemtab
/-! Driver domain `gemtab`: one history per line.

```
gemtab run <env> <svs> <ecs> <alarms> <op>*
env    := X<0|1>;K<hex>,<hex>,<hex>;C<int>;E<id>+…;T<int>;F<int>      typeCheck ; clock for format 0,1,2 ; control state ; enabled events ; ect ; time format
svs    := S<id>~<name hex>~<unit hex>~<c|k|s|e|a|z>~<val>;…            cell / clock / control state / events enabled / alarms enabled / alarms set
ecs    := E<id>~<name hex>~<num|->~<num|->~<num>~<unit hex>~<i|f>~<num>;…  min max (`-` = None) default ; value_type integer or float ; current value
alarms := A<id>~<code>~<text hex>~<0|1>~<0|1>;…                         enabled, set
num    := i<int> | f<num>/<k> | fnan | finf | f-inf        ecv := num | o  (not a number)
op     := S3:<ids> | S11:<ids> | E13:<ids> | E29:<ids> | E15:<id>=<ecv>,… | A3:<aled>:<alid> | A5:<ids> | A7 | AS:<id> | AC:<id> | ASN:<id> | ACN:<id> (S5F1 not answered) | V<id>=<val>
answer := ok (<out>@<id>=<num>;…|<ect>|<tf>@<id>=<en><set>;…)*
```
-/
namespace SecsModel.Drv.GemTab
open SecsModel SecsModel.Drv SecsModel.Drv.GemEv SecsModel.Model.Gem SecsModel.Model.Gem.Tab

def parseNum (s : String) : Option Num :=
  if s == "fnan" then some .nan else if s == "finf" then some (.inf false) else if s == "f-inf" then some (.inf true) else
  match s.toList with
  | 'i' :: rest => (String.ofList rest).toInt?.map Num.int
  | 'f' :: rest => match (String.ofList rest).splitOn "/" with
    | [a, b] => do pure (Num.flt ⟨← a.toInt?, ← b.toNat?⟩)
    | _ => none
  | _ => none

def showNum : Num → String
  | .int n => s!"i{n}"
  | .flt d => s!"f{d.num}/{d.k}"
  | .nan => "fnan"
  | .inf false => "finf"
  | .inf true => "f-inf"

def parseBound (s : String) : Option (Option Dy × Bool) :=
  if s == "-" then some (none, false) else
  match parseNum s with
  | some (.int n) => some (some ⟨n, 0⟩, false)
  | some (.flt d) => some (some d, true)
  | _ => none

def parseEcv (s : String) : Option Ecv := if s == "o" then some .other else (parseNum s).map Ecv.num

def parseSv (w : String) : Option Sv :=
  match w.splitOn "~" with
  | [i, n, u, k, v] => do
    let kind ← match k with
      | "c" => some SvKind.cell | "k" => some .clock | "s" => some .controlState
      | "e" => some .eventsEnabled | "a" => some .alarmsEnabled | "z" => some .alarmsSet | _ => none
    pure ⟨← parseId i, ← unhexStr n, ← unhexStr u, kind, ← parseVal v⟩
  | _ => none

def parseEc (w : String) : Option Ec :=
  match w.splitOn "~" with
  | [i, n, mn, mx, df, u, t, v] => do
    let (mn, mnF) ← parseBound mn
    let (mx, mxF) ← parseBound mx
    let intTyped ← (if t == "i" then some true else if t == "f" then some false else none)
    pure ⟨← parseId i, ← unhexStr n, mn, mnF, mx, mxF, ← parseNum df, ← unhexStr u, intTyped, ← parseNum v⟩
  | _ => none

def parseAlarm (w : String) : Option Alarm :=
  match w.splitOn "~" with
  | [i, c, t, e, s] => do pure ⟨← parseId i, ← c.toNat?, ← unhexStr t, ← parseBool e, ← parseBool s⟩
  | _ => none

def tail1 (s : String) : String := String.ofList (s.toList.drop 1)

def parseState (env svs ecs alarms : String) : Option St :=
  match env.splitOn ";" with
  | [x, k, c, e, t, f] => do
    let tc ← parseBool (tail1 x)
    let (k0, k1, k2) ← match (tail1 k).splitOn "," with
      | [a, b, c] => do pure (← unhexStr a, ← unhexStr b, ← unhexStr c)
      | _ => none
    let cs ← (tail1 c).toInt?
    let ee ← (splitNE (tail1 e) "+").mapM parseId
    let ect ← (tail1 t).toInt?
    let tf ← (tail1 f).toInt?
    let svs ← (splitNE (tail1 svs) ";").mapM parseSv
    let ecs ← (splitNE (tail1 ecs) ";").mapM parseEc
    let alarms ← (splitNE (tail1 alarms) ";").mapM parseAlarm
    pure { svs := svs, ecs := ecs, alarms := alarms, ect := ect, timeFormat := tf, clock0 := k0, clock1 := k1, clock2 := k2,
           controlState := cs, eventsEnabled := ee, typeCheck := tc }
  | _ => none

def parseOp (w : String) : Option Op :=
  match w.toList with
  | 'V' :: rest => match (String.ofList rest).splitOn "=" with
    | [i, v] => do pure (Op.setSv (← parseId i) (← parseVal v))
    | _ => none
  | _ =>
    match w.splitOn ":" with
    | ["S3", ids] => (parseIds ids).map Op.s1f3
    | ["S11", ids] => (parseIds ids).map Op.s1f11
    | ["E13", ids] => (parseIds ids).map Op.s2f13
    | ["E29", ids] => (parseIds ids).map Op.s2f29
    | ["E15", ps] => (splitNE ps ",").mapM (fun (p : String) => match p.splitOn "=" with
        | [i, v] => do pure (← parseId i, ← parseEcv v)
        | _ => none) |>.map Op.s2f15
    | ["A3", aled, alid] => do pure (Op.s5f3 (← aled.toNat?) (← parseId alid))
    | ["A5", ids] => (parseIds ids).map Op.s5f5
    | ["A7"] => some Op.s5f7
    | ["AS", i] => (parseId i).map (Op.setAlarm · true)
    | ["AC", i] => (parseId i).map (Op.clearAlarm · true)
    | ["ASN", i] => (parseId i).map (Op.setAlarm · false)      -- the host does not answer the S5F1 (T3 expires)
    | ["ACN", i] => (parseId i).map (Op.clearAlarm · false)
    | _ => none

def showRows (rs : List AlarmRow) : String :=
  ";".intercalate (rs.map (fun r => s!"{r.alcd}~{showId r.id}~{hexStr r.text}"))

def showOut : Out → String
  | .vals (.ok vs) => "v[" ++ ",".intercalate (vs.map showVal) ++ "]"
  | .names (.ok ns) => "n[" ++ ";".intercalate (ns.map (fun n => s!"{showId n.1}~{hexStr n.2.1}~{hexStr n.2.2}")) ++ "]"
  | .rows (.ok rs) => "c[" ++ ";".intercalate (rs.map (fun r =>
      s!"{showId r.id}~{hexStr r.name}~{showVal r.min}~{showVal r.max}~{showVal r.dflt}~{hexStr r.unit}")) ++ "]"
  | .ack (.code n) => s!"a{n}"
  | .ack .abort => "x"
  | .alarms (.ok rs) => "l[" ++ showRows rs ++ "]"
  | .emits (.ok rs) => "e[" ++ showRows rs ++ "]"
  | .emits (.error _) => "!"
  | .nothing => "-"
  | _ => "x"

def showState (s : St) : String :=
  ";".intercalate (s.ecs.map (fun ec => showId ec.id ++ "=" ++ showNum ec.value)) ++ s!"|{s.ect}|{s.timeFormat}" ++ "@" ++
  ";".intercalate (s.alarms.map (fun a => showId a.id ++ "=" ++ showBool a.enabled ++ showBool a.set))

def handle : List String → String
  | "run" :: env :: svs :: ecs :: alarms :: ops =>
    match parseState env svs ecs alarms, ops.mapM parseOp with
    | some s, some ops => "ok " ++ " ".intercalate ((trace s ops).map (fun r => showOut r.1 ++ "@" ++ showState r.2))
    | _, _ => "bad-op"
  | _ => "bad-op"

end SecsModel.Drv.GemTab
