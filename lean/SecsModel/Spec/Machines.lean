import SecsModel.Gen.Machines
import SecsModel.Spec.E37
import SecsModel.Spec.E30Comm
/-!
# Spec.Machines — reference definitions of the three shipped state machines

Written once, from the standards' state diagrams (my reading; the texts are not in the sandbox), independently of secsgem's source:

* **HSMS connection** (SEMI E37 §5, connection state diagram): NOT CONNECTED; CONNECTED ⊃ {NOT SELECTED, SELECTED}.  The table
  is `Spec.E37.engineStates/engineTransitions` (re-used, not repeated).
* **GEM communication** (SEMI E30 §3.2 communication state diagram): DISABLED; ENABLED ⊃ {NOT COMMUNICATING, COMMUNICATING}, with
  NOT COMMUNICATING refined into HOST-INITIATED CONNECT (WAIT CR FROM HOST) and EQUIPMENT-INITIATED CONNECT (WAIT CRA, WAIT DELAY).
  secsgem flattens the AND/OR structure below ENABLED: **every** state other than DISABLED and ENABLED is a direct sub-state of ENABLED.
  Transitions = `Spec.E30Comm.allowed` (2/4, 3, 5–10, 14, 15), `disable` (3) from ENABLED and each of its sub-states.
* **GEM control** (SEMI E30 §3.3 control state diagram): E30 nests EQUIPMENT OFF-LINE / ATTEMPT ON-LINE / HOST OFF-LINE below OFF-LINE
  and LOCAL / REMOTE below ON-LINE.  The shipped machine realises OFF-LINE, ON-LINE and the entry point CONTROL as *pass-through
  pseudo states without parent* (their enter handlers forward at once: E30 transitions 1, 2, 7), so the machine is flat — which is
  what keeps it inside the class for which the engine is correct with nested requests (C18 (b); a parent link here would run into
  finding c18-nested-hier).  Transitions 3–6, 8–12 as in `Spec.E30` (`Spec/E30Control.lean`); both failure targets of transition 4 exist.

A reference machine: states `(name, parent)` in declaration order (= enum order), the initial state, transitions
`(name, sources, destination)`.  Source lists are compared as sets.
-/
namespace SecsModel.Spec.Machines

structure RefMachine where
  states : List (String × Option String)
  initial : String
  transitions : List (String × List String × String)
deriving Repr, DecidableEq

def conn : RefMachine where
  states := Spec.E37.engineStates.map fun r => (r.1, r.2.2.1)
  initial := Spec.E37.engineInitial
  transitions := Spec.E37.engineTransitions

def comm : RefMachine where
  states := [
    ("DISABLED", none),
    ("ENABLED", none),
    ("NOT_COMMUNICATING", some "ENABLED"),
    ("HOST_INITIATED_CONNECT", some "ENABLED"),
    ("WAIT_CR_FROM_HOST", some "ENABLED"),
    ("EQUIPMENT_INITIATED_CONNECT", some "ENABLED"),
    ("WAIT_DELAY", some "ENABLED"),
    ("WAIT_CRA", some "ENABLED"),
    ("COMMUNICATING", some "ENABLED")]
  initial := "DISABLED"
  transitions := [
    ("enable", ["DISABLED"], "NOT_COMMUNICATING"),                                                           -- 2, 4
    ("disable", ["ENABLED", "NOT_COMMUNICATING", "HOST_INITIATED_CONNECT", "WAIT_CR_FROM_HOST", "EQUIPMENT_INITIATED_CONNECT",
                 "WAIT_DELAY", "WAIT_CRA", "COMMUNICATING"], "DISABLED"),                                    -- 3
    ("select", ["NOT_COMMUNICATING"], "WAIT_CRA"),                                                           -- 5
    ("communicationreqfail", ["WAIT_CRA"], "WAIT_DELAY"),                                                    -- 6
    ("delayexpired", ["WAIT_DELAY"], "WAIT_CRA"),                                                            -- 7
    ("messagereceived", ["WAIT_DELAY"], "WAIT_CRA"),                                                         -- 8
    ("s1f14received", ["WAIT_CRA"], "COMMUNICATING"),                                                        -- 9
    ("communicationfail", ["COMMUNICATING"], "NOT_COMMUNICATING"),                                           -- 14
    ("s1f13received", ["WAIT_CR_FROM_HOST", "WAIT_DELAY", "WAIT_CRA"], "COMMUNICATING")]                     -- 10, 15

def ctrl : RefMachine where
  states := [
    ("INIT", none), ("CONTROL", none), ("OFFLINE", none),
    ("EQUIPMENT_OFFLINE", none), ("ATTEMPT_ONLINE", none), ("HOST_OFFLINE", none),
    ("ONLINE", none), ("ONLINE_LOCAL", none), ("ONLINE_REMOTE", none)]
  initial := "INIT"
  transitions := [
    ("start", ["INIT"], "CONTROL"),                                                                          -- 1
    ("initial_offline", ["CONTROL"], "OFFLINE"),                                                             -- 1
    ("initial_equipment_offline", ["OFFLINE"], "EQUIPMENT_OFFLINE"),                                         -- 2
    ("initial_attempt_online", ["OFFLINE"], "ATTEMPT_ONLINE"),                                               -- 2
    ("initial_host_offline", ["OFFLINE"], "HOST_OFFLINE"),                                                   -- 2
    ("switch_online", ["EQUIPMENT_OFFLINE"], "ATTEMPT_ONLINE"),                                              -- 3
    ("attempt_online_fail_equipment_offline", ["ATTEMPT_ONLINE"], "EQUIPMENT_OFFLINE"),                      -- 4
    ("attempt_online_fail_host_offline", ["ATTEMPT_ONLINE"], "HOST_OFFLINE"),                                -- 4
    ("attempt_online_success", ["ATTEMPT_ONLINE"], "ONLINE"),                                                -- 5
    ("switch_offline", ["ONLINE", "ONLINE_LOCAL", "ONLINE_REMOTE", "HOST_OFFLINE"], "EQUIPMENT_OFFLINE"),    -- 6, 12
    ("initial_online", ["CONTROL"], "ONLINE"),                                                               -- 1
    ("initial_online_local", ["ONLINE"], "ONLINE_LOCAL"),                                                    -- 7
    ("initial_online_remote", ["ONLINE"], "ONLINE_REMOTE"),                                                  -- 7
    ("switch_online_local", ["ONLINE_REMOTE"], "ONLINE_LOCAL"),                                              -- 9
    ("switch_online_remote", ["ONLINE_LOCAL"], "ONLINE_REMOTE"),                                             -- 8
    ("remote_offline", ["ONLINE", "ONLINE_LOCAL", "ONLINE_REMOTE"], "HOST_OFFLINE"),                         -- 10
    ("remote_online", ["HOST_OFFLINE"], "ONLINE")]                                                           -- 11

/-- the reference machine in the shape of a generated table (enum value = position; no wiring, no methods) -/
def RefMachine.toTable (r : RefMachine) : Gen.MachineTable where
  states := r.states.zipIdx.map fun x => (x.1.1, (x.2 : Int), x.1.2, x.1.1 == r.initial)
  transitions := r.transitions
  initial := r.initial
  wiring := []
  methods := []

def sameSet (a b : List String) : Bool := a.all b.contains && b.all a.contains && a.length == b.length

/-- a generated table is the reference definition: same states in the same order with the same parents, the `initial=` flag
exactly on the reference's initial state which is also `_current_state`, the same transitions in the same order with the same
destination and the same *set* of sources -/
def defines (t : Gen.MachineTable) (r : RefMachine) : Bool :=
  t.states.map (fun s => (s.1, s.2.2.1)) == r.states &&
  t.states.all (fun s => s.2.2.2 == (s.1 == r.initial)) &&
  t.initial == r.initial &&
  t.transitions.length == r.transitions.length &&
  (t.transitions.zip r.transitions).all fun x => x.1.1 == x.2.1 && sameSet x.1.2.1 x.2.2.1 && x.1.2.2 == x.2.2.2

end SecsModel.Spec.Machines
