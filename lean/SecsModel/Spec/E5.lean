import SecsModel.Basic.IEEE
/-!
# Spec.E5 — SEMI E5 (SECS-II) item format, written from the standard (not from the code)

E5 §9: an item is a *format byte*, 1–3 *length bytes* and the body.
* format byte = `format code << 2 | number of length bytes`;
* format codes (octal): L 00, B 10, BOOLEAN 11, A 20, J 21, I8 30, I1 31, I2 32, I4 34, F8 40, F4 44, U8 50, U1 51, U2 52, U4 54;
* length bytes: big-endian; the length of a list is its number of elements, of any other item its number of body bytes;
  the canonical form uses the fewest length bytes that hold the length (a receiver accepts 1, 2 or 3);
* integers are big-endian two's complement, floats IEEE-754 binary32/binary64 big-endian, BOOLEAN is one byte per value,
  zero = false, non-zero = true; A is one byte per character; J is JIS X 0201 (one byte per character).

The untyped value tree `Val` carries every element as an `Int`: byte value (B), 0/1 (BOOLEAN), code point (A, J), the integer
(I*/U*), and for F4/F8 the **binary64 bit pattern** of the Python float the item holds (an F4 element is rounded to binary32 on
the wire).  `encode` is the canonical encoder, `decodeAny` the independent reference decoder of property C02.
-/
namespace SecsModel.Spec.E5
open SecsModel

inductive Ty | b | bool | a | j | i8 | i1 | i2 | i4 | f8 | f4 | u8 | u1 | u2 | u4
deriving DecidableEq, Repr, Inhabited

inductive Kind | byte | bool | char | jis | sint | uint | f32 | f64
deriving DecidableEq, Repr

def Ty.all : List Ty := [.b, .bool, .a, .j, .i8, .i1, .i2, .i4, .f8, .f4, .u8, .u1, .u2, .u4]

/-- E5 format code -/
def Ty.code : Ty → Nat
  | .b => 0o10 | .bool => 0o11 | .a => 0o20 | .j => 0o21
  | .i8 => 0o30 | .i1 => 0o31 | .i2 => 0o32 | .i4 => 0o34
  | .f8 => 0o40 | .f4 => 0o44
  | .u8 => 0o50 | .u1 => 0o51 | .u2 => 0o52 | .u4 => 0o54

/-- bytes per element -/
def Ty.width : Ty → Nat
  | .b | .bool | .a | .j | .i1 | .u1 => 1
  | .i2 | .u2 => 2
  | .i4 | .u4 | .f4 => 4
  | .i8 | .u8 | .f8 => 8

def Ty.kind : Ty → Kind
  | .b => .byte | .bool => .bool | .a => .char | .j => .jis
  | .i8 | .i1 | .i2 | .i4 => .sint
  | .u8 | .u1 | .u2 | .u4 => .uint
  | .f4 => .f32 | .f8 => .f64

/-- SML mnemonic -/
def Ty.name : Ty → String
  | .b => "B" | .bool => "BOOLEAN" | .a => "A" | .j => "J"
  | .i8 => "I8" | .i1 => "I1" | .i2 => "I2" | .i4 => "I4"
  | .f8 => "F8" | .f4 => "F4"
  | .u8 => "U8" | .u1 => "U1" | .u2 => "U2" | .u4 => "U4"

/-- least / greatest element: the integer range of the width; for floats the bit patterns of ∓(largest finite value) -/
def Ty.lo : Ty → Int
  | .b | .bool | .a | .j | .u1 | .u2 | .u4 | .u8 => 0
  | .i1 => -128 | .i2 => -32768 | .i4 => -2147483648 | .i8 => -9223372036854775808
  | .f4 => 0xC7EFFFFFE0000000 | .f8 => 0xFFEFFFFFFFFFFFFF

def Ty.hi : Ty → Int
  | .b | .a | .j | .u1 => 255 | .bool => 1
  | .u2 => 65535 | .u4 => 4294967295 | .u8 => 18446744073709551615
  | .i1 => 127 | .i2 => 32767 | .i4 => 2147483647 | .i8 => 9223372036854775807
  | .f4 => 0x47EFFFFFE0000000 | .f8 => 0x7FEFFFFFFFFFFFFF

def Ty.ofCode (c : Nat) : Option Ty := Ty.all.find? (fun t => t.code == c)

/-- the E5 item-format table: (mnemonic, format code, element width, least, greatest) for the numeric formats
(floats: bit patterns of the largest finite value, negated and not), the same row shape with zeros for the others -/
def typeTable : List (String × Nat × Nat × Int × Int) :=
  ("L", 0, 0, 0, 0) :: Ty.all.map (fun t => (t.name, t.code, (match t.kind with | .sint | .uint | .f32 | .f64 => t.width | _ => 0),
    (match t.kind with | .sint | .uint | .f32 | .f64 => t.lo | _ => 0), (match t.kind with | .sint | .uint | .f32 | .f64 => t.hi | _ => 0)))

/-! ## JIS X 0201 (8-bit): 0x5C is the yen sign, 0x7E the overline, 0xA1–0xDF the half-width katakana U+FF61–U+FF9F;
the remaining bytes are passed through as the code point of the same number -/

def jisChar (b : Nat) : Nat :=
  if b = 0x5C then 0xA5 else if b = 0x7E then 0x203E else if 0xA1 ≤ b ∧ b ≤ 0xDF then b + 0xFEC0 else b

def jisByte (c : Int) : Option Nat :=
  if c = 0xA5 then some 0x5C
  else if c = 0x203E then some 0x7E
  else if 0xFF61 ≤ c ∧ c ≤ 0xFF9F then some (c - 0xFEC0).toNat
  else if 0 ≤ c ∧ c < 256 ∧ c ≠ 0x5C ∧ c ≠ 0x7E ∧ ¬ (0xA1 ≤ c ∧ c ≤ 0xDF) then some c.toNat
  else none

/-! ## values -/

inductive Val
  | list (xs : List Val)
  | item (t : Ty) (es : List Int)
deriving Repr, Inhabited

mutual
def Val.beq : Val → Val → Bool
  | .list xs, .list ys => beqList xs ys
  | .item t es, .item u fs => t == u && es == fs
  | _, _ => false
def beqList : List Val → List Val → Bool
  | [], [] => true
  | x :: xs, y :: ys => x.beq y && beqList xs ys
  | _, _ => false
end

mutual
theorem Val.beq_eq (a b : Val) (h : a.beq b = true) : a = b := by
  match a, b with
  | .list xs, .list ys => simp only [Val.beq] at h; rw [beqList_eq xs ys h]
  | .item t es, .item u fs =>
    simp only [Val.beq, Bool.and_eq_true, beq_iff_eq] at h
    rw [h.1, h.2]
  | .list _, .item _ _ => simp [Val.beq] at h
  | .item _ _, .list _ => simp [Val.beq] at h
theorem beqList_eq (xs ys : List Val) (h : beqList xs ys = true) : xs = ys := by
  match xs, ys with
  | [], [] => rfl
  | x :: xs, y :: ys =>
    simp only [beqList, Bool.and_eq_true] at h
    rw [Val.beq_eq x y h.1, beqList_eq xs ys h.2]
  | [], _ :: _ => simp [beqList] at h
  | _ :: _, [] => simp [beqList] at h
end

mutual
theorem Val.beq_refl (a : Val) : a.beq a = true := by
  match a with
  | .list xs => simp only [Val.beq]; exact beqList_refl xs
  | .item t es => simp [Val.beq]
theorem beqList_refl (xs : List Val) : beqList xs xs = true := by
  match xs with
  | [] => rfl
  | x :: xs => simp only [beqList, Val.beq_refl x, beqList_refl xs, Bool.and_self]
end

instance : DecidableEq Val := fun a b =>
  if h : a.beq b = true then isTrue (Val.beq_eq a b h) else isFalse (fun e => h (e ▸ Val.beq_refl a))

mutual
def Val.size : Val → Nat
  | .item _ _ => 1
  | .list xs => 1 + sizeList xs
def sizeList : List Val → Nat
  | [] => 0
  | x :: xs => 1 + x.size + sizeList xs
end

/-- two's complement of `e` in `w` bytes -/
def toTwos (w : Nat) (e : Int) : Nat := (e % ((256 ^ w : Nat) : Int)).toNat
def ofTwos (w : Nat) (n : Nat) : Int := if 2 * n < 256 ^ w then (n : Int) else (n : Int) - ((256 ^ w : Nat) : Int)

/-- is `e` an element of format `t` (floats: any binary64 pattern) -/
def okElem (t : Ty) (e : Int) : Bool :=
  match t.kind with
  | .jis => (jisByte e).isSome
  | .f32 | .f64 => decide (0 ≤ e ∧ e < 18446744073709551616)
  | _ => decide (t.lo ≤ e ∧ e ≤ t.hi)

/-- body bytes of one element -/
def elemEnc (t : Ty) (e : Int) : Except Err Bytes :=
  if okElem t e = false then .error .valueError else
  match t.kind with
  | .jis => match jisByte e with | some b => .ok [b] | none => .error .valueError
  | .sint => .ok (be t.width (toTwos t.width e))
  | .f32 => match IEEE.round32 e.toNat with | .ok f => .ok (be 4 f) | .error x => .error x
  | _ => .ok (be t.width e.toNat)

def encElems (t : Ty) : List Int → Except Err Bytes
  | [] => .ok []
  | e :: es =>
    match elemEnc t e with
    | .error x => .error x
    | .ok b =>
      match encElems t es with
      | .error x => .error x
      | .ok r => .ok (b ++ r)

/-- fewest length bytes that hold `len` -/
def nlbOf (len : Nat) : Nat := if len ≤ 0xFF then 1 else if len ≤ 0xFFFF then 2 else 3

/-- canonical item header -/
def header (code len : Nat) : Except Err Bytes :=
  if 0xFFFFFF < len then .error .valueError else .ok ((code * 4 + nlbOf len) :: be (nlbOf len) len)

mutual
def encode : Val → Except Err Bytes
  | .item t es =>
    match encElems t es with
    | .error x => .error x
    | .ok p =>
      match header t.code p.length with
      | .error x => .error x
      | .ok h => .ok (h ++ p)
  | .list xs =>
    match header 0 xs.length with
    | .error x => .error x
    | .ok h =>
      match encodeList xs with
      | .error x => .error x
      | .ok p => .ok (h ++ p)
def encodeList : List Val → Except Err Bytes
  | [] => .ok []
  | x :: xs =>
    match encode x with
    | .error e => .error e
    | .ok a =>
      match encodeList xs with
      | .error e => .error e
      | .ok b => .ok (a ++ b)
end

/-- the value one element's body bytes denote -/
def elemDec (t : Ty) (bs : Bytes) : Int :=
  match t.kind with
  | .bool => if ofBe bs = 0 then 0 else 1
  | .jis => (jisChar (ofBe bs) : Nat)
  | .sint => ofTwos t.width (ofBe bs)
  | .f32 => (IEEE.widen (ofBe bs) : Nat)
  | _ => (ofBe bs : Nat)

/-- what an element becomes on the wire and back: an F4 element is rounded to binary32 -/
def normElem (t : Ty) (e : Int) : Int :=
  match t with
  | .f4 => match IEEE.round32 e.toNat with | .ok f => (IEEE.widen f : Nat) | .error _ => e
  | _ => e

mutual
def norm : Val → Val
  | .item t es => .item t (es.map (normElem t))
  | .list xs => .list (normList xs)
def normList : List Val → List Val
  | [] => []
  | x :: xs => norm x :: normList xs
end

/-- no infinity or NaN among the float elements -/
def finElem (t : Ty) (e : Int) : Bool :=
  match t.kind with
  | .f32 | .f64 => IEEE.isFinite64 e.toNat
  | _ => true

mutual
def Val.Finite : Val → Prop
  | .item t es => ∀ e ∈ es, finElem t e = true
  | .list xs => FiniteList xs
def FiniteList : List Val → Prop
  | [] => True
  | x :: xs => x.Finite ∧ FiniteList xs
end

-- every F4 element is exactly representable in binary32
mutual
def Val.Exact32 : Val → Prop
  | .item t es => ∀ e ∈ es, normElem t e = e
  | .list xs => Exact32List xs
def Exact32List : List Val → Prop
  | [] => True
  | x :: xs => x.Exact32 ∧ Exact32List xs
end

/-! ## the reference decoder -/

def takeN (n : Nat) (bs : Bytes) : Option (Bytes × Bytes) :=
  if bs.length < n then none else some (bs.take n, bs.drop n)

/-- `n` consecutive groups of `w` bytes -/
def chunksN (w : Nat) : Nat → Bytes → List Bytes
  | 0, _ => []
  | n+1, bs => bs.take w :: chunksN w n (bs.drop w)

/-- format byte and 1–3 length bytes (any of the three counts is accepted, whatever the length) -/
def decHeader : Bytes → Option (Nat × Nat × Bytes)
  | [] => none
  | fb :: r =>
    if 256 ≤ fb ∨ fb % 4 = 0 then none else
    match takeN (fb % 4) r with
    | none => none
    | some (lb, r') => some (fb / 4, ofBe lb, r')

mutual
def decItem : Nat → Bytes → Option (Val × Bytes)
  | 0, _ => none
  | f+1, bs =>
    match decHeader bs with
    | none => none
    | some (code, len, rest) =>
      if code = 0 then
        match decList f len rest with
        | none => none
        | some (xs, r) => some (.list xs, r)
      else
        match Ty.ofCode code with
        | none => none
        | some t =>
          if len % t.width ≠ 0 then none else
          match takeN len rest with
          | none => none
          | some (p, r) => some (.item t ((chunksN t.width (len / t.width) p).map (elemDec t)), r)
def decList : Nat → Nat → Bytes → Option (List Val × Bytes)
  | _, 0, bs => some ([], bs)
  | 0, _+1, _ => none
  | f+1, n+1, bs =>
    match decItem f bs with
    | none => none
    | some (x, r) =>
      match decList f n r with
      | none => none
      | some (xs, r') => some (x :: xs, r')
end

/-- **the independent reference decoder**: the first item of `bs` and the bytes after it -/
def decodeAny (bs : Bytes) : Option (Val × Bytes) := decItem (bs.length + 1) bs

/-- `bs` is a valid E5 item denoting `v` -/
def Valid (bs : Bytes) (v : Val) : Prop := decodeAny bs = some (v, [])

end SecsModel.Spec.E5
