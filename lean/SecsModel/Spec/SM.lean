import SecsModel.Model.SM
/-!
# Spec.SM — what a hierarchical state machine has to do on a transition (my reading of the property text)

Independent of the engine's lock-step parent comparison: defined from the ancestor sets only.
* afterwards exactly the destination and its ancestors are active (`Model.SM.Inv`);
* the states *exited* by `s → d` are `s` itself and every ancestor of `s` that is not an ancestor-or-self of `d`;
  the states *entered* are `d` itself and every ancestor of `d` that is not an ancestor-or-self of `s`;
* each exited state's `leave`, each entered state's `enter` and the transition's `called` fire exactly once.
-/
namespace SecsModel.Spec.SM
open SecsModel.Model.SM

def exited (m : MDef) (s d : Nat) : List Nat := (chain m s).filter fun x => x == s || !(chain m d).contains x
def entered (m : MDef) (s d : Nat) : List Nat := (chain m d).filter fun x => x == d || !(chain m s).contains x

/-- nesting depth (a root has depth 1) -/
def depth (m : MDef) (s : Nat) : Nat := (chain m s).length

/-- the event sequence the property prescribes for one performed transition `name : s → d` (leaf first, as the engine orders it) -/
def expectedLog (m : MDef) (s d : Nat) (name : String) : List Ev :=
  (exited m s d).map .leave ++ (entered m s d).map .enter ++ [.called name]

end SecsModel.Spec.SM
