/-!
# Spec.Sfdl — the Secs Function Definition Language as `docs/firststeps/sfdl.md` documents it

Written from the documentation, not from the code.

* **Data items** "are defined with their name in a set of pointed brackets": `< ACKC6 >`.
* **Lists** "are described with 'L' on the opening bracket": `< L member … >`; after the `L` an optional list name
  ("this name can be overridden, by passing the name after the L tag … also other nested lists can be named this way").
* "A list with multiple different data items is mapped to a dict or object.  This can be accessed with the data item
  name as key."  "Open lists are defined with only one data item.  They can hold multiple values with the same data type."
* Keys: a data item is found under its name; "if an open list with a single data item is nested within a fixed length
  list, the name of the nested data item is used" as key; a nested list for which "resolving the name doesn't work like
  in the previous example … is simply named `DATA`"; a name after the `L` tag overrides.
* **Comments** "start with a `#` and end with the line break"; the examples use blanks and line breaks freely.

`Def` is the grammar as a tree, `render` produces every text of a tree (one text per `Layout`), `shape` is the message
structure the documentation promises for it.
-/
namespace SecsModel.Spec.Sfdl

/-- names and texts are lists of characters -/
abbrev Name := List Char

/-- a structure definition -/
inductive Def where
  | item (name : Name)
  | list (name : Option Name) (members : List Def)
deriving Repr

/-- the documented message structure: a data item, an open array of one element structure, or a keyed record -/
inductive Struct where
  | item (name : Name)
  | array (elem : Struct)
  | record (fields : List (Name × Struct))
deriving Repr

mutual
/-- structural equality of shapes (decidable) -/
def Struct.beq : Struct → Struct → Bool
  | .item a, .item b => a == b
  | .array a, .array b => Struct.beq a b
  | .record a, .record b => Struct.beqL a b
  | _, _ => false
def Struct.beqL : List (Name × Struct) → List (Name × Struct) → Bool
  | [], [] => true
  | (k, a) :: r, (k', b) :: r' => k == k' && Struct.beq a b && Struct.beqL r r'
  | _, _ => false
end

mutual
theorem Struct.beq_iff : ∀ a b : Struct, Struct.beq a b = true ↔ a = b
  | .item a, .item b => by simp [Struct.beq]
  | .array a, .array b => by simp [Struct.beq, Struct.beq_iff a b]
  | .record a, .record b => by simp [Struct.beq, Struct.beqL_iff a b]
  | .item _, .array _ => by simp [Struct.beq]
  | .item _, .record _ => by simp [Struct.beq]
  | .array _, .item _ => by simp [Struct.beq]
  | .array _, .record _ => by simp [Struct.beq]
  | .record _, .item _ => by simp [Struct.beq]
  | .record _, .array _ => by simp [Struct.beq]
theorem Struct.beqL_iff : ∀ a b : List (Name × Struct), Struct.beqL a b = true ↔ a = b
  | [], [] => by simp [Struct.beqL]
  | [], _ :: _ => by simp [Struct.beqL]
  | _ :: _, [] => by simp [Struct.beqL]
  | (k, a) :: r, (k', b) :: r' => by simp [Struct.beqL, Struct.beq_iff a b, Struct.beqL_iff r r', and_assoc]
end

instance : DecidableEq Struct := fun a b => decidable_of_iff _ (Struct.beq_iff a b)

/-! ## characters -/

/-- blank characters that may separate tokens -/
def isWs (c : Char) : Bool := c == ' ' || c == '\t' || c == '\n' || c == '\r'
/-- the pointed brackets -/
def isOp (c : Char) : Bool := c == '<' || c == '>'
/-- a line break ends a comment -/
def isEol (c : Char) : Bool := c == '\n' || c == '\r'
/-- a character of a word (item name, `L`, list name): anything that is not blank, bracket or comment start -/
def isWordChar (c : Char) : Bool := !isWs c && !isOp c && c != '#'

/-! ## layout: what may stand in the gaps between tokens -/

inductive WsChar | space | tab | lf | cr
deriving DecidableEq, Repr

def WsChar.toChar : WsChar → Char
  | .space => ' ' | .tab => '\t' | .lf => '\n' | .cr => '\r'

inductive Eol | lf | cr
deriving DecidableEq, Repr

def Eol.toChar : Eol → Char
  | .lf => '\n' | .cr => '\r'

/-- one piece of a gap: a blank character, or a comment `# … line break` (line breaks inside the body are dropped, so
every `Piece` denotes a legal comment; CR LF is a comment ended by CR followed by the blank LF) -/
inductive Piece
  | ws (c : WsChar)
  | comment (body : List Char) (eol : Eol)
deriving DecidableEq, Repr

abbrev Gap := List Piece

def Piece.render : Piece → List Char
  | .ws c => [c.toChar]
  | .comment body e => '#' :: (body.filter (fun c => !isEol c) ++ [e.toChar])

def renderGap : Gap → List Char
  | [] => []
  | p :: g => p.render ++ renderGap g

/-- where two words meet (`L` and a list name) the gap must not be empty: an empty one is read as one blank -/
def sep (g : Gap) : Gap :=
  match g with
  | [] => [.ws .space]
  | _ => g

/-- A layout gives the gap at every position of the tree: `gap path k` is gap number `k` of the node reached from the root by
`path` (child indices).  For an item `< g0 NAME g1 >`; for a list `< g0 L g1 [NAME g2] member₀ g3 member₁ g4 … >`.
`lead`/`trail` surround the whole definition; `eof` is an optional last comment that runs to the end of the text without
a line break. -/
structure Layout where
  gap : List Nat → Nat → Gap
  lead : Gap
  trail : Gap
  eof : Option (List Char)

/-- the gaps of child `i` -/
def sub (g : List Nat → Nat → Gap) (i : Nat) : List Nat → Nat → Gap := fun p k => g (i :: p) k

mutual
/-- the text of a definition under a layout -/
def renderDef : Def → (List Nat → Nat → Gap) → List Char
  | .item n, g => '<' :: (renderGap (g [] 0) ++ (n ++ (renderGap (g [] 1) ++ ['>'])))
  | .list none ms, g => '<' :: (renderGap (g [] 0) ++ ('L' :: (renderGap (g [] 1) ++ (renderMembers ms g 0 ++ ['>']))))
  | .list (some x) ms, g =>
    '<' :: (renderGap (g [] 0) ++ ('L' :: (renderGap (sep (g [] 1)) ++ (x ++ (renderGap (g [] 2) ++ (renderMembers ms g 0 ++ ['>']))))))
def renderMembers : List Def → (List Nat → Nat → Gap) → Nat → List Char
  | [], _, _ => []
  | m :: ms, g, i => renderDef m (sub g i) ++ (renderGap (g [] (3 + i)) ++ renderMembers ms g (i + 1))
end

/-- the complete text -/
def render (d : Def) (ly : Layout) : List Char :=
  renderGap ly.lead ++ (renderDef d ly.gap ++ (renderGap ly.trail ++
    (match ly.eof with | none => [] | some body => '#' :: body.filter (fun c => !isEol c))))

/-! ## tokens -/

mutual
/-- the words and brackets of a definition, in order -/
def tokensOf : Def → List Name
  | .item n => [['<'], n, ['>']]
  | .list nm ms => ['<'] :: ['L'] :: ((match nm with | none => [] | some x => [x]) ++ (tokensOfList ms ++ [['>']]))
def tokensOfList : List Def → List Name
  | [] => []
  | m :: ms => tokensOf m ++ tokensOfList ms
end

/-! ## the documented shape -/

def dataKey : Name := ['D', 'A', 'T', 'A']

/-- the key under which a member of a fixed length list is found -/
def key : Def → Name
  | .item n => n
  | .list (some x) _ => x
  | .list none [.item n] => n
  | .list none _ => dataKey

mutual
/-- a list with one member is an open array of that member, a list with several members a record keyed by `key` -/
def shape : Def → Struct
  | .item n => .item n
  | .list _ [m] => .array (shape m)
  | .list _ ms => .record (shapeFields ms)
def shapeFields : List Def → List (Name × Struct)
  | [] => []
  | m :: ms => (key m, shape m) :: shapeFields ms
end

/-! ## well-formedness of a tree (decidable: Boolean functions, the propositions are `… = true`) -/

def isWord (w : Name) : Bool := !w.isEmpty && w.all isWordChar

mutual
/-- every item name and list name is a word -/
def wordsOk : Def → Bool
  | .item n => isWord n
  | .list nm ms => (match nm with | none => true | some x => isWord x) && wordsOkL ms
def wordsOkL : List Def → Bool
  | [] => true
  | m :: ms => wordsOk m && wordsOkL ms
end

mutual
/-- every list has at least one member (the documentation shows no empty list) -/
def nonEmptyLists : Def → Bool
  | .item _ => true
  | .list _ ms => !ms.isEmpty && nonEmptyListsL ms
def nonEmptyListsL : List Def → Bool
  | [] => true
  | m :: ms => nonEmptyLists m && nonEmptyListsL ms
end

/-- pairwise different -/
def distinct : List Name → Bool
  | [] => true
  | k :: ks => !ks.contains k && distinct ks

/-- the keys of the members of one list -/
def keysOf : List Def → List Name
  | [] => []
  | m :: ms => key m :: keysOf ms

mutual
/-- in every list the members' keys are pairwise different (the documentation does not say what a repeated key means) -/
def keysDistinct : Def → Bool
  | .item _ => true
  | .list _ ms => distinct (keysOf ms) && keysDistinctL ms
def keysDistinctL : List Def → Bool
  | [] => true
  | m :: ms => keysDistinct m && keysDistinctL ms
end

/-- a member of a named fixed length list as the documentation shows them (S14F2 `ERRORS`): a data item, a list with its
own name, or an unnamed list of lists -/
def okUnderName : Def → Bool
  | .item _ => true
  | .list (some _) _ => true
  | .list none (.list _ _ :: _) => true
  | .list none _ => false

def allOkUnderName : List Def → Bool
  | [] => true
  | m :: ms => okUnderName m && allOkUnderName ms

/-- the only member is a named list -/
def soleNamed : List Def → Bool
  | [.list (some _) _] => true
  | _ => false

/-- the members of a named list as the documentation shows them: (A) a data item followed by at least one more member, the
further members being items, named lists or unnamed lists of lists (S14F2 `ERRORS`); or (B) exactly one unnamed fixed length
list that starts with a data item (S2F33 `REPORTS`) -/
def namedForm : List Def → Bool
  | .item _ :: m2 :: rest => allOkUnderName (m2 :: rest)
  | [.list none (.item _ :: _ :: _)] => true
  | _ => false

mutual
/-- **List names only where the documentation shows them.**  A name after the `L` tag is given to
* (A) a fixed length list whose first member is a data item (S14F2: `< L ERRORS < OBJACK > < L ERROR … > >`), the further
  members being items, named lists or unnamed lists of lists; or
* (B) an open list of an unnamed fixed length list that starts with a data item (S2F33: `< L REPORTS < L < RPTID > … > >`);
and a named list is never the only member of an unnamed list.  (A named open list of a data item, `< L SVIDS < SVID > >`,
is documented too; the code gets it wrong, see `Props.C19.witness_named_single_member`; the other placements are not
shown by the documentation.) -/
def namesAsDocumented : Def → Bool
  | .item _ => true
  | .list none ms => !soleNamed ms && namesAsDocumentedL ms
  | .list (some _) ms => namedForm ms && namesAsDocumentedL ms
def namesAsDocumentedL : List Def → Bool
  | [] => true
  | m :: ms => namesAsDocumented m && namesAsDocumentedL ms
end

mutual
/-- all item names of the tree -/
def itemNames : Def → List Name
  | .item n => [n]
  | .list _ ms => itemNamesL ms
def itemNamesL : List Def → List Name
  | [] => []
  | m :: ms => itemNames m ++ itemNamesL ms
end

end SecsModel.Spec.Sfdl
