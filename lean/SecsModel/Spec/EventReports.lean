import SecsModel.Model.GemBase
/-!
# Spec.EventReports — the declarative effect of S2F33 / S2F35 (SEMI E5 as I read it; reproduced here so a reader can disagree)

Configuration: which reports are defined (`RPTID ↦ VIDs`, definition order) and which collection events are linked
(`CEID ↦ (RPTIDs in link order, enabled)`).

* **S2F33 Define Report.**  `L:0` deletes every report and every link.  Otherwise, per entry in message order:
  `RPTID, L:0` deletes that report *and removes it from every event it is linked to* (an event left without
  reports is no longer linked); `RPTID, L:n VID…` defines the report.  DRACK 3 = some entry re-defines an existing report,
  DRACK 4 = some VID does not exist.
* **S2F35 Link Event Report.**  Per entry in message order: `CEID, L:0` removes all links of that CEID; `CEID, L:n RPTID…`
  links the reports, after the ones already linked, keeping the enable state; a newly linked CEID starts disabled.
  LRACK 3 = some RPTID is already linked to its CEID, 4 = some CEID does not exist, 5 = some RPTID is not defined.
* **S2F37.**  ERACK 1 = some CEID does not exist (here: is not linked), else 0.

A refused request (non-zero code) has no effect.
-/
namespace SecsModel.Spec.EventReports
open SecsModel SecsModel.Model.Gem

structure Config where
  reports : AList (List Id)
  links : AList (List Id × Bool)
deriving DecidableEq, Repr

structure RptReq where
  rptid : Id
  vids : List Id
deriving DecidableEq, Repr

structure LinkReq where
  ceid : Id
  rptids : List Id
deriving DecidableEq, Repr

def defineReport (c : Config) (r : Id) (vids : List Id) : Config :=
  { c with reports := c.reports.set r vids }

/-- delete one report: gone from the table and from every link list; a CEID whose last report went is unlinked -/
def deleteReport (c : Config) (r : Id) : Config :=
  { reports := c.reports.filter (fun e => !(e.1 = r)),
    links := c.links.filterMap (fun e =>
      let rs' := e.2.1.filter (fun x => !(x = r))
      if r ∈ e.2.1 ∧ rs' = [] then none else some (e.1, (rs', e.2.2))) }

def deleteAll (_ : Config) : Config := { reports := [], links := [] }

def unlinkEvent (c : Config) (ce : Id) : Config :=
  { c with links := c.links.filter (fun e => !(e.1 = ce)) }

def linkEvent (c : Config) (ce : Id) (rs : List Id) : Config :=
  match c.links.lookup ce with
  | some (old, en) => { c with links := c.links.set ce (old ++ rs, en) }
  | none => { c with links := c.links ++ [(ce, (rs, false))] }

def s2f33Entry (c : Config) (r : RptReq) : Config :=
  if r.vids = [] then deleteReport c r.rptid else defineReport c r.rptid r.vids

def s2f33Effect (c : Config) (data : List RptReq) : Config :=
  if data = [] then deleteAll c else data.foldl s2f33Entry c

def s2f35Entry (c : Config) (e : LinkReq) : Config :=
  if e.rptids = [] then unlinkEvent c e.ceid else linkEvent c e.ceid e.rptids

def s2f35Effect (c : Config) (data : List LinkReq) : Config := data.foldl s2f35Entry c

/-! conditions under which E5 lets the equipment deny (evaluated on the configuration *before* the request) -/

def redefines (c : Config) (r : RptReq) : Prop := r.vids ≠ [] ∧ r.rptid ∈ c.reports.keys
def unknownVid (known : Id → Bool) (r : RptReq) : Prop := ∃ v ∈ r.vids, known v = false
def alreadyLinked (c : Config) (e : LinkReq) : Prop := ∃ rs en, c.links.lookup e.ceid = some (rs, en) ∧ ∃ r ∈ e.rptids, r ∈ rs
def unknownCeid (ceids : List Id) (e : LinkReq) : Prop := e.ceid ∉ ceids
def unknownRptid (c : Config) (e : LinkReq) : Prop := ∃ r ∈ e.rptids, r ∉ c.reports.keys

/-- referential integrity: every linked report is defined -/
def Integrity (c : Config) : Prop := ∀ e ∈ c.links, ∀ r ∈ e.2.1, r ∈ c.reports.keys

end SecsModel.Spec.EventReports
