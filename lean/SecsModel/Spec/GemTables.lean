import SecsModel.Model.GemTab
/-!
# Spec.GemTables — the reference the replies of S1F3/S1F11, S2F13/S2F15/S2F29, S5F3/S5F5/S5F7 and the S5F1 reports are held to

The tables are the ones of `Model.Gem.Tab.St`; what is *declared* here is the shape E5/E30 give the answers:

* a request with ids is answered **per requested id, in request order**, with the item's current value / names, and with
  an **empty item** (zero-length list, resp. empty names) for an id the equipment does not know; a request with no ids is
  answered with every table entry in table order;
* the *current value* of a status variable: its cell, or for the GEM-defined ones the clock in the selected time format,
  the control state, the enabled events, the enabled alarms, the set alarms;
* the *current value* of an equipment constant: the last value set (for EstablishCommunicationsTimeout / TimeFormat the
  integer actually in force);
* S2F15 is **all or nothing**: accepted iff every constant exists and every value lies within the limits the constant declares
  (a missing `min` or `max` is no limit on that side); then every value is
  stored, in message order;
* `set_alarm`/`clear_alarm` report (S5F1) **iff** the alarm's set state changes **and** the alarm is enabled at that moment;
  S5F5 lists the requested alarms, S5F7 the enabled ones, each with ALCD bit 8 = currently set.
-/
namespace SecsModel.Spec.GemTables
open SecsModel SecsModel.Model.Gem SecsModel.Model.Gem.Tab

def svCurrent (s : St) (sv : Sv) : Val := svValue s sv

def s1f3 (s : St) (ids : List Id) : List Val :=
  if ids = [] then s.svs.map (svCurrent s)
  else ids.map (fun i => match s.findSv i with | some sv => svCurrent s sv | none => Val.empty)

def s1f11 (s : St) (ids : List Id) : List (Id × String × String) :=
  if ids = [] then s.svs.map (fun sv => (sv.id, sv.name, sv.unit))
  else ids.map (fun i => match s.findSv i with | some sv => (sv.id, sv.name, sv.unit) | none => (i, "", ""))

/-- an integer-typed constant shows its integer, a float-typed one its value as a float -/
def ecCurrent (s : St) (ec : Ec) : Val :=
  match ecKind ec.id with
  | .ect => .nums [s.ect]
  | .timeFormat => .nums [s.timeFormat]
  | .plain =>
    if ec.intTyped then numVal ec.value
    else match ec.value with
      | .int n => .flt n 0
      | v => numVal v

def s2f13 (s : St) (ids : List Id) : List Val :=
  if ids = [] then s.ecs.map (ecCurrent s)
  else ids.map (fun i => match s.findEc i with | some ec => ecCurrent s ec | none => Val.empty)

def s2f29 (s : St) (ids : List Id) : List EcRow :=
  if ids = [] then s.ecs.map ecRow
  else ids.map (fun i => match s.findEc i with | some ec => ecRow ec | none => ⟨i, "", .text "", .text "", .text "", ""⟩)

def Num.finite : Num → Bool
  | .int _ => true
  | .flt _ => true
  | _ => false

/-- `int(x)` of a finite number -/
def trunc : Num → Int
  | .int n => n
  | .flt d => Int.tdiv d.num (2 ^ d.k)
  | _ => 0

/-- store one constant (only meaningful for a finite `x`; see `C13.s2f15_all_or_none` which also states finiteness) -/
def setOne (s : St) (i : Id) (x : Num) : St :=
  let ecs := updFirst (fun ec => ec.id = i) (fun ec => { ec with value := x }) s.ecs
  match ecKind i with
  | .ect => { s with ect := trunc x, ecs := ecs }
  | .timeFormat => { s with timeFormat := trunc x, ecs := ecs }
  | .plain => { s with ecs := ecs }

def numOf : Ecv → Num
  | .num x => x
  | .other => .nan

def applyAll (s : St) (req : List (Id × Ecv)) : St := req.foldl (fun s p => setOne s p.1 (numOf p.2)) s

/-- the acceptance condition of S2F15, evaluated on the state before the request -/
def acceptable (s : St) (p : Id × Ecv) : Prop :=
  ∃ ec x, s.findEc p.1 = some ec ∧ p.2 = .num x ∧ x.geO ec.min = true ∧ x.leO ec.max = true

/-- every constant lies within its declared limits -/
def InRange (s : St) : Prop := ∀ ec ∈ s.ecs, ec.value.geO ec.min = true ∧ ec.value.leO ec.max = true

/-- the expected S5F1 reports of a set / clear -/
def setReports (a : Alarm) (i : Id) : List AlarmRow := if !a.set && a.enabled then [⟨a.code ||| 128, i, a.text⟩] else []
def clearReports (a : Alarm) (i : Id) : List AlarmRow := if a.set && a.enabled then [⟨a.code, i, a.text⟩] else []

def s5f5 (s : St) (alids : List Id) : List (Option AlarmRow) :=
  (if alids = [] then s.alarms.map (·.id) else alids).map (fun i => (s.findAlarm i).map (alarmRow i))

end SecsModel.Spec.GemTables
