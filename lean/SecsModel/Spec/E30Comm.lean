/-!
# Spec.E30Comm — the E30 establish-communications model, as the property C07 uses it

My reading of SEMI E30 §3.2 (the standard's text is not in the sandbox; the table is reproduced here so that a reader can
disagree with it).  States and transition numbers of the E30 communication state diagram:

| E30 # | from | trigger | to | action |
|---|---|---|---|---|
| 2 / 4 | DISABLED | operator enables | ENABLED / NOT COMMUNICATING | |
| 3 | any ENABLED substate | operator disables | DISABLED | |
| 5 | NOT COMMUNICATING | (link available) | WAIT CRA | send S1F13, start the reply timer |
| 6 | WAIT CRA | reply timeout, COMMACK ≠ 0, abort | WAIT DELAY | start the establish-communications delay |
| 7 | WAIT DELAY | delay expired | WAIT CRA | send S1F13 |
| 8 | WAIT DELAY | message other than S1F13 received | WAIT CRA | send S1F13 |
| 9 | WAIT CRA | the expected S1F14 with COMMACK = 0 | COMMUNICATING | |
| 10 / 15 | WAIT CR FROM HOST, WAIT CRA, WAIT DELAY | S1F13 received, S1F14 with COMMACK = 0 sent | COMMUNICATING | |
| 14 | COMMUNICATING | communication failure | NOT COMMUNICATING | |

Besides the table this file fixes the *vocabulary of observation* (inputs, outputs, observed steps) and states clause 1 of
the property ("established only after a completed exchange with COMMACK 0 on the current link") over observed traces only —
no model state occurs in `Completes` / `Justified`.
-/
namespace SecsModel.Spec.E30Comm

/-- the states of `CommunicationState` (gem/communication_state_machine.py), E30 names -/
inductive Comm
  | disabled | enabled | notCommunicating | hostInitiatedConnect | waitCrFromHost
  | equipmentInitiatedConnect | waitDelay | waitCra | communicating
deriving DecidableEq, Repr, Inhabited

def Comm.all : List Comm :=
  [.disabled, .enabled, .notCommunicating, .hostInitiatedConnect, .waitCrFromHost, .equipmentInitiatedConnect,
   .waitDelay, .waitCra, .communicating]

def Comm.name : Comm → String
  | .disabled => "DISABLED" | .enabled => "ENABLED" | .notCommunicating => "NOT_COMMUNICATING"
  | .hostInitiatedConnect => "HOST_INITIATED_CONNECT" | .waitCrFromHost => "WAIT_CR_FROM_HOST"
  | .equipmentInitiatedConnect => "EQUIPMENT_INITIATED_CONNECT" | .waitDelay => "WAIT_DELAY"
  | .waitCra => "WAIT_CRA" | .communicating => "COMMUNICATING"

def Comm.ofName (s : String) : Option Comm := Comm.all.find? (fun c => c.name == s)

/-- the transitions the shipped machine names -/
inductive Trans
  | enable | disable | select | communicationreqfail | delayexpired | messagereceived
  | s1f14received | communicationfail | s1f13received
deriving DecidableEq, Repr, Inhabited

def Trans.all : List Trans :=
  [.enable, .disable, .select, .communicationreqfail, .delayexpired, .messagereceived, .s1f14received,
   .communicationfail, .s1f13received]

def Trans.name : Trans → String
  | .enable => "enable" | .disable => "disable" | .select => "select"
  | .communicationreqfail => "communicationreqfail" | .delayexpired => "delayexpired"
  | .messagereceived => "messagereceived" | .s1f14received => "s1f14received"
  | .communicationfail => "communicationfail" | .s1f13received => "s1f13received"

/-- the E30 table above: `allowed t c = some d` iff transition `t` may be taken in `c`, leading to `d` -/
def allowed : Trans → Comm → Option Comm
  | .enable, .disabled => some .notCommunicating                       -- 2 + 4
  | .disable, .disabled => none
  | .disable, _ => some .disabled                                      -- 3
  | .select, .notCommunicating => some .waitCra                        -- 5
  | .communicationreqfail, .waitCra => some .waitDelay                 -- 6
  | .delayexpired, .waitDelay => some .waitCra                         -- 7
  | .messagereceived, .waitDelay => some .waitCra                      -- 8
  | .s1f14received, .waitCra => some .communicating                    -- 9
  | .communicationfail, .communicating => some .notCommunicating       -- 14
  | .s1f13received, .waitCrFromHost => some .communicating             -- 10
  | .s1f13received, .waitDelay => some .communicating                  -- 15
  | .s1f13received, .waitCra => some .communicating                    -- 15
  | _, _ => none

/-- COMMUNICATING is entered only by transitions 9 and 10/15, left by 3 and 14 -/
theorem enters_communicating (t : Trans) (c : Comm) (h : allowed t c = some .communicating) :
    t = .s1f14received ∨ t = .s1f13received := by
  cases t <;> cases c <;> simp_all [allowed]

/-! ## Observations -/

/-- what happens to the handler.  `rx` is an inbound data message: stream, function, W-bit, system bytes and —
for an S1F14 — the COMMACK its body carries (`none`: the body cannot be decoded).  System bytes are abstract numbers:
the k-th S1F13 the handler creates carries the id `k`. -/
inductive Input
  | enable | disable
  | linkConnected        -- the transport connection is up (the protocol's receiver thread runs: frames are written)
  | linkSelected         -- the HSMS session is selected (the `communicating` event); connects first if there is no connection
  | linkLost             -- the connection is closed
  | rx (s f : Nat) (w : Bool) (sys : Nat) (commack : Option Nat)
  | t3Expired | delayExpired
deriving DecidableEq, Repr, Inhabited

/-- what the handler does that is visible from outside -/
inductive Output
  | txS1F13 (sys : Nat)                       -- an S1F13 written to the connection
  | txS1F14 (sys commack : Nat)               -- an S1F14 written to the connection
  | evtCommunicating                          -- the `handler_communicating` event
  | callback (s f : Nat)                      -- a stream/function callback invoked
  | unknown (s f : Nat) (w : Bool)            -- `_handle_unknown_functions` (no callback: S9F5 if W)
  | wrongSource (t : Trans)                   -- a transition attempt raised `WrongSourceStateError`
  | blocked                                   -- a send waits for a receiver thread that is not running (link down)
deriving DecidableEq, Repr, Inhabited

/-- one observed step -/
structure Obs where
  input : Input
  outputs : List Output
deriving DecidableEq, Repr

def s1f13Ids : List Output → List Nat
  | [] => []
  | .txS1F13 k :: os => k :: s1f13Ids os
  | _ :: os => s1f13Ids os

/-- the link as the trace shows it: connected, selected, and the ids of the S1F13 written on the current connection -/
structure Link where
  connected : Bool := false
  selected : Bool := false
  ids : List Nat := []
deriving DecidableEq, Repr

/-- effect of one observed step on the link -/
def obsStep (acc : Link) (o : Obs) : Link :=
  match o.input with
  | .linkConnected => if acc.connected then { acc with ids := acc.ids ++ s1f13Ids o.outputs } else ⟨true, false, s1f13Ids o.outputs⟩
  | .linkSelected => ⟨true, true, (if acc.connected then acc.ids else []) ++ s1f13Ids o.outputs⟩
  | .linkLost => ⟨false, false, []⟩
  | _ => { acc with ids := if acc.connected then acc.ids ++ s1f13Ids o.outputs else acc.ids }

def linkState (tr : List Obs) : Link := tr.foldl obsStep {}

/-- a connection exists after the trace -/
def isConn (tr : List Obs) : Bool := (linkState tr).connected
/-- the link is selected after the trace -/
def isUp (tr : List Obs) : Bool := (linkState tr).selected
/-- ids of the S1F13 written on the current connection (empty while there is none) -/
def onLink (tr : List Obs) : List Nat := (linkState tr).ids

/-- `o`, observed after `before`, completes an S1F13/S1F14 exchange with COMMACK = 0 on the current link:
either an inbound S1F13 was answered with S1F14/COMMACK 0, or an S1F14 with COMMACK 0 arrived whose system bytes are those
of an S1F13 written on the current connection (`strict`; without `strict` the system bytes are not looked at — the shipped code). -/
def Completes (strict : Bool) (before : List Obs) (o : Obs) : Prop :=
  (∃ w sys c, o.input = .rx 1 13 w sys c ∧ Output.txS1F14 sys 0 ∈ o.outputs) ∨
  (∃ w sys, o.input = .rx 1 14 w sys (some 0) ∧ (strict = true → sys ∈ onLink before))

/-- clause 1 of C07 for a trace that ends established -/
def Justified (strict : Bool) (tr : List Obs) : Prop :=
  ∃ tr₁ e tr₂, tr = tr₁ ++ e :: tr₂ ∧ isUp tr₁ = true ∧ Completes strict tr₁ e ∧
    ∀ x ∈ tr₂, x.input ≠ .linkLost ∧ x.input ≠ .disable

end SecsModel.Spec.E30Comm
