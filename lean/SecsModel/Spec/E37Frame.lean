import SecsModel.Basic.Bytes
/-!
# Spec.E37Frame — the HSMS message frame of SEMI E37 §8.2 (my reading; reproduced so that it can be disputed)

```
byte 0..3    message length  (4-byte unsigned, big endian) = 10 + length of the message text, NOT counting these four bytes
byte 4..5    session id      (16 bit; for data messages bit 15 = 0 and bits 14..0 = device id; 0xFFFF for control messages)
byte 6       header byte 2   W-bit (bit 7) | stream (bits 6..0)         (for control messages: 0 or, in Reject.req, the rejected SType)
byte 7       header byte 3   function                                    (for control messages: 0 or a status / reason code)
byte 8       PType           0 = SECS-II encoding
byte 9       SType           0 data, 1 Select.req, 2 Select.rsp, 3 Deselect.req, 4 Deselect.rsp, 5 Linktest.req, 6 Linktest.rsp, 7 Reject.req, 9 Separate.req
byte 10..13  system bytes    (4-byte unsigned, big endian)
byte 14..    message text    (SECS-II item, may be empty)
```
No Mathlib import: this file is part of the executable model.
-/
namespace SecsModel.Spec.E37

/-- the seven header fields of an HSMS message as natural numbers -/
structure Hdr where
  session : Nat
  w : Bool
  stream : Nat
  function : Nat
  ptype : Nat
  stype : Nat
  system : Nat
deriving DecidableEq, Repr

/-- the STypes E37 defines (8 and 10..255 are not used / reserved) -/
def stypes : List Nat := [0, 1, 2, 3, 4, 5, 6, 7, 9]

/-- field ranges: 16-bit session id, 7-bit stream, 8-bit function, 8-bit PType, a defined SType, 32-bit system bytes -/
structure Hdr.InRange (h : Hdr) : Prop where
  session : h.session < 2^16
  stream : h.stream < 2^7
  function : h.function < 2^8
  ptype : h.ptype < 2^8
  stype : h.stype ∈ stypes
  system : h.system < 2^32

instance (h : Hdr) : Decidable h.InRange :=
  if c : h.session < 2^16 ∧ h.stream < 2^7 ∧ h.function < 2^8 ∧ h.ptype < 2^8 ∧ h.stype ∈ stypes ∧ h.system < 2^32
  then isTrue ⟨c.1, c.2.1, c.2.2.1, c.2.2.2.1, c.2.2.2.2.1, c.2.2.2.2.2⟩
  else isFalse (fun r => c ⟨r.session, r.stream, r.function, r.ptype, r.stype, r.system⟩)

/-- the ten header bytes -/
def headerBytes (h : Hdr) : Bytes :=
  be 2 h.session ++ be 1 (h.stream + (if h.w then 128 else 0)) ++ be 1 h.function ++ be 1 h.ptype ++ be 1 h.stype ++ be 4 h.system

/-- the whole frame: length field, header, message text -/
def frame (h : Hdr) (body : Bytes) : Bytes :=
  be 4 (10 + body.length) ++ headerBytes h ++ body

/-- the largest message text a frame can announce -/
def maxBody : Nat := 2^32 - 1 - 10

theorem headerBytes_length (h : Hdr) : (headerBytes h).length = 10 := by
  simp [headerBytes]

theorem frame_length (h : Hdr) (body : Bytes) : (frame h body).length = 14 + body.length := by
  simp [frame, headerBytes_length]; omega

end SecsModel.Spec.E37
