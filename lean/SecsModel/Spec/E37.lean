/-!
# Spec.E37 — the HSMS connection / selection state model (reading of SEMI E37 §6, table of DESIGN.md C05)

Nothing here comes from the Python source.  The table is reproduced in DESIGN.md §5 "C05" so that a reader can dispute it.

| # | state | trigger | new state | required output |
|---|---|---|---|---|
| 2 | NOT CONNECTED | TCP connection established | NOT SELECTED | – |
| 3 | NOT SELECTED / SELECTED | TCP connection broken / local disable | NOT CONNECTED | (Separate.req before a local close) |
| 4a | NOT SELECTED | Select.req received | SELECTED | Select.rsp, same system bytes |
| 4b | NOT SELECTED | Select.rsp status 0 for an open Select.req | SELECTED | – |
| – | any | Select.rsp unsolicited or status ≠ 0 | unchanged | – |
| – | SELECTED | Select.req received | SELECTED | Select.rsp, same system bytes |
| 5a | SELECTED | Deselect.req received | NOT SELECTED | Deselect.rsp, same system bytes |
| 5a' | SELECTED | Deselect.rsp status 0 for an open Deselect.req | NOT SELECTED | – |
| – | any | Deselect.rsp unsolicited or status ≠ 0 | unchanged | – |
| 5b | SELECTED | Separate.req received | NOT SELECTED (E37; E37.1 then closes the connection) | – |
| – | NOT SELECTED / SELECTED | Linktest.req | unchanged | Linktest.rsp, same system bytes |
| – | while the endpoint is closing | Select/Deselect/Linktest.req | unchanged | Reject.req (same system bytes) |
| – | NOT SELECTED | data message | unchanged | Reject.req(reason 4, same system bytes); not delivered |
| – | SELECTED | well-formed data message | unchanged | delivered |

Timers.  E37 treats the expiry of T6 (control transaction), T7 (NOT SELECTED) and T8 (inter-character) as a communication failure: the
connection is closed (NOT CONNECTED).  Timers are not triggers of the alphabet property C05 quantifies over, so `next` has no rows for
them (the model's timer inputs map to `Trigger.other`); T7 is a transition of the engine table that nothing performs.  What the code does
with each timer is stated in `Props/C05.lean` (`C05_timers_in_code`, `C05_timers_keep_state`).  An unsolicited response control message is
to be answered with Reject.req (reason 3, transaction not open) per E37; C05 makes no statement about it (`C05_unsolicited_rsp_silent`).
-/
namespace SecsModel.Spec.E37

/-- the three session states of E37 -/
inductive Conn
  | notConnected | notSelected | selected
deriving DecidableEq, Repr, Inhabited

/-- what can happen to a session, with everything the table needs to decide already resolved:
`solicited` = the system bytes belong to an open request of the matching kind sent by this endpoint; `status` = byte 3. -/
inductive Trigger
  | tcpUp                                   -- TCP connection established
  | tcpDown                                 -- TCP connection broken, or closed locally
  | selectReq | deselectReq | linktestReq | separateReq
  | selectRsp (solicited : Bool) (status : Int)
  | deselectRsp (solicited : Bool) (status : Int)
  | other                                   -- Linktest.rsp, Reject.req, data messages, local requests, timers: no state change
deriving DecidableEq, Repr

/-- the session table as a function; `closing` = the endpoint has begun to close the connection -/
def next (c : Conn) (closing : Bool) : Trigger → Conn
  | .tcpUp => if c = .notConnected then .notSelected else c
  | .tcpDown => .notConnected
  | .selectReq => if c = .notSelected ∧ closing = false then .selected else c
  | .selectRsp solicited status => if c = .notSelected ∧ solicited = true ∧ status = 0 then .selected else c
  | .deselectReq => if c = .selected ∧ closing = false then .notSelected else c
  | .deselectRsp solicited status => if c = .selected ∧ solicited = true ∧ status = 0 then .notSelected else c
  | .separateReq => if c = .selected then .notSelected else c
  | .linktestReq => c
  | .other => c

/-- E37 SType codes (header byte 5) -/
def sTypeCodes : List (String × Int) :=
  [("DATA_MESSAGE", 0), ("SELECT_REQ", 1), ("SELECT_RSP", 2), ("DESELECT_REQ", 3), ("DESELECT_RSP", 4),
   ("LINKTEST_REQ", 5), ("LINKTEST_RSP", 6), ("REJECT_REQ", 7), ("SEPARATE_REQ", 9)]

/-- E37 Reject.req reason code "entity not selected" -/
def rejectNotSelected : Nat := 4

/-- The engine table of the E37 connection state diagram (transitions 2–6; 1 is the initial state):
states `(name, enum value, parent, initial)`, transitions `(name, sources, destination)`, initial state, and the
public method that performs each transition used by the protocol layer. -/
def engineStates : List (String × Int × Option String × Bool) :=
  [("NOT_CONNECTED", 0, none, true),
   ("CONNECTED", 1, none, false),
   ("CONNECTED_NOT_SELECTED", 2, some "CONNECTED", false),
   ("CONNECTED_SELECTED", 3, some "CONNECTED", false)]

def engineTransitions : List (String × List String × String) :=
  [("connect", ["NOT_CONNECTED"], "CONNECTED_NOT_SELECTED"),                                   -- 2
   ("disconnect", ["CONNECTED_NOT_SELECTED", "CONNECTED_SELECTED"], "NOT_CONNECTED"),          -- 3
   ("select", ["CONNECTED_NOT_SELECTED"], "CONNECTED_SELECTED"),                               -- 4
   ("deselect", ["CONNECTED_SELECTED"], "CONNECTED_NOT_SELECTED"),                             -- 5
   ("timeoutT7", ["CONNECTED_NOT_SELECTED"], "NOT_CONNECTED")]                                 -- 6

def engineInitial : String := "NOT_CONNECTED"

def engineMethods : List (String × String) :=
  [("connect", "connect"), ("disconnect", "disconnect"), ("select", "select"), ("deselect", "deselect")]

/-- control-message header constructors: (class, [device_id, byte 2, byte 3, W, PType, SType]) — session id 0xFFFF,
bytes 2/3 zero except Reject.req (byte 2 = SType of the rejected message, byte 3 = reason) -/
def headerCtors : List (String × List String) :=
  [("HsmsDeselectReqHeader", ["65535", "0", "0", "False", "0", "3"]),
   ("HsmsDeselectRspHeader", ["65535", "0", "0", "False", "0", "4"]),
   ("HsmsLinktestReqHeader", ["65535", "0", "0", "False", "0", "5"]),
   ("HsmsLinktestRspHeader", ["65535", "0", "0", "False", "0", "6"]),
   ("HsmsRejectReqHeader", ["65535", "s_type.value", "reason", "False", "0", "7"]),
   ("HsmsSelectReqHeader", ["65535", "0", "0", "False", "0", "1"]),
   ("HsmsSelectRspHeader", ["65535", "0", "0", "False", "0", "2"]),
   ("HsmsSeparateReqHeader", ["65535", "0", "0", "False", "0", "9"]),
   ("HsmsStreamFunctionHeader", ["device_id", "stream", "function", "require_response", "0", "0"])]

end SecsModel.Spec.E37
