/-!
# Spec.E30 — the SEMI E30 (GEM) control state model, as a table

Written from the standard's control-state diagram and transition table (E30 §"Control State Model"; the standard's text is
not in the sandbox — this is my reading, reproduced here so that a reader can disagree with it).  No reference to secsgem.

States: EQUIPMENT OFF-LINE, ATTEMPT ON-LINE, HOST OFF-LINE (sub-states of OFF-LINE); LOCAL, REMOTE (sub-states of ON-LINE).

| #  | from               | trigger                                             | to                          | collection event            |
|----|--------------------|-----------------------------------------------------|-----------------------------|-----------------------------|
| 1  | (entry)            | system initialisation                               | OFF-LINE or ON-LINE (config)| —                           |
| 2  | (entry to OFF-LINE)| —                                                   | configured OFF-LINE substate| —                           |
| 3  | EQUIPMENT OFF-LINE | operator actuates ON-LINE switch                    | ATTEMPT ON-LINE (sends S1F1)| —                           |
| 4  | ATTEMPT ON-LINE    | S1F0, reply timeout or communication failure        | configured: EQUIPMENT OFF-LINE or HOST OFF-LINE | —       |
| 5  | ATTEMPT ON-LINE    | S1F2 received                                       | ON-LINE                     | (see 7)                     |
| 6  | ON-LINE            | operator actuates OFF-LINE switch                   | EQUIPMENT OFF-LINE          | equipment OFF-LINE          |
| 7  | (entry to ON-LINE) | —                                                   | LOCAL or REMOTE as the front-panel switch says | control state LOCAL / REMOTE |
| 8  | LOCAL              | operator sets the switch to REMOTE                  | REMOTE                      | control state REMOTE        |
| 9  | REMOTE             | operator sets the switch to LOCAL                   | LOCAL                       | control state LOCAL         |
| 10 | ON-LINE            | S1F15 accepted                                      | HOST OFF-LINE               | equipment OFF-LINE          |
| 11 | HOST OFF-LINE      | S1F17 accepted                                      | ON-LINE                     | (see 7)                     |
| 12 | HOST OFF-LINE      | operator actuates OFF-LINE switch                   | EQUIPMENT OFF-LINE          | equipment OFF-LINE          |

Acknowledge codes.  S1F16 OFLACK: 0 = OFF-LINE acknowledge (the only value).  S1F18 ONLACK: 0 = ON-LINE accepted (the request
arrived in HOST OFF-LINE), 1 = ON-LINE not allowed (EQUIPMENT OFF-LINE, ATTEMPT ON-LINE), 2 = equipment already ON-LINE.
Status variable "control state": 1 = EQUIPMENT OFF-LINE, 2 = ATTEMPT ON-LINE, 3 = HOST OFF-LINE, 4 = ON-LINE/LOCAL, 5 = ON-LINE/REMOTE.

A trigger with no row leaves the state unchanged and reports no event.  The position of the LOCAL/REMOTE switch changes only by
transitions 8 and 9 (what an operator LOCAL/REMOTE action does while OFF-LINE is left to the equipment by E30; DESIGN §5 C11
accepts "nothing").  An S1F15 that arrives while already OFF-LINE is answered OFLACK 0 and changes nothing (DESIGN §5 C11).
-/
namespace SecsModel.Spec.E30

inductive S
  | equipmentOffline | attemptOnline | hostOffline | onlineLocal | onlineRemote
deriving DecidableEq, Repr

inductive Trig
  | opOnline | opOffline | opLocal | opRemote   -- operator switches
  | s1f15 | s1f17                               -- host requests
  | probeOk | probeFail                         -- outcome of the S1F1 sent in ATTEMPT ON-LINE
deriving DecidableEq, Repr

inductive Tgt
  | to (s : S)
  | online          -- ON-LINE; the sub-state is chosen by transition 7
deriving DecidableEq, Repr

inductive CE
  | equipmentOffline | controlLocal | controlRemote
deriving DecidableEq, Repr

structure Row where
  num : Nat
  src : S
  trig : Trig
  tgt : Tgt
  ev : Option CE
deriving DecidableEq, Repr

/-- transitions 3–6, 8–12 (`failTo` = the configured target of transition 4) -/
def table (failTo : S) : List Row := [
  ⟨3, .equipmentOffline, .opOnline, .to .attemptOnline, none⟩,
  ⟨4, .attemptOnline, .probeFail, .to failTo, none⟩,
  ⟨5, .attemptOnline, .probeOk, .online, none⟩,
  ⟨6, .onlineLocal, .opOffline, .to .equipmentOffline, some .equipmentOffline⟩,
  ⟨6, .onlineRemote, .opOffline, .to .equipmentOffline, some .equipmentOffline⟩,
  ⟨8, .onlineLocal, .opRemote, .to .onlineRemote, some .controlRemote⟩,
  ⟨9, .onlineRemote, .opLocal, .to .onlineLocal, some .controlLocal⟩,
  ⟨10, .onlineLocal, .s1f15, .to .hostOffline, some .equipmentOffline⟩,
  ⟨10, .onlineRemote, .s1f15, .to .hostOffline, some .equipmentOffline⟩,
  ⟨11, .hostOffline, .s1f17, .online, none⟩,
  ⟨12, .hostOffline, .opOffline, .to .equipmentOffline, some .equipmentOffline⟩]

/-- state of the model: the control state and the position of the LOCAL/REMOTE switch -/
structure SState where
  st : S
  remote : Bool
deriving DecidableEq, Repr

inductive Out
  | ack (n : Int)
  | event (e : CE)
deriving DecidableEq, Repr

def isOnline : S → Bool
  | .onlineLocal | .onlineRemote => true
  | _ => false

/-- S1F16 OFLACK -/
def oflack (_ : S) : Int := 0

/-- S1F18 ONLACK for a request arriving in state `s` -/
def onlack (s : S) : Int :=
  match s with
  | .hostOffline => 0
  | .onlineLocal | .onlineRemote => 2
  | .equipmentOffline | .attemptOnline => 1

/-- transition 7 -/
def enterOnline (remote : Bool) : S × CE := if remote then (.onlineRemote, .controlRemote) else (.onlineLocal, .controlLocal)

def step (failTo : S) (s : SState) (t : Trig) : SState × List Out :=
  let acks : List Out := match t with
    | .s1f15 => [.ack (oflack s.st)]
    | .s1f17 => [.ack (onlack s.st)]
    | _ => []
  match (table failTo).find? (fun r => r.src == s.st && r.trig == t) with
  | none => (s, acks)
  | some r =>
    let evs : List Out := match r.ev with | some e => [.event e] | none => []
    match r.tgt with
    | .to s' =>
      -- transitions 8/9 are the switch being moved
      let remote' := match r.num with | 8 => true | 9 => false | _ => s.remote
      (⟨s', remote'⟩, evs ++ acks)
    | .online =>
      let e := enterOnline s.remote
      (⟨e.1, s.remote⟩, evs ++ [.event e.2] ++ acks)

def run (failTo : S) (s : SState) : List Trig → SState × List (List Out)
  | [] => (s, [])
  | t :: rest =>
    let r := step failTo s t
    let rr := run failTo r.1 rest
    (rr.1, r.2 :: rr.2)

/-- transitions 1, 2 (and 7): the state after initialisation for a configured default -/
inductive Default
  | equipmentOffline | attemptOnline | hostOffline | online
deriving DecidableEq, Repr

def initial (d : Default) (remote : Bool) : SState × List Out :=
  match d with
  | .equipmentOffline => (⟨.equipmentOffline, remote⟩, [])
  | .attemptOnline => (⟨.attemptOnline, remote⟩, [])
  | .hostOffline => (⟨.hostOffline, remote⟩, [])
  | .online => let e := enterOnline remote; (⟨e.1, remote⟩, [.event e.2])

/-- the control-state status variable -/
def svValue : S → Int
  | .equipmentOffline => 1 | .attemptOnline => 2 | .hostOffline => 3 | .onlineLocal => 4 | .onlineRemote => 5

/-- collection event ids are equipment-defined in E30; these are the three names -/
def allStates : List S := [.equipmentOffline, .attemptOnline, .hostOffline, .onlineLocal, .onlineRemote]

end SecsModel.Spec.E30
