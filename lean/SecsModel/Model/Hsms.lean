import SecsModel.Basic.Py
import SecsModel.Gen.Machines
import SecsModel.Gen.HsmsHeader
import SecsModel.Gen.HsmsProto
import SecsModel.Gen.Misc
import SecsModel.Spec.E37
/-!
# Model.Hsms — the HSMS session layer (`secsgem/hsms/protocol.py`) as a step function over inputs

Hand model, statement by statement, of
`HsmsProtocol._on_connected/_on_disconnecting/_on_disconnected`, `_on_connection_message_received`,
`__handle_hsms_requests` and its five handlers, `send_*_req/rsp`, `Protocol._dispatch_block` (where a handler's exception is
swallowed) — on top of three *generated* inputs: the transition table / public methods of `ConnectionStateMachine`
(`Gen.ConnSM`), the statement order of the three connection-event handlers and the state-event wiring
(`Gen.HsmsProto`), the SType codes (`Gen.HsmsSType`).

The connection layer below the protocol (`TcpConnection`) is the boundary: its events are inputs.
`connect` = `on_connected`; `peerClose` = `on_disconnecting; on_disconnected` with `disconnecting = False`;
`disableBegin` = `disconnect()` setting `_disconnecting = True`; `disableEnd` = the receiver thread of the connection
running the close sequence (`on_disconnecting; on_disconnected`) and `disconnect()` clearing the flag.
Frames arrive only while the connection is up (bytes that arrive between accept and `_on_connected` are the subject of
`Model.Hsms.Race`); a data block received earlier and still queued for dispatch is the input `rxDataQueued`.

`Defects` selects the variant: `Defects.none` is the code as it is; `Defects.preFix` is the code before the fix: commits 812b685 (F-4:
any Select.rsp / Deselect.rsp performed the transition) and bfe991b (F-5: Separate.req was not handled) — kept so that a revert of
either fix is recognised (the harness replays the two witnesses on every run) and provably deviates from E37.

Timers.  T6 bounds the wait of `send_select_req/deselect_req/linktest_req` (input `timeoutT6`: the requester gives up, nothing else
happens); the periodic linktest timer is the input `linktestTimer` with the pending timers counted in the state; T7 and T8 are settings
that nothing reads and `timeoutT7` is a transition nothing performs (`Gen.HsmsProto.timeoutRefs`, `t7Performers`); T5 belongs to the
TCP client connection.
-/
namespace SecsModel.Model.Hsms
open SecsModel
open SecsModel.Spec.E37 (Conn)

/-! ## the state-machine engine on a flat table (all C05 needs: no ConnectionStateMachine handler requests a transition) -/

/-- `StateMachine._perform_transition(name)` on a transition table: lookup (`UnknownTransitionError`), source check
(`WrongSourceStateError`), else the destination becomes current. -/
def smStep (tbl : List (String × List String × String)) (cur name : String) : Except Err String :=
  match tbl.find? (fun t => t.1 == name) with
  | none => .error .unknownTransition
  | some (_, srcs, dst) => if srcs.contains cur then .ok dst else .error .wrongSource

def connName : Conn → String
  | .notConnected => "NOT_CONNECTED"
  | .notSelected => "CONNECTED_NOT_SELECTED"
  | .selected => "CONNECTED_SELECTED"

def connOfName (n : String) : Option Conn :=
  if n == "NOT_CONNECTED" then some .notConnected
  else if n == "CONNECTED_NOT_SELECTED" then some .notSelected
  else if n == "CONNECTED_SELECTED" then some .selected
  else none

/-- `self._connection_state.<method>()` of the generated `ConnectionStateMachine` -/
def smCall (c : Conn) (method : String) : Except Err Conn :=
  match Gen.ConnSM.methods.lookup method with
  | none => .error .other                       -- AttributeError
  | some t =>
    match smStep Gen.ConnSM.transitions (connName c) t with
    | .error e => .error e
    | .ok d => match connOfName d with
      | some c' => .ok c'
      | none => .error .other                   -- a destination that is not one of the three leaf states

def parentOf (n : String) : Option String :=
  match Gen.ConnSM.states.find? (fun s => s.1 == n) with
  | some (_, _, p, _) => p
  | none => none

/-- does the handler `h` registered (in `HsmsProtocol.__init__`) on `state.event` exist -/
def wired (state event handler : String) : Bool := Gen.HsmsProto.wiring.contains (state, event, handler)

/-- `State.enter(source)` climbs to the parent iff the source is outside it: the transition `c → c'` fires `CONNECTED.enter` -/
def entersConnected (c c' : Conn) : Bool :=
  parentOf (connName c') == some "CONNECTED" && parentOf (connName c) != some "CONNECTED" && wired "CONNECTED" "enter" "_on_state_connect"

/-- `State.leave(destination)` climbs to the parent iff the destination is outside it: the transition `c → c'` fires `CONNECTED.leave` -/
def leavesConnected (c c' : Conn) : Bool :=
  parentOf (connName c) == some "CONNECTED" && parentOf (connName c') != some "CONNECTED" && wired "CONNECTED" "leave" "_on_state_disconnect"

/-- the destination's own `enter` event: `_on_state_select` fires "communicating" -/
def entersSelected (c' : Conn) : Bool :=
  c' == .selected && wired "CONNECTED_SELECTED" "enter" "_on_state_select"

/-! ## inputs, outputs, state -/

/-- control message types (`HsmsSType` minus `DATA_MESSAGE`) -/
inductive SType
  | selectReq | selectRsp | deselectReq | deselectRsp | linktestReq | linktestRsp | rejectReq | separateReq
deriving DecidableEq, Repr

/-- header byte 5, from the generated enum -/
def SType.code : SType → Int
  | .selectReq => Gen.HsmsSType.SELECT_REQ
  | .selectRsp => Gen.HsmsSType.SELECT_RSP
  | .deselectReq => Gen.HsmsSType.DESELECT_REQ
  | .deselectRsp => Gen.HsmsSType.DESELECT_RSP
  | .linktestReq => Gen.HsmsSType.LINKTEST_REQ
  | .linktestRsp => Gen.HsmsSType.LINKTEST_RSP
  | .rejectReq => Gen.HsmsSType.REJECT_REQ
  | .separateReq => Gen.HsmsSType.SEPARATE_REQ

/-- kind of a request this endpoint has sent and is waiting on (ghost information: `_response_queues` is keyed by system only) -/
inductive Req
  | select | deselect | linktest
  | ltimer        -- a Linktest.req sent by `_on_linktest_timer` (its requester re-arms the timer when the wait ends)
deriving DecidableEq, Repr

inductive In
  | connect | peerClose | disableBegin | disableEnd
  | rxCtrl (st : SType) (sys : Int) (status : Int)                          -- status = header byte 3
  | rxData (stream function : Int) (w : Bool) (sys : Int) (decodable : Bool) -- decodable = catalogued and body decodes
  | rxDataQueued (stream function : Int) (w : Bool) (sys : Int) (decodable : Bool)
      -- a data block that was already in the dispatch queue (behind a busy handler) is dispatched NOW, whatever has happened to the
      -- connection since it was received: the dispatcher thread is not stopped by a close, so this also happens while NOT CONNECTED
  | apiSelect | apiDeselect | apiLinktest                                     -- `send_select_req()` … called by the application / the select thread
  | timeoutT6 (sys : Int)                                                     -- the requester waiting on `sys` gives up
  | linktestTimer                                                             -- a pending linktest timer fires: `_on_linktest_timer`
deriving DecidableEq, Repr

inductive Out
  | tx (stype : Int) (sys : Int) (b2 b3 : Int)     -- a frame written to the connection: SType, system bytes, header bytes 2 and 3
  | txBlocked (stype : Int) (sys : Int) (b2 b3 : Int)  -- a frame put into the send queue while no receiver thread runs (NOT CONNECTED):
                                                    -- nothing is written, the sending (dispatcher) thread blocks in `send_message`
  | deliverApp (sys : Int)                          -- `message_received` event
  | deliverWaiter (sys : Int)                       -- put on the response queue of the requester waiting on `sys`
  | evt (name : String)                             -- `connected` / `disconnected` / `communicating` event
  | swallowed (e : Err)                             -- exception out of a handler, logged and dropped by `_dispatch_block` / the connection
deriving DecidableEq, Repr

/-- which recorded deviations the variant has -/
structure Defects where
  selectRspUnchecked : Bool
  separateIgnored : Bool
deriving DecidableEq, Repr

/-- the code as it is (since the fix: commits bfe991b and 812b685) -/
def Defects.none : Defects := ⟨false, false⟩
/-- the code before those two commits: any Select.rsp / Deselect.rsp performs the transition, Separate.req is not handled -/
def Defects.preFix : Defects := ⟨true, true⟩

structure St where
  conn : Conn
  disconnecting : Bool             -- `Connection.disconnecting`
  active : Bool                    -- `settings.is_active`
  ctr : Int                        -- `_system_counter`
  opn : List (Int × Req)           -- `_response_queues` keys (+ ghost kind), in insertion order
  ltStored : Bool                  -- the timer object in `self._linktest_timer` is pending (started, not fired, not cancelled)
  ltOrphans : Nat                  -- pending linktest timers no attribute refers to any more (see `startTimer`)
deriving DecidableEq, Repr

def St.init (active : Bool) (ctr : Int) : St := ⟨.notConnected, false, active, ctr, [], false, 0⟩

/-- `_start_linktest_timer`: a new `threading.Timer` is stored in `self._linktest_timer` and started; a pending one it replaces is
NOT cancelled — it goes on as an orphan -/
def startTimer (s : St) : St :=
  { s with ltOrphans := s.ltOrphans + (if s.ltStored then 1 else 0), ltStored := true }

/-- `_on_state_disconnect`: `if self._linktest_timer: self._linktest_timer.cancel()`; `self._linktest_timer = None` -/
def cancelTimer (s : St) : St := { s with ltStored := false }

def isOpen (s : St) (sys : Int) : Bool := s.opn.any (fun e => e.1 == sys)
def isOpenKind (s : St) (sys : Int) (k : Req) : Bool := s.opn.contains (sys, k)
/-- the requester waiting on `sys` stops waiting (it was handed a message, or T6 expired) and removes its queue; if it is
`_on_linktest_timer` it then calls `_start_linktest_timer()` — whether or not the connection still exists -/
def closeSys (s : St) (sys : Int) : St :=
  let s' := { s with opn := s.opn.filter (fun e => e.1 != sys) }
  if s.opn.contains (sys, .ltimer) then startTimer s' else s'

/-- `get_next_system_counter` (generated) -/
def nextCtr (c : Int) : Int :=
  match Gen.Misc.getNextSystemCounter c with
  | .ok (id, _) => id
  | .error _ => c

def Req.stype : Req → SType
  | .select => .selectReq | .deselect => .deselectReq | .linktest => .linktestReq | .ltimer => .linktestReq

/-- `send_select_req / send_deselect_req / send_linktest_req` up to the blocking `response_queue.get` -/
def sendReq (s : St) (k : Req) : St × List Out :=
  let id := nextCtr s.ctr
  ({ s with ctr := id, opn := (s.opn.filter (fun e => e.1 != id)) ++ [(id, k)] }, [.tx k.stype.code id 0 0])

/-- put on the waiting requester's queue if there is one (`if message.header.system in self._response_queues`);
the requester wakes up and removes its queue -/
def putIfOpen (s : St) (sys : Int) : St × List Out :=
  if isOpen s sys then (closeSys s sys, [.deliverWaiter sys]) else (s, [])

/-- effects of a successful transition `c → c'`: the wired leave / enter handlers -/
def afterTransition (s : St) (c' : Conn) : St × List Out :=
  let s0 := if leavesConnected s.conn c' then cancelTimer s else s                                 -- `_on_state_disconnect`
  let s1 := { s0 with conn := c' }
  let s1 := if entersConnected s.conn c' then startTimer s1 else s1                                -- `_on_state_connect`: linktest timer,
  let (s2, o2) := if entersConnected s.conn c' && s.active then sendReq s1 .select else (s1, [])   --   then the select thread
  (s2, o2 ++ (if entersSelected c' then [.evt "communicating"] else []))                           -- `_on_state_select`

/-! ## the connection-event handlers, executed from their generated statement lists -/

inductive Stmt
  | setConnected | sm (method : String) | threadStart | threadStop | bufferClear | fire (name : String) | sendSeparate | unknown
deriving DecidableEq, Repr

def parseStmt (s : String) : Stmt :=
  match s.toList with
  | 's' :: 'm' :: '.' :: m => .sm (String.ofList m)
  | 'f' :: 'i' :: 'r' :: 'e' :: ' ' :: n => .fire (String.ofList n)
  | _ =>
    if s == "set_connected 1" || s == "set_connected 0" then .setConnected
    else if s == "thread.start" then .threadStart
    else if s == "thread.stop" then .threadStop
    else if s == "receive_buffer.clear" then .bufferClear
    else if s == "send_separate_req" then .sendSeparate
    else .unknown

/-- run a handler body; an exception (from a transition) ends it and is logged by the connection layer -/
def execParsed : List Stmt → St → List Out → St × List Out
  | [], s, o => (s, o)
  | st :: rest, s, o =>
    match st with
    | .sm m =>
      match smCall s.conn m with
      | .ok c' => let (s', o') := afterTransition s c'; execParsed rest s' (o ++ o')
      | .error e => (s, o ++ [.swallowed e])
    | .fire n => execParsed rest s (o ++ [.evt n])
    | .sendSeparate =>
      let id := nextCtr s.ctr                       -- `send_separate_req`: no response queue
      execParsed rest { s with ctr := id } (o ++ [.tx SType.separateReq.code id 0 0])
    | .setConnected | .threadStart | .threadStop | .bufferClear => execParsed rest s o
    | .unknown => (s, o ++ [.swallowed .other])

def execStmts (ps : List String) (s : St) (o : List Out) : St × List Out := execParsed (ps.map parseStmt) s o

/-- `on_disconnecting` then `on_disconnected`, then the connection clears its flag -/
def closeSeq (s : St) : St × List Out :=
  let (s1, o1) := execStmts Gen.HsmsProto.onDisconnecting s []
  let (s2, o2) := execStmts Gen.HsmsProto.onDisconnected s1 o1
  ({ s2 with disconnecting := false }, o2)

/-! ## received messages -/

/-- a transition requested from inside a message handler: on success the handler goes on (`k`), an exception leaves the handler
and is swallowed by `_dispatch_block` -/
def withTransition (s : St) (pre : List Out) (method : String) (k : St → St × List Out) : St × List Out :=
  match smCall s.conn method with
  | .ok c' =>
    let (s1, o1) := afterTransition s c'
    let (s2, o2) := k s1
    (s2, pre ++ o1 ++ o2)
  | .error e => (s, pre ++ [.swallowed e])

/-- `send_reject_rsp(message.header.system, message.header.s_type, 4)` -/
def reject (sys : Int) (stypeCode : Int) : Out := .tx SType.rejectReq.code sys stypeCode 4

/-- `__handle_hsms_requests` -/
def handleCtrl (d : Defects) (s : St) (st : SType) (sys status : Int) : St × List Out :=
  match st with
  | .selectReq =>
    if s.disconnecting then (s, [reject sys st.code])
    else withTransition s [.tx SType.selectRsp.code sys 0 0] "select" (fun s' => (s', []))
  | .selectRsp =>
    if d.selectRspUnchecked then
      withTransition s [] "select" (fun s' => putIfOpen s' sys)
    else if isOpenKind s sys .select then
      (if status = 0 then withTransition s [] "select" (fun s' => putIfOpen s' sys) else putIfOpen s sys)
    else (s, [])
  | .deselectReq =>
    if s.disconnecting then (s, [reject sys st.code])
    else withTransition s [.tx SType.deselectRsp.code sys 0 0] "deselect" (fun s' => (s', []))
  | .deselectRsp =>
    if d.selectRspUnchecked then
      withTransition s [] "deselect" (fun s' => putIfOpen s' sys)
    else if isOpenKind s sys .deselect then
      (if status = 0 then withTransition s [] "deselect" (fun s' => putIfOpen s' sys) else putIfOpen s sys)
    else (s, [])
  | .linktestReq =>
    if s.disconnecting then (s, [reject sys st.code]) else (s, [.tx SType.linktestRsp.code sys 0 0])
  | .separateReq =>
    if d.separateIgnored then putIfOpen s sys
    else if s.conn = .selected then withTransition s [] "deselect" (fun s' => (s', []))
    else (s, [])
  | .linktestRsp | .rejectReq => putIfOpen s sys

/-- the data branch of `_on_connection_message_received` (the decode for the log line is guarded: `decodable` has no effect).
Only a reply (even function code, F0 included) is looked up in `_response_queues`; a primary (odd function) that happens to carry
the system bytes of an open local transaction is a new transaction of the peer and goes to the application. -/
def handleData (s : St) (function sys : Int) : St × List Out :=
  if s.conn ≠ .selected then (s, [reject sys Gen.HsmsSType.DATA_MESSAGE])
  else if function % 2 = 0 ∧ isOpen s sys = true then (closeSys s sys, [.deliverWaiter sys])
  else (s, [.deliverApp sys])

/-- the same branch for a block dispatched from the queue: the gate is evaluated at dispatch time.  While NOT CONNECTED the state is
"not SELECTED" as well: the Reject.req goes into the send queue of a connection that no longer exists (what happens to it when a
connection returns is the subject of C06/C09; this model does not follow the send queue across a reconnect) — nothing is delivered. -/
def handleDataQueued (s : St) (function sys : Int) : St × List Out :=
  if s.conn = .notConnected then (s, [.txBlocked SType.rejectReq.code sys Gen.HsmsSType.DATA_MESSAGE 4])
  else handleData s function sys

/-- `_on_linktest_timer` up to the blocking wait of `send_linktest_req()` (the re-arm happens when that wait ends: `closeSys`).
Without a connection nothing is written: the Linktest.req goes into the send queue and the timer thread blocks in `send_message`. -/
def onLinktestTimer (s : St) : St × List Out :=
  if s.conn = .notConnected then
    let id := nextCtr s.ctr
    ({ s with ctr := id, opn := (s.opn.filter (fun e => e.1 != id)) ++ [(id, .ltimer)] }, [.txBlocked SType.linktestReq.code id 0 0])
  else sendReq s .ltimer

/-! ## the step function -/

def step (d : Defects) (s : St) : In → St × List Out
  | .connect =>
    if s.conn = .notConnected then execStmts Gen.HsmsProto.onConnected s [] else (s, [])   -- the connection fires `on_connected` only when it was down
  | .peerClose =>
    if s.conn = .notConnected then (s, []) else closeSeq s
  | .disableBegin =>
    if s.conn = .notConnected then (s, []) else ({ s with disconnecting := true }, [])
  | .disableEnd =>
    if s.conn = .notConnected ∨ s.disconnecting = false then (s, []) else closeSeq s
  | .rxCtrl st sys status =>
    if s.conn = .notConnected then (s, []) else handleCtrl d s st sys status
  | .rxData _ function _ sys _ =>
    if s.conn = .notConnected then (s, []) else handleData s function sys
  | .rxDataQueued _ function _ sys _ => handleDataQueued s function sys
  | .apiSelect => if s.conn = .notConnected then (s, []) else sendReq s .select
  | .apiDeselect => if s.conn = .notConnected then (s, []) else sendReq s .deselect
  | .apiLinktest => if s.conn = .notConnected then (s, []) else sendReq s .linktest
  | .timeoutT6 sys => (closeSys s sys, [])
  | .linktestTimer =>
    -- which pending timer fires: the stored one if it is pending, else an orphan
    if s.ltStored then onLinktestTimer { s with ltStored := false }
    else if s.ltOrphans > 0 then onLinktestTimer { s with ltOrphans := s.ltOrphans - 1 }
    else (s, [])

/-- a history: the final state and the outputs of every step -/
def run (d : Defects) : St → List In → St × List (List Out)
  | s, [] => (s, [])
  | s, i :: is =>
    let (s1, o1) := step d s i
    let (s2, os) := run d s1 is
    (s2, o1 :: os)

def final (d : Defects) (s : St) (is : List In) : St := (run d s is).1

/-! ## projections used by the property statements -/

def txs : List Out → List Out := List.filter (fun o => match o with | .tx .. => true | _ => false)
def delivers : List Out → List Out := List.filter (fun o => match o with | .deliverApp _ => true | .deliverWaiter _ => true | _ => false)

/-! ## the accept race -/
namespace Race

/-- The connection-accepting thread runs `_on_connected` (its generated statement list) while a Select.req is already in the
receive buffer; the dispatcher handles it as soon as the protocol threads run:
`d0` = `send_select_rsp(system)`, `d1` = `self._connection_state.select()`. -/
structure RSt where
  restA : List String       -- statements of `_on_connected` still to run
  pcD : Nat                 -- 0: request buffered; 1: Select.rsp sent; 2: select() returned or raised
  conn : Conn
  started : Bool            -- `_thread.start()` happened: receiver and dispatcher threads run
  rspSent : Bool
  raised : Bool             -- select() raised (swallowed by `_dispatch_block`)
deriving DecidableEq, Repr

def init (prog : List String) : RSt := ⟨prog, 0, .notConnected, false, false, false⟩

/-- one atomic step of the accepting thread (a no-op when it has finished) -/
def stepA (s : RSt) : RSt :=
  match s.restA with
  | [] => s
  | st :: rest =>
    match parseStmt st with
    | .sm m =>
      match smCall s.conn m with
      | .ok c' => { s with restA := rest, conn := c' }
      | .error _ => { s with restA := [] }            -- the exception leaves `_on_connected`
    | .threadStart => { s with restA := rest, started := true }
    | _ => { s with restA := rest }

/-- one atomic step of the dispatcher thread (a no-op while the threads are not started, or when it has finished) -/
def stepD (s : RSt) : RSt :=
  if s.started = false then s
  else match s.pcD with
    | 0 => { s with pcD := 1, rspSent := true }
    | 1 =>
      match smCall s.conn "select" with
      | .ok c' => { s with pcD := 2, conn := c' }
      | .error _ => { s with pcD := 2, raised := true }
    | _ => s

/-- a schedule: `true` = the accepting thread moves, `false` = the dispatcher moves -/
def runSched (s : RSt) : List Bool → RSt
  | [] => s
  | b :: bs => runSched (if b then stepA s else stepD s) bs

/-- nothing can move any more -/
def isFinal (s : RSt) : Bool := s.restA.isEmpty && (s.pcD == 2 || !s.started)

/-- the old statement order (before commit 2a94d34) -/
def oldOrder : List String := ["set_connected 1", "thread.start", "sm.connect", "fire connected"]

end Race
end SecsModel.Model.Hsms
