import SecsModel.Basic.Py
/-!
# Model.GemBase — ids, values and dictionaries shared by the GEM table models (C12, C13)

* `Id` is what `Dynamic.__eq__/__hash__` (`secs/variables/dynamic.py`), `BaseNumber.__eq__` and `BaseText.__eq__`
  identify: a numeric item compares as its *value list* whatever the integer width (`U1(5)`, `U4(5)` and the dict key `5`
  are one id; a multi-valued numeric item is an id of its own), text items compare as strings, a number never equals a text.
  `Dynamic.__hash__` takes `value[0]`: an empty numeric item raises `IndexError`.  `x.get()` of a numeric item is an `int`
  only when it holds exactly one value, otherwise a `list` (unhashable as a dict key: `TypeError`).
* `AList` is a Python `dict` read as an association list in insertion order.
-/
namespace SecsModel.Model.Gem
open SecsModel

inductive Id
  | nums (xs : List Int)
  | text (s : String)
deriving DecidableEq, Repr, Inhabited

/-- `hash(item)` of a `Dynamic` data item succeeds (`value[0]` exists) -/
def Id.hashable : Id → Bool
  | .nums [] => false
  | _ => true

/-- `item.get()` is an `int` or a `str` (usable as a dict key); otherwise it is a `list` -/
def Id.scalar : Id → Bool
  | .nums [_] => true
  | .text _ => true
  | _ => false

theorem Id.hashable_of_scalar {i : Id} (h : i.scalar = true) : i.hashable = true := by
  cases i with
  | nums xs => cases xs <;> simp_all [Id.scalar, Id.hashable]
  | text s => rfl

/-- values carried by `V`/`SV`/`ECV` items, as the harness canonicalises them: integer items (any width), one binary64
number as the exact dyadic rational `num / 2^k`, text, and a list of ids (`EventsEnabled`, `AlarmsSet`, … and the empty
list item answered for unknown ids) -/
inductive Val
  | nums (xs : List Int)
  | flt (num : Int) (k : Nat)
  | text (s : String)
  | ids (xs : List Id)
deriving DecidableEq, Repr, Inhabited

/-- the zero-length list item (`Array(SV, [])`) -/
def Val.empty : Val := .ids []

/-! ## dictionaries -/

abbrev AList (β : Type) := List (Id × β)

namespace AList
variable {β : Type}

def lookup : AList β → Id → Option β
  | [], _ => none
  | (k', v) :: t, k => if k' = k then some v else lookup t k

def contains (l : AList β) (k : Id) : Bool := (lookup l k).isSome

/-- `d[k] = v`: an existing key keeps its position, a new key goes to the end -/
def set : AList β → Id → β → AList β
  | [], k, v => [(k, v)]
  | (k', v') :: t, k, v => if k' = k then (k', v) :: t else (k', v') :: set t k v

/-- `del d[k]` (no-op for an absent key; callers test membership first as the code does) -/
def erase (l : AList β) (k : Id) : AList β := l.filter (fun e => !(e.1 = k))

def keys (l : AList β) : List Id := l.map (·.1)

end AList

instance {ε α : Type} [DecidableEq ε] [DecidableEq α] : DecidableEq (Except ε α) := fun a b =>
  match a, b with
  | .ok x, .ok y => if h : x = y then isTrue (by rw [h]) else isFalse (fun e => by cases e; exact h rfl)
  | .error x, .error y => if h : x = y then isTrue (by rw [h]) else isFalse (fun e => by cases e; exact h rfl)
  | .ok _, .error _ => isFalse (fun e => by cases e)
  | .error _, .ok _ => isFalse (fun e => by cases e)

/-- handler outcome classes: a reply with an acknowledge code, or the `SxF0` abort sent when the callback raised -/
inductive Ack
  | code (n : Nat)
  | abort
deriving DecidableEq, Repr, Inhabited

end SecsModel.Model.Gem
