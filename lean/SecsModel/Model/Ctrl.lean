import SecsModel.Model.SM
import SecsModel.Gen.Misc
import SecsModel.Gen.CtrlMethods
/-!
# Model.Gem.Ctrl — the GEM control state of a `GemEquipmentHandler`

Built on the engine model (`Model.SM`) with
* the generated control machine `Gen.CtrlSM` (states, transitions) and the generated bodies of the callbacks its constructor
  registers on state events (`Gen.CtrlMethods.handlers`, keyed by state and event — the forwarders out of CONTROL/OFFLINE/ONLINE),
* hand-modelled from `gem/state_models_capability.py`: `_on_control_state_attempt_online` (the S1F1 probe; its outcome is an
  input), the `called` registrations that trigger the LOCAL/REMOTE collection events, `control_switch_*`, `_on_s01f15`,
  `_on_s01f17`; from `gem/equipmenthandler.py`: `on_connection_closed`;
* `Gen.Misc.controlStateId` for SVID 1002;
* `Gen.CtrlMethods.methods`: the public methods of `ControlStateMachine` as statement lists in source order (`runMethod`), so that
  *when* `switch_online_local/remote` update the remembered sub-state — after the transition was performed — is generated, not assumed.

A step is one operator call or one host message handled to completion; its outputs are, in the order the code produces
them, the collection events passed to `trigger_collection_events`, the acknowledge code of the reply, and the exception
class if the call raised.
-/
namespace SecsModel.Model.Gem.Ctrl
open SecsModel.Model.SM SecsModel.Gen

/-- outcome of `are_you_there()` inside `_on_control_state_attempt_online` -/
inductive Probe
  | hostAnswers        -- S1F2 arrived
  | hostSilent         -- no reply within T3 (`None`)
  | hostAborts         -- a reply that is not S1F2 (S1F0)
  | notCommunicating   -- communication state is not COMMUNICATING: no probe is sent
deriving DecidableEq, Repr

inductive Input
  | switchOnline (p : Probe)   -- `control_switch_online()`, the probe resolving as `p`
  | onlineBegin                -- `control_switch_online()` up to the moment the probe is outstanding
  | probe (p : Probe)          -- the outstanding probe resolves
  | switchOffline | switchLocal | switchRemote
  | s1f15 | s1f17
  | linkLost                   -- `on_connection_closed`
deriving DecidableEq, Repr

inductive Output
  | ack (n : Int) | ceid (k : Int) | raised (e : Fail)
deriving DecidableEq, Repr

structure CState where
  cur : Nat
  flags : List Bool
  remote : Bool        -- `_online_control_state == "REMOTE"` (the remembered ON-LINE sub-state)
  initial : String     -- `_initial_control_state`
deriving DecidableEq, Repr

def ctrl : MDef := ofTable CtrlSM

def fuel : Nat := 64

/-- `CollectionEventId` values (gem/collection_event.py) -/
def ceEquipmentOffline : Int := 1
def ceControlLocal : Int := 2
def ceControlRemote : Int := 3

/-- value of a configuration attribute read by the forwarders -/
def attr (c : CState) (a : String) : String :=
  if a == "_initial_control_state" then c.initial
  else if a == "_online_control_state" then (if c.remote then "REMOTE" else "LOCAL")
  else ""

/-- the `if/elif/else` chain of a registered handler body (`Gen.CtrlMethods.handlers`): the first row whose value matches
(`*` = `else` / unconditional) decides; `""` = that branch requests nothing -/
def forward (c : CState) (rows : List (String × String × String)) : List String :=
  match rows.find? (fun row => row.2.1 == "*" || row.2.1 == attr c row.1) with
  | none => []
  | some row => if row.2.2 == "" then [] else [row.2.2]

/-- `_on_control_state_attempt_online`; `none` = the probe is still outstanding (the handler has not returned) -/
def probeRequest : Option Probe → List String
  | none => []
  | some .hostAnswers => ["attempt_online_success"]
  | some _ => ["attempt_online_fail_host_offline"]

/-- the callbacks `ControlStateMachine.__init__` registered on `state.event`, in registration order, each as its generated body
(the registered methods' names play no role) -/
def registered (c : CState) (state event : String) : List Callback :=
  (Gen.CtrlMethods.handlers.filter (fun h => h.1 == state && h.2.1 == event)).map fun h => ((fun _ => forward c h.2.2.2) : Callback)

/-- callbacks of the control machine: the constructor's own (generated bodies), then the capability's ATTEMPT_ONLINE handler -/
def handlers (c : CState) (p : Option Probe) : Handlers := fun ev =>
  match ev with
  | .enter s =>
    let nm := stateName CtrlSM s
    registered c nm "enter" ++ (if nm == "ATTEMPT_ONLINE" then [((fun _ => probeRequest p) : Callback)] else [])
  | .leave s => registered c (stateName CtrlSM s) "leave"
  | .called _ => []

/-- the `called` registrations of `StateModelsCapability.__init__` -/
def ceidOfCalled (t : String) : Option Int :=
  if t == "initial_online_local" || t == "switch_online_local" then some ceControlLocal
  else if t == "initial_online_remote" || t == "switch_online_remote" then some ceControlRemote
  else none

def toSt (c : CState) : St := { cur := c.cur, active := fun x => c.flags.getD x false, log := [] }

def eventsOf (log : List Ev) : List Output :=
  log.filterMap fun e => match e with
    | .called t => (ceidOfCalled t).map Output.ceid
    | _ => none

/-- perform one request on the control machine; returns the new state, the outputs, and whether it completed -/
def request (c : CState) (p : Option Probe) (name : String) : CState × List Output × Bool :=
  match perform ctrl (handlers c p) fuel (toSt c) name with
  | .ok st => ({ c with cur := st.cur, flags := SM.flags ctrl st }, eventsOf st.log, true)
  | .fail e st => ({ c with cur := st.cur, flags := SM.flags ctrl st }, eventsOf st.log ++ [.raised e], false)

/-- `self.<attr> = "<value>"` inside a `ControlStateMachine` method -/
def assign (c : CState) (a v : String) : CState :=
  if a == "_online_control_state" then { c with remote := v == "REMOTE" }
  else if a == "_initial_control_state" then { c with initial := v }
  else c

/-- the statements of a generated method, in source order; a raise in `_perform_transition` ends the method there -/
def runStmts (c : CState) (p : Option Probe) : List (String × String × String) → List Output → CState × List Output × Bool
  | [], outs => (c, outs, true)
  | st :: rest, outs =>
    if st.1 == "perform" then
      match request c p st.2.1 with
      | (c', o, true) => runStmts c' p rest (outs ++ o)
      | (c', o, false) => (c', outs ++ o, false)
    else if st.1 == "assign" then runStmts (assign c st.2.1 st.2.2) p rest outs
    else runStmts c p rest outs

/-- `self._control_state.<method>()` (`Gen.CtrlMethods.methods`); a method the class does not have raises (AttributeError) -/
def runMethod (c : CState) (p : Option Probe) (method : String) : CState × List Output × Bool :=
  match Gen.CtrlMethods.methods.find? (fun r => r.1 == method) with
  | some r => runStmts c p r.2 []
  | none => (c, [.raised .unknown], false)

/-- `self._control_state.current == ControlState.<member>` -/
def isCur (c : CState) (member : String) : Bool :=
  match Gen.Misc.controlStates.find? (fun r => r.1 == member) with
  | some r => stateValue CtrlSM c.cur == r.2
  | none => false

def isOnline (c : CState) : Bool := isCur c "ONLINE" || isCur c "ONLINE_LOCAL" || isCur c "ONLINE_REMOTE"

def step (c : CState) (i : Input) : CState × List Output :=
  match i with
  | .switchOnline p => match runMethod c (some p) "switch_online" with | (c', outs, _) => (c', outs)
  | .onlineBegin => match runMethod c none "switch_online" with | (c', outs, _) => (c', outs)
  | .probe p =>
    if isCur c "ATTEMPT_ONLINE" then
      match probeRequest (some p) with
      | nm :: _ => match runMethod c none nm with | (c', outs, _) => (c', outs)
      | [] => (c, [])
    else (c, [])
  | .switchOffline =>
    match runMethod c none "switch_offline" with
    | (c', outs, true) => (c', outs ++ [.ceid ceEquipmentOffline])
    | (c', outs, false) => (c', outs)
  | .switchLocal => match runMethod c none "switch_online_local" with | (c', outs, _) => (c', outs)
  | .switchRemote => match runMethod c none "switch_online_remote" with | (c', outs, _) => (c', outs)
  | .s1f15 =>
    if isOnline c then
      match runMethod c none "remote_offline" with
      | (c', outs, true) => (c', outs ++ [.ceid ceEquipmentOffline, .ack 0])
      | (c', outs, false) => (c', outs)
    else (c, [.ack 0])
  | .s1f17 =>
    if isCur c "HOST_OFFLINE" then
      match runMethod c none "remote_online" with
      | (c', outs, true) => (c', outs ++ [.ack 0])
      | (c', outs, false) => (c', outs)
    else if isOnline c then (c, [.ack 2])
    else (c, [.ack 1])
  | .linkLost =>
    match (if isOnline c then (match runMethod c none "switch_offline" with | (c', outs, _) => (c', outs)) else (c, [])) with
    | (c1, outs1) =>
      if isCur c1 "EQUIPMENT_OFFLINE" then
        match runMethod c1 (some .notCommunicating) "switch_online" with
        | (c2, outs2, _) => (c2, outs1 ++ outs2)
      else (c1, outs1)

/-- the handler right after its constructor (`self._control_state.start()`; the communication state is still DISABLED) -/
def init (initial : String) (remote : Bool) : CState × List Output :=
  let c0 : CState := { cur := (initOf CtrlSM).cur, flags := SM.flags ctrl (initOf CtrlSM), remote := remote, initial := initial }
  match runMethod c0 (some .notCommunicating) "start" with
  | (c', outs, _) => (c', outs)

def run (c : CState) : List Input → CState × List (List Output)
  | [] => (c, [])
  | i :: rest =>
    match step c i with
    | (c1, outs) => match run c1 rest with
      | (c2, more) => (c2, outs :: more)

/-- SVID 1002 as `_get_control_state_id` computes it -/
def sv1002 (c : CState) : Except Err Int := Gen.Misc.controlStateId (stateValue CtrlSM c.cur)

end SecsModel.Model.Gem.Ctrl
