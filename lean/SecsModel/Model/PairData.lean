/-!
# Model.PairData — request/reply and event traffic between a host and an equipment over two FIFO channels (C20, data part)

Abstracts `Protocol.send_and_waitfor_response` (fresh system bytes, response queue keyed by them), the equipment's
`_handle_stream_function` (exactly one reply with the request's system bytes, C08) and `trigger_collection_events`
(an S6F11 primary sent by the equipment).  The equipment's tables are an abstract state `σ` with an abstract answer function.
-/
namespace SecsModel.Model.PairData

variable {σ Req Rsp Ev : Type}

inductive Frame (Req Rsp Ev : Type)
  | request (sys : Nat) (r : Req)
  | reply (sys : Nat) (r : Rsp)
  | event (sys : Nat) (e : Ev)

structure St (σ Req Rsp Ev : Type) where
  eq : σ                                  -- what the equipment holds
  counter : Nat                           -- host's system-bytes counter
  outstanding : List (Nat × Req)          -- host calls waiting for their reply: (system bytes, request)
  results : List (Nat × Req × Rsp)        -- completed host calls
  he : List (Frame Req Rsp Ev)            -- in flight host → equipment (head = oldest)
  eh : List (Frame Req Rsp Ev)            -- in flight equipment → host
  handled : List (Nat × σ × Req × Rsp)    -- history: what the equipment held when it handled each request
  triggered : List Ev                     -- history: events triggered while enabled (in trigger order)
  received : List Ev                      -- events handed to the host application (in arrival order)
  eqCounter : Nat

inductive Op (Req Ev : Type)
  | call (r : Req)            -- a host thread calls a service: allocate system bytes, register, send
  | equipRx                   -- the equipment's dispatcher handles the oldest frame in flight towards it
  | trigger (e : Ev)          -- an enabled, linked collection event is triggered on the equipment
  | hostRx                    -- the host's dispatcher handles the oldest frame in flight towards it
  | update (f : Unit)         -- (placeholder for equipment-side table updates, see `step`)

def step (ans : σ → Req → σ × Rsp) (upd : σ → σ) (s : St σ Req Rsp Ev) : Op Req Ev → St σ Req Rsp Ev
  | .call r =>
    { s with counter := s.counter + 1, outstanding := s.outstanding ++ [(s.counter + 1, r)],
             he := s.he ++ [.request (s.counter + 1) r] }
  | .equipRx =>
    match s.he with
    | [] => s
    | .request sys r :: rest =>
      let (eq', rsp) := ans s.eq r
      { s with eq := eq', he := rest, eh := s.eh ++ [.reply sys rsp], handled := s.handled ++ [(sys, s.eq, r, rsp)] }
    | _ :: rest => { s with he := rest }
  | .trigger e =>
    { s with eqCounter := s.eqCounter + 1, eh := s.eh ++ [.event (s.eqCounter + 1) e], triggered := s.triggered ++ [e] }
  | .hostRx =>
    match s.eh with
    | [] => s
    | .reply sys rsp :: rest =>
      match s.outstanding.find? (·.1 == sys) with
      | some (_, r) =>
        { s with eh := rest, outstanding := s.outstanding.filter (fun o => !(o.1 == sys)), results := s.results ++ [(sys, r, rsp)] }
      | none => { s with eh := rest }
    | .event _ e :: rest => { s with eh := rest, received := s.received ++ [e] }
    | _ :: rest => { s with eh := rest }
  | .update _ => { s with eq := upd s.eq }

def run (ans : σ → Req → σ × Rsp) (upd : σ → σ) (s : St σ Req Rsp Ev) : List (Op Req Ev) → St σ Req Rsp Ev
  | [] => s
  | o :: os => run ans upd (step ans upd s o) os

def init (e : σ) (c0 : Nat) : St σ Req Rsp Ev :=
  { eq := e, counter := c0, outstanding := [], results := [], he := [], eh := [], handled := [], triggered := [], received := [], eqCounter := 0 }

/-- the events still in flight towards the host -/
def eventsInFlight (fs : List (Frame Req Rsp Ev)) : List Ev :=
  fs.filterMap (fun f => match f with | .event _ e => some e | _ => none)

end SecsModel.Model.PairData
