import SecsModel.Basic.Py
import SecsModel.Gen.Catalogue
import SecsModel.Model.Sfdl
/-!
# Model.Catalogue — lookup and the table rules of the stream/function catalogue

* `function` is `StreamsFunctions.function(stream, function)` (`secs/functions/streams_functions.py`): filter by both numbers,
  none → `None`, more than one → `ValueError`.
* `pairRule` is the pairing rule of property C03 for one row; `yamlRowAgrees` the agreement of a class row with its YAML row.
-/
namespace SecsModel.Model.Catalogue
open SecsModel SecsModel.Gen.Catalogue

/-- `StreamsFunctions.function` -/
def function (cat : List Fn) (s f : Nat) : Except Err (Option Fn) :=
  match cat.filter (fun x => x.stream == s && x.function == f) with
  | [] => .ok none
  | [x] => .ok (some x)
  | _ => .error .valueError

/-- the row with these numbers, if any (first match) -/
def find (cat : List Fn) (s f : Nat) : Option Fn := cat.find? (fun x => x.stream == s && x.function == f)

def key (x : Fn) : Nat × Nat := (x.stream, x.function)

/-- pairing rule for one row: a required reply is a declared reply; a primary (odd function) declares a reply exactly when
the next function of its stream is catalogued, and then that secondary travels the opposite way; a secondary (even function)
declares neither flag -/
def pairRule (cat : List Fn) (x : Fn) : Bool :=
  (!x.replyRequired || x.hasReply) &&
  (if x.function % 2 == 1 then
    match find cat x.stream (x.function + 1) with
    | none => !x.hasReply
    | some q => x.hasReply && x.toHost == q.toEquipment && x.toEquipment == q.toHost
   else !x.hasReply && !x.replyRequired)

/-- the SFDL text parses, builds a variable tree without a broken array descriptor, and every data item token names a
catalogued data item class -/
def objOk : Model.Sfdl.Obj → Bool
  | .item _ => true
  | .array _ e => objOk e
  | .record _ fs => objOkL fs
  | .bad _ => false
where objOkL : List (List Char × Model.Sfdl.Obj) → Bool
  | [] => true
  | (_, v) :: r => objOk v && objOkL r

def formatOk (t : Option (List Char)) : Bool :=
  match t with
  | none => true
  | some s =>
    match Model.Sfdl.tokenize s with
    | .error _ => false
    | .ok ts =>
      (Model.Sfdl.dataItems ts).all Model.Sfdl.classKnown &&
      (match Model.Sfdl.genFrom (2 * ts.length + 2) ts none with
       | .error _ => false
       | .ok (fmt, _) =>
         match Model.Sfdl.generate fmt with
         | .ok o => objOk o
         | .error _ => false)

/-- the elements of a structure text (`none` for a header-only function) -/
def elements (t : Option (List Char)) : Option (List (List Char)) := t.map Model.Sfdl.split

/-- a class row and a YAML row agree: five flags equal, structures token-equal -/
def rowsAgree (x y : Fn) : Bool :=
  x.toHost == y.toHost && x.toEquipment == y.toEquipment && x.hasReply == y.hasReply && x.replyRequired == y.replyRequired
    && x.multiBlock == y.multiBlock && elements x.dataFormat == elements y.dataFormat

def yamlRowAgrees (yaml : List Fn) (x : Fn) : Bool :=
  match find yaml x.stream x.function with
  | none => false
  | some y => rowsAgree x y

/-- `function` returns exactly this row for its numbers -/
def lookupOk (cat : List Fn) (x : Fn) : Bool :=
  match function cat x.stream x.function with
  | .ok (some y) => y == x
  | _ => false

/-- the one row excluded from the pairing theorem (open finding `c03-s2f49-reply-flags`) -/
def isS2F49 (x : Fn) : Bool := x.stream == 2 && x.function == 49

/-- everything the table obligations ask of one class row -/
def rowOk (cat yaml : List Fn) (x : Fn) : Bool :=
  lookupOk cat x && formatOk x.dataFormat && (isS2F49 x || pairRule cat x) && yamlRowAgrees yaml x

/-- pairwise different keys -/
def distinctKeys : List (Nat × Nat) → Bool
  | [] => true
  | k :: ks => !ks.contains k && distinctKeys ks

end SecsModel.Model.Catalogue
