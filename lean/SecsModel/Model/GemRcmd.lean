import SecsModel.Model.GemBase
/-!
# Model.GemRcmd — remote commands (hand model of the Python)

Follows `secsgem/gem/remote_control_capability.py` `_on_s02f41` statement by statement and
`GemHostHandler.send_remote_command` (`gem/hosthandler.py`).  There is no S2F49 handler in the capability (an S2F49 gets
the S9F5 of `SecsHandler._handle_unknown_functions`; not modelled here).

`_on_s02f41`:
1. `rcmd_name = RCMD.get()`, `"rcmd_" + rcmd_name` — a numeric RCMD item (U1/I1) makes the concatenation raise `TypeError`
   ⇒ S2F0, nothing else happens;
2. name not in `_remote_commands`, or no `rcmd_<name>` callback (neither registered nor an `_on_rcmd_<name>` method)
   ⇒ S2F42 HCACK 1 (INVALID_COMMAND), empty PARAMS;
3. the first CPNAME that is not in the command's `params` ⇒ S2F42 HCACK 3 (PARAMETER_INVALID);
4. otherwise S2F42 HCACK 4 (ACK_FINISH_LATER) is **sent first** (`send_response`), then the callback is called with the
   keyword arguments `{CPNAME: CPVAL}` (a dict: a repeated CPNAME keeps its first position and its last value), then
   `trigger_collection_events([ce_finished])`; the handler returns `None` (no second reply).
   If the callback raises, the exception reaches `_handle_stream_function`, which sends S2F0 **after** the S2F42, and the
   finished event is not triggered.
-/
namespace SecsModel.Model.Gem.Rcmd
open SecsModel SecsModel.Model.Gem

structure Command where
  name : String
  params : List Id         -- `RemoteCommand.params` (strings)
  ceFinished : Id
deriving DecidableEq, Repr

structure Cfg where
  commands : List Command       -- `_remote_commands` (dict keyed by the name)
  callbacks : List String       -- names `n` for which `"rcmd_" + n in self._callback_handler`
  raising : List String         -- names whose callback raises (environment)
deriving Repr

/-- what `function.RCMD.get()` is -/
inductive RcmdName
  | text (s : String)
  | notText                     -- an `int` or a `list`: `"rcmd_" + rcmd_name` raises `TypeError`
deriving DecidableEq, Repr

/-- the observable effects of the handler, in order -/
inductive Eff
  | reply (hcack : Nat)                           -- S2F42 with that HCACK and empty PARAMS
  | abort                                         -- S2F0
  | call (name : String) (kwargs : AList Val)     -- the `rcmd_<name>` callback, with its keyword arguments
  | trigger (ce : Id)                             -- `trigger_collection_events([ce])`
deriving DecidableEq, Repr

def Cfg.find (cfg : Cfg) (n : String) : Option Command := cfg.commands.find? (fun c => c.name = n)

/-- `kwargs = {}; for param in PARAMS: kwargs[CPNAME] = CPVAL` -/
def kwargsOf (ps : List (Id × Val)) : AList Val := ps.foldl (fun d p => AList.set d p.1 p.2) []

/-- `"rcmd_" + n in self._callback_handler` -/
def hasCallback (cfg : Cfg) (n : String) : Bool := cfg.callbacks.contains n
/-- some CPNAME is not in the command's `params` -/
def badParam (c : Command) (ps : List (Id × Val)) : Bool := ps.any (fun p => !c.params.contains p.1)
def raises (cfg : Cfg) (n : String) : Bool := cfg.raising.contains n

def s2f41 (cfg : Cfg) (rcmd : RcmdName) (ps : List (Id × Val)) : List Eff :=
  match rcmd with
  | .notText => [.abort]
  | .text n =>
    match cfg.find n with
    | none => [.reply 1]
    | some c =>
      if !hasCallback cfg n then [.reply 1]
      else if badParam c ps then [.reply 3]
      else
        [.reply 4, .call n (kwargsOf ps)] ++ (if raises cfg n then [.abort] else [.trigger c.ceFinished])

/-- the second argument of `send_remote_command` -/
inductive HostParams
  | list (ps : List (Id × Val))        -- a list of `[name, value]`
  | odict (d : AList Val)              -- a `collections.OrderedDict`
  | other                              -- anything else: no parameter is appended
deriving Repr

def hostParams : HostParams → List (Id × Val)
  | .list ps => ps
  | .odict d => d
  | .other => []

/-- the HCACK `send_remote_command` returns: the first reply with the request's system bytes -/
def firstReply : List Eff → Option Eff
  | [] => none
  | .reply h :: _ => some (.reply h)
  | .abort :: _ => some .abort
  | _ :: t => firstReply t

def sendRemoteCommand (cfg : Cfg) (name : String) (ps : HostParams) : List Eff × Option Eff :=
  let effs := s2f41 cfg (.text name) (hostParams ps)
  (effs, firstReply effs)

end SecsModel.Model.Gem.Rcmd
