import SecsModel.Basic.Py
import SecsModel.Gen.SfdlChars
import SecsModel.Gen.DataItems
/-!
# Model.Sfdl — the SFDL reader as the code does it

Hand model of
* `secs/functions/sfdl_tokenizer.py`: `SFDLTokenizer.parse_all` (`scan`: character loop with comment mode, operators, EOF
  flush), `_process_tokens` and its helpers (`procElem`/`procLoop`: validation into typed tokens);
* `secs/variables/functions.py`: `_generate_from_sfdl` (`genFrom`/`genLoop`: look-ahead `peek(ahead=2)`, list name propagation),
  `_generate_item_from_sfdl`, `generate`;
* `secs/variables/list_type.py`: `List._generate`, `List.get_name_from_format` (key derivation, later duplicate key overwrites);
* `secs/variables/array.py`: `Array.__init__` naming.

Source locations (line/column, only used in error messages) are not modelled.  Exceptions: `SFDLParseError` is `Err.parseError`,
`IndexError` from `SFDLTokens.next/peek` and `data_format[0]` is `Err.indexError`, `TypeError` of `generate` is `Err.typeError`.
Recursion goes over a fuel argument (`parse` supplies more than any run can use, see `Proofs/Sfdl*.lean`); running out of fuel is `Err.other`.
-/
namespace SecsModel.Model.Sfdl
open SecsModel

/-! ## `SFDLTokenizer.parse_all`: text to elements -/

/-- `if current_token: elements.append(current_token …)` -/
def flush (cur : List Char) : List (List Char) :=
  match cur with
  | [] => []
  | _ => [cur]

/-- the `while True` loop of `parse_all`: remaining text, `current_token`, `in_comment`; result: the elements appended -/
def scan : List Char → List Char → Bool → List (List Char)
  | [], cur, _ => flush cur                                   -- `if char == "": if current_token: elements.append(...)`
  | c :: cs, cur, inC =>
    if Gen.SfdlChars.commentStart.contains c then
      -- `if not in_comment: current_token = self._process_whitespace(...)`, `in_comment = True`, then the `if in_comment:` branch
      if inC then scan cs cur (!Gen.SfdlChars.commentEnd.contains c)
      else flush cur ++ scan cs [] (!Gen.SfdlChars.commentEnd.contains c)
    else if inC then scan cs cur (!Gen.SfdlChars.commentEnd.contains c)
    else if Gen.SfdlChars.whitespaces.contains c then flush cur ++ scan cs [] false
    else if Gen.SfdlChars.operators.contains c then flush cur ++ ([c] :: scan cs [] false)
    else scan cs (cur ++ [c]) false

/-- the element list built by `parse_all` -/
def split (text : List Char) : List (List Char) := scan text [] false

/-! ## `_process_tokens`: elements to typed tokens -/

inductive TokType | openTag | closeTag | dataItem | list | listName
deriving DecidableEq, Repr

structure Tok where
  typ : TokType
  value : List Char
deriving DecidableEq, Repr

abbrev lt : List Char := ['<']
abbrev gt : List Char := ['>']
abbrev capL : List Char := ['L']

/-- Python `value in "<>"` for a string value (substring test) -/
def inLtGt (v : List Char) : Bool := v == [] || v == lt || v == gt || v == ['<', '>']

/-- `getattr(data_items, name, None) is not None` -/
def attrKnown (n : List Char) : Bool := Gen.DataItems.moduleAttrs.contains n

/-- `_process_closing_token` -/
def procClose (es : List (List Char)) : Except Err (Tok × List (List Char)) :=
  match es with
  | [] => .error .parseError
  | c :: es => if c != gt then .error .parseError else .ok (⟨.closeTag, c⟩, es)

mutual
/-- `_process_tokens`: one `< … >` element; returns its tokens and the elements left -/
def procElem : Nat → List (List Char) → Except Err (List Tok × List (List Char))
  | 0, _ => .error .other
  | f + 1, es =>
    match es with
    | [] => .error .parseError                                   -- "Opening tag '<' expected"
    | o :: es =>
      if o != lt then .error .parseError else
      match es with
      | [] => .error .parseError                                 -- "Item expected"
      | n :: es =>
        if n != capL then
          -- `_process_data_item_token`
          if !attrKnown n then .error .parseError else
          match procClose es with
          | .error e => .error e
          | .ok (c, es) => .ok ([⟨.openTag, o⟩, ⟨.dataItem, n⟩, c], es)
        else
          -- `_process_list_item_token`
          match es with
          | [] => .error .parseError
          | k :: es' =>
            let nameToks : List Tok := if !inLtGt k then [⟨.listName, k⟩] else []
            let es := if !inLtGt k then es' else k :: es'
            match procLoop f es with
            | .error e => .error e
            | .ok (ts, es) =>
              match procClose es with
              | .error e => .error e
              | .ok (c, es) => .ok (⟨.openTag, o⟩ :: ⟨.list, n⟩ :: (nameToks ++ (ts ++ [c])), es)
/-- the `while True` loop of `_process_list_item_token` -/
def procLoop : Nat → List (List Char) → Except Err (List Tok × List (List Char))
  | 0, _ => .error .other
  | f + 1, es =>
    match es with
    | [] => .error .parseError
    | e :: _ =>
      if !inLtGt e then .error .parseError
      else if e == gt then .ok ([], es)
      else
        match procElem f es with
        | .error err => .error err
        | .ok (ts, es1) =>
          match procLoop f es1 with
          | .error err => .error err
          | .ok (ts2, es2) => .ok (ts ++ ts2, es2)
end

/-- `SFDLTokenizer(text).tokens`: the validated token list (elements after the first complete `< … >` are ignored, as in the code) -/
def validate (es : List (List Char)) : Except Err (List Tok) :=
  match procElem (2 * es.length + 2) es with
  | .error e => .error e
  | .ok (ts, _) => .ok ts

def tokenize (text : List Char) : Except Err (List Tok) := validate (split text)

/-! ## `_generate_from_sfdl`: tokens to the nested Python list format -/

/-- what `_generate_from_sfdl` returns: a data item class, some other attribute of the `data_items` module, a name string
placed in a list, or a list -/
inductive Fmt where
  | cls (name : List Char)
  | other (name : List Char)
  | str (s : List Char)
  | list (xs : List Fmt)
deriving Repr

/-- `str.upper()` on the ASCII letters (every name that reaches it passed `attrKnown`, hence is ASCII) -/
def upperChar (c : Char) : Char := if 'a' ≤ c ∧ c ≤ 'z' then Char.ofNat (c.toNat - 32) else c
def upper (s : List Char) : List Char := s.map upperChar

def classKnown (n : List Char) : Bool := Gen.DataItems.moduleClasses.contains n

/-- `_generate_item_from_sfdl` -/
def genItem (ts : List Tok) (itemName : List Char) : Except Err (Fmt × List Tok) :=
  if !attrKnown itemName then .error .parseError else
  match ts with
  | [] => .error .parseError
  | c :: ts => if c.value != gt then .error .parseError
    else .ok (if classKnown itemName then .cls itemName else .other itemName, ts)

mutual
/-- `_generate_from_sfdl(tokenizer, token_name)` on the tokens not yet consumed -/
def genFrom : Nat → List Tok → Option (List Char) → Except Err (Fmt × List Tok)
  | 0, _, _ => .error .other
  | f + 1, ts, tokenName =>
    match ts with
    | [] => .error .indexError
    | o :: ts =>
      if o.value != lt then .error .parseError else
      match ts with
      | [] => .error .indexError
      | it :: ts =>
        let itemName := upper it.value
        if itemName != capL then genItem ts itemName else
        match ts with
        | [] => .error .indexError                                -- `tokens.peek()`
        | k :: ts' =>
          let key : Option (List Char) := if !inLtGt k.value then some k.value else none
          let tokenName := if !inLtGt k.value then some k.value else tokenName
          let ts := if !inLtGt k.value then ts' else k :: ts'
          match ts with                                           -- `tokens.peek(ahead=2)`
          | _ :: p2 :: _ =>
            let sub : List Fmt :=
              match tokenName with
              | some nm => if p2.value != capL && !nm.isEmpty then [.str nm] else []
              | none => []
            match genLoop f ts key with
            | .error e => .error e
            | .ok (xs, rest) => .ok (.list (sub ++ xs), rest)
          | _ => .error .indexError
/-- the `while True` loop of `_generate_from_sfdl`; `key` is `item_key_token.value` (or `None`) of the enclosing list -/
def genLoop : Nat → List Tok → Option (List Char) → Except Err (List Fmt × List Tok)
  | 0, _, _ => .error .other
  | f + 1, ts, key =>
    match ts with
    | [] => .error .parseError
    | t :: rest =>
      if !inLtGt t.value then .error .parseError
      else if t.value == gt then .ok ([], rest)
      else
        match genFrom f ts key with
        | .error e => .error e
        | .ok (x, ts1) =>
          match genLoop f ts1 key with
          | .error e => .error e
          | .ok (xs, ts2) => .ok (x :: xs, ts2)
end

/-! ## `generate`, `Array.__init__`, `List._generate` -/

/-- the variable tree `generate` builds.  An `Array` keeps its item descriptor and creates elements with
`generate(item_decriptor)` only on demand: the model holds the element structure that call gives, or `bad e` when it would raise `e`
(so a broken descriptor does not fail the definition, exactly as in the code) -/
inductive Obj where
  | item (name : List Char)
  | array (name : List Char) (elem : Obj)
  | record (name : List Char) (fields : List (List Char × Obj))
  | bad (e : Err)
deriving Repr

def dataName : List Char := ['D', 'A', 'T', 'A']

/-- `List.get_name_from_format(data_format)` for a list argument -/
def nameFromFormat (xs : List Fmt) : Except Err (List Char) :=
  match xs with
  | [] => .error .indexError                                      -- `data_format[0]`
  | .str s :: _ => .ok s
  | _ => .ok dataName

/-- `Array.__init__`: the name of an array with this item descriptor -/
def arrayName : Fmt → Except Err (List Char)
  | .list ys => nameFromFormat ys
  | .cls n => .ok n
  | .other n => .ok n                                             -- a module: `__name__` (its dotted name; never a key that is compared)
  | .str _ => .ok ['U', 'N', 'K', 'N', 'O', 'W', 'N']

/-- `result_data[key] = value` on an `OrderedDict`: an existing key keeps its position and gets the new value -/
def dictSet (fields : List (List Char × Obj)) (k : List Char) (v : Obj) : List (List Char × Obj) :=
  match fields with
  | [] => [(k, v)]
  | (k', v') :: rest => if k' == k then (k, v) :: rest else (k', v') :: dictSet rest k v

/-- the key `List._generate` files a member under: an `Array` under its name, a `List` under `get_name_from_format(item)`, a data
item under its class name -/
def memberKey (v : Obj) (x : Fmt) : Except Err (List Char) :=
  match v, x with
  | .array anm _, _ => .ok anm                                    -- `result_data[item_value.name]`
  | .record _ _, .list ys => nameFromFormat ys                    -- `List.get_name_from_format(item)`
  | .record _ _, _ => .error .typeError
  | .item n, _ => .ok n
  | .bad e, _ => .error e

mutual
/-- `generate(data_format)` -/
def generate : Fmt → Except Err Obj
  | .cls n => .ok (.item n)                                       -- `data_format()`; `self.name = self.__class__.__name__`
  | .other _ => .error .typeError
  | .str _ => .error .parseError                                  -- a string is read as SFDL text; a bare word never parses
  | .list [x] =>
    match arrayName x with
    | .error e => .error e
    | .ok nm =>
      match generate x with
      | .error e => .ok (.array nm (.bad e))                       -- raised only when an element is created
      | .ok el => .ok (.array nm el)
  | .list xs =>
    match genFields xs dataName [] with
    | .error e => .error e
    | .ok (nm, fields) => .ok (.record nm fields)
/-- `List._generate`: the loop over `data_format` with `self.name` and `result_data` so far -/
def genFields : List Fmt → List Char → List (List Char × Obj) → Except Err (List Char × List (List Char × Obj))
  | [], nm, acc => .ok (nm, acc)
  | .str s :: rest, _, acc => genFields rest s acc                -- `self.name = item; continue`
  | x :: rest, nm, acc =>
    match generate x with
    | .error e => .error e
    | .ok v =>
      match memberKey v x with
      | .error e => .error e
      | .ok k => genFields rest nm (dictSet acc k v)
end

/-- `functions.generate(text)` -/
def parse (text : List Char) : Except Err Obj :=
  match tokenize text with
  | .error e => .error e
  | .ok ts =>
    match genFrom (2 * ts.length + 2) ts none with
    | .error e => .error e
    | .ok (fmt, _) => generate fmt

/-- the data item names a validated token list uses (`SFDLTokens.data_items`) -/
def dataItems (ts : List Tok) : List (List Char) := (ts.filter (fun t => t.typ == .dataItem)).map (·.value)

end SecsModel.Model.Sfdl
