import SecsModel.Basic.Bytes
import SecsModel.Gen.Callbacks
import SecsModel.Spec.E30Comm
/-!
# Model.SecsHandle — what an inbound data message causes to be written (hand model of the Python)

Follows, statement by statement:
* the gate of `HsmsProtocol._on_connection_message_received` (hsms/protocol.py): not selected ⇒ Reject.req; the message is
  a reply (even function — the guard is generated: `Gen.Callbacks.waiterRepliesOnly`) and somebody waits for these system
  bytes ⇒ handed to the waiter; otherwise the `message_received` event (a primary of the peer that happens to carry the
  system bytes of an open transaction of ours is a new transaction);
* `GemHandler._on_message_received` (gem/handler.py): only the branch that `Gen.Callbacks.dispatch` marks as dispatching
  (COMMUNICATING) reaches `_handle_stream_function`; the S1F13/S1F14 handling of WAIT_CRA is `Model.GemComm`'s;
* `SecsHandler._handle_stream_function` / `_handle_unknown_functions` (secs/handler.py) with
  `CallbackHandler.__contains__` / `_call` (common/callbacks.py): a registered callback wins over an inherited `_on_sXXfYY`;
* `SecsHandler.stream_function` raising `KeyError` for a function the catalogue does not have — inside the `except` block of
  `_handle_stream_function` this exception escapes, is logged by `Protocol._dispatch_block`, and nothing is sent.

What a callback does is a parameter (`Env.outcome`): `reply s f` — it returns a function object, or sends one itself with
`send_response` and returns `None` (the shape of `_on_s02f41`); `none` — it returns `None` and sends nothing; `raises`; or
`replyThenRaises` — it sends a reply itself and then raises (`_on_s02f41` with a failing `rcmd_*` callback).

Two behaviours of the shipped code that the property text rules out are carried as variant flags (`Env.wGate`,
`Env.abortAny`, both `false` for the code as it is; see proposals/C08-*.md).
-/
namespace SecsModel.Model.SecsHandle
open SecsModel SecsModel.Spec.E30Comm

structure Msg where
  s : Nat
  f : Nat
  w : Bool
  sys : Nat
  /-- `message.header.encode()`: the ten header bytes (MHEAD of the S9F5) -/
  hdr : Bytes
deriving DecidableEq, Repr

inductive CbOutcome
  | reply (s f : Nat) | none | raises | replyThenRaises (s f : Nat)
deriving DecidableEq, Repr

inductive Body
  | fn                      -- the body of the function object the callback returned
  | header (hdr : Bytes)    -- MHEAD: the header bytes of the offending message
  | empty                   -- header only (SxF0)
deriving DecidableEq, Repr

inductive Frame
  | data (s f : Nat) (w : Bool) (sys : Nat) (body : Body)   -- a data message written to the connection
  | reject (sys : Nat)                                      -- HSMS Reject.req (not a data message)
deriving DecidableEq, Repr

structure Env where
  /-- HSMS connection state is CONNECTED_SELECTED -/
  selected : Bool := true
  /-- system bytes with an open `_response_queues` entry (a caller blocked in `send_and_waitfor_response`) -/
  waiting : List Nat := []
  comm : Comm := .communicating
  /-- callbacks registered with `register_stream_function` -/
  user : List (Nat × Nat) := []
  /-- `_on_sXXfYY` methods the handler class has or inherits (`Gen.Callbacks.builtin*`) -/
  builtin : List (Nat × Nat) := []
  /-- (stream, function) pairs of `settings.streams_functions` -/
  catalogue : List (Nat × Nat) := Gen.Callbacks.catalogue
  /-- what the callback selected for this message does -/
  outcome : Msg → CbOutcome := fun _ => .none
  /-- variant: the secondary returned by a callback is only sent when the primary carries the W-bit (proposal) -/
  wGate : Bool := false
  /-- variant: the abort SxF0 is built even when the catalogue has no function 0 for the stream (proposal) -/
  abortAny : Bool := false

/-- `sf_callback_index in self._callback_handler` -/
def hasCallback (env : Env) (s f : Nat) : Bool := env.user.contains (s, f) || env.builtin.contains (s, f)

inductive Which | user | builtin | none
deriving DecidableEq, Repr

/-- `CallbackHandler._call`: which callable runs for the name — the registered one first (the order is generated:
`Gen.Callbacks.registeredFirst`), else the handler's own `_on_sXXfYY`; `Env.outcome` is what *that* callable does -/
def selects (env : Env) (s f : Nat) : Which :=
  let u := env.user.contains (s, f)
  let b := env.builtin.contains (s, f)
  if Gen.Callbacks.registeredFirst then (if u then .user else if b then .builtin else .none)
  else (if b then .builtin else if u then .user else .none)

/-- `self.stream_function(s, f)` does not raise `KeyError` -/
def catalogued (env : Env) (s f : Nat) : Bool := env.catalogue.contains (s, f)

/-- the `except Exception:` block of `_handle_stream_function`: `send_response(self.stream_function(stream, 0)(), system)` -/
def abort (env : Env) (m : Msg) : List Frame :=
  if env.abortAny || catalogued env m.s Gen.Callbacks.abortFunction then
    [.data m.s Gen.Callbacks.abortFunction false m.sys .empty]
  else []      -- KeyError escapes the handler; `_dispatch_block` logs it

/-- `SecsHandler._handle_unknown_functions` -/
def handleUnknown (env : Env) (m : Msg) : List Frame :=
  if m.w then
    if catalogued env Gen.Callbacks.unknownReply.1 Gen.Callbacks.unknownReply.2 then
      [.data Gen.Callbacks.unknownReply.1 Gen.Callbacks.unknownReply.2 false m.sys (.header m.hdr)]
    else []
  else []

/-- `SecsHandler._handle_stream_function` -/
def handleStreamFunction (env : Env) (m : Msg) : List Frame :=
  if !hasCallback env m.s m.f then handleUnknown env m
  else
    match env.outcome m with
    | .reply s f => if env.wGate && !m.w then [] else [.data s f false m.sys .fn]
    | .none => []
    | .raises => abort env m
    | .replyThenRaises s f => (if env.wGate && !m.w then [] else [.data s f false m.sys .fn]) ++ abort env m

/-- does `GemHandler._on_message_received` hand the message to `_handle_stream_function` in this communication state -/
def dispatches (c : Comm) : Bool :=
  Gen.Callbacks.dispatch.any fun r => r.1 == c.name && r.2.1

/-- the message goes to a caller blocked in `send_and_waitfor_response` -/
def toWaiter (env : Env) (m : Msg) : Bool :=
  (!Gen.Callbacks.waiterRepliesOnly || m.f % 2 == 0) && env.waiting.contains m.sys

/-- an inbound data message, from the protocol layer down -/
def handle (env : Env) (m : Msg) : List Frame :=
  if !env.selected then [.reject m.sys]
  else if toWaiter env m then []
  else if dispatches env.comm then handleStreamFunction env m
  else []

/-- a sequence of messages, each with the environment it meets -/
def handleAll : List (Env × Msg) → List Frame
  | [] => []
  | (env, m) :: rest => handle env m ++ handleAll rest

def Frame.sys : Frame → Nat
  | .data _ _ _ sys _ => sys
  | .reject sys => sys

def Frame.isData : Frame → Bool
  | .data .. => true
  | .reject _ => false

end SecsModel.Model.SecsHandle
