import SecsModel.Basic.Interleave
import SecsModel.Gen.Misc
import SecsModel.Model.SecsI
/-!
# Model.SecsILine — the SECS-I line protocol: two endpoints joined by two FIFO byte channels

Hand model of `SecsIProtocol._process_send_queue` / `_process_received_data` (`secsgem/secsi/protocol.py`),
`Protocol._process_data`, `Protocol.send_message`, `BlockSendInfo`, the blocking reads of `ByteQueue`
(`wait_for_byte`, `wait_for`) and the trigger loop of `ProtocolDispatcher._receiver_thread_function`.

Each endpoint has a *protocol thread* (the dispatcher's receiver thread running `_process_data`), an
*application thread* inside `send_message` (one block at a time, waiting for the `BlockSendInfo`), a
receive buffer and a send queue.  The line is two FIFO byte channels; `dlv` moves any non-empty prefix
of a channel into the peer's receive buffer and sets its trigger (`_on_connection_data_received`), so a
schedule fixes the chunking.  Handshake bytes are the *generated* `Gen.Misc.secsi{ENQ,EOT,ACK,NAK}`,
blocks are decoded by C16's `Model.SecsI.Block.decode`.

The host-yields-on-ENQ branch (`enq_response == ENQ and device_type == HOST`) is modelled (`recvLoop true`).
Not modelled because not in the code: T1–T4 timers, retries.
-/
namespace SecsModel.Model.SecsILine
open SecsModel SecsModel.Model.SecsI

abbrev ENQ : Nat := Gen.Misc.secsiENQ
abbrev EOT : Nat := Gen.Misc.secsiEOT
abbrev ACK : Nat := Gen.Misc.secsiACK
abbrev NAK : Nat := Gen.Misc.secsiNAK

/-- where the protocol thread stands -/
inductive TPc
  | idle                       -- `_receiver_thread_trigger.wait()`
  | sendTop                    -- `_process_send_queue`: `while not self._send_queue.empty()`
  | waitEnq                    -- ENQ sent: `wait_for_byte(peek=True)`
  | waitAck                    -- block sent: `wait_for_byte()`
  | recvLoop (nested : Bool)   -- `_process_received_data`: entry test / `while len(buffer) > 0`
  | waitBlk (nested : Bool)    -- EOT sent: `wait_for_byte(peek=True)`; `wait_for(length + 3)`
deriving DecidableEq, Repr

/-- the application thread in `send_message` -/
inductive App
  | none                                         -- no call in progress
  | run (todo : List Bytes) (waiting : Bool)     -- blocks still to send; `waiting` = head is queued, in `block_send_info.wait()`
  | fin (ok : Bool)                              -- `send_message` returned `ok`
deriving DecidableEq, Repr

structure End where
  host : Bool
  pc : TPc := .idle
  rxbuf : Bytes := []
  sendQ : List Bytes := []
  trig : Bool := false
  /-- result of the `BlockSendInfo` in flight -/
  slot : Option Bool := none
  /-- blocks passed to `queue_block` -/
  delivered : List Block := []
  app : App := .none
deriving DecidableEq, Repr

/-- where `_process_received_data` returns to: the send loop (`continue`) when nested, else `_process_data` ends -/
def ret (nested : Bool) : TPc := if nested then .sendTop else .idle

/-- one step of the protocol thread: new endpoint state and the bytes it transmits; `none` = blocked -/
def thrStep (e : End) : Option (End × Bytes) :=
  match e.pc with
  | .idle => if e.trig then some ({ e with trig := false, pc := .sendTop }, []) else none
  | .sendTop =>
    match e.sendQ with
    | [] => some ({ e with pc := .recvLoop false }, [])
    | _ :: _ => some ({ e with pc := .waitEnq }, [ENQ])
  | .waitEnq =>
    match e.rxbuf with
    | [] => none
    | r :: rest =>
      if r = ENQ ∧ e.host = true then some ({ e with pc := .recvLoop true }, [])
      else match e.sendQ with
        | blk :: qs => some ({ e with rxbuf := rest, sendQ := qs, pc := .waitAck }, blk)
        | [] => none
  | .waitAck =>
    match e.rxbuf with
    | [] => none
    | r :: rest => some ({ e with rxbuf := rest, slot := some (decide (r = ACK)), pc := .sendTop }, [])
  | .recvLoop n =>
    match e.rxbuf with
    | [] => some ({ e with pc := ret n }, [])
    | _ :: rest => some ({ e with rxbuf := rest, pc := .waitBlk n }, [EOT])
  | .waitBlk n =>
    match e.rxbuf with
    | [] => none
    | l :: _ =>
      if e.rxbuf.length < l + 3 then none else
      match Block.decode (e.rxbuf.take (l + 3)) with
      | .error _ => some ({ e with rxbuf := e.rxbuf.drop (l + 3), pc := .idle }, [])
      | .ok none => some ({ e with rxbuf := e.rxbuf.drop (l + 3), pc := ret n }, [NAK])
      | .ok (some blk) =>
        some ({ e with rxbuf := e.rxbuf.drop (l + 3), delivered := e.delivered ++ [blk], pc := .recvLoop n }, [ACK])

/-- one step of the application thread in `send_message` -/
def appStep (e : End) : Option End :=
  match e.app with
  | .run (blk :: rest) false => some { e with sendQ := e.sendQ ++ [blk], trig := true, slot := none, app := .run (blk :: rest) true }
  | .run [] false => some { e with app := .fin true }
  | .run todo true =>
    match e.slot with
    | none => none
    | some true => some { e with slot := none, app := .run (todo.drop 1) false }
    | some false => some { e with slot := none, app := .fin false }
  | _ => none

structure State where
  a : End
  b : End
  /-- bytes in flight from `a` to `b` / from `b` to `a` -/
  ab : Bytes := []
  ba : Bytes := []
  /-- line fault `(i, t, v)`: in the `i`-th transmission (0-based `send_data` call) of `a` the byte at offset `t` arrives as `v` -/
  fault : Option (Nat × Nat × Nat) := none
  /-- number of transmissions `a` has made -/
  txA : Nat := 0
  /-- ghost: transmissions in order, `true` = by `a` (as sent, before the fault) -/
  log : List (Bool × Bytes) := []
deriving DecidableEq, Repr

inductive Label
  | thr (isA : Bool)
  | app (isA : Bool)
  | dlv (toA : Bool) (n : Nat)
deriving DecidableEq, Repr

/-- the line's effect on the `idx`-th transmission of `a` -/
def tamper (fault : Option (Nat × Nat × Nat)) (idx : Nat) (bs : Bytes) : Bytes :=
  match fault with
  | some (i, t, v) => if i = idx then bs.set t v else bs
  | none => bs

/-- endpoint `a`'s thread moved to `e` and transmitted `tx` (`[]` = nothing) -/
def emitA (s : State) (e : End) (tx : Bytes) : State :=
  if tx = [] then { s with a := e }
  else { s with a := e, ab := s.ab ++ tamper s.fault s.txA tx, txA := s.txA + 1, log := s.log ++ [(true, tx)] }

def emitB (s : State) (e : End) (tx : Bytes) : State :=
  if tx = [] then { s with b := e }
  else { s with b := e, ba := s.ba ++ tx, log := s.log ++ [(false, tx)] }

def step (s : State) : Label → Option State
  | .thr true => (thrStep s.a).map (fun r => emitA s r.1 r.2)
  | .thr false => (thrStep s.b).map (fun r => emitB s r.1 r.2)
  | .app true => (appStep s.a).map (fun e => { s with a := e })
  | .app false => (appStep s.b).map (fun e => { s with b := e })
  | .dlv true n =>
    if 0 < n ∧ n ≤ s.ba.length then
      some { s with a := { s.a with rxbuf := s.a.rxbuf ++ s.ba.take n, trig := true }, ba := s.ba.drop n }
    else none
  | .dlv false n =>
    if 0 < n ∧ n ≤ s.ab.length then
      some { s with b := { s.b with rxbuf := s.b.rxbuf ++ s.ab.take n, trig := true }, ab := s.ab.drop n }
    else none

/-- `a` sends the encoded blocks `blocks` (one `send_message` call), `b` only receives -/
def init (aIsHost : Bool) (blocks : List Bytes) (fault : Option (Nat × Nat × Nat) := none) : State where
  a := { host := aIsHost, app := .run blocks false }
  b := { host := !aIsHost }
  fault := fault

def sys (aIsHost : Bool) (blocks : List Bytes) (fault : Option (Nat × Nat × Nat) := none) : Sys State Label where
  init := init aIsHost blocks fault
  step := step

/-- the transcript of a fault-free transfer of `blocks`: per block ENQ, EOT, the block, ACK -/
def transcript : List Bytes → List (Bool × Bytes)
  | [] => []
  | blk :: rest => (true, [ENQ]) :: (false, [EOT]) :: (true, blk) :: (false, [ACK]) :: transcript rest

end SecsModel.Model.SecsILine
