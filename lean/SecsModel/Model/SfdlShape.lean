import SecsModel.Model.Sfdl
import SecsModel.Spec.Sfdl
/-!
# Model.SfdlShape — what is observable of the variable tree `functions.generate` builds

The class kinds (`Array` / `List` / data item class), the keys of every `List` in order, and the item classes: `erase` drops the
`name` attributes of arrays and lists and fails on an array whose element cannot be created.
-/
namespace SecsModel.Model.Sfdl
open SecsModel.Spec.Sfdl

mutual
def erase : Obj → Option Struct
  | .item n => some (.item n)
  | .array _ e => match erase e with | some s => some (.array s) | none => none
  | .record _ fs => match eraseL fs with | some r => some (.record r) | none => none
  | .bad _ => none
def eraseL : List (List Char × Obj) → Option (List (Name × Struct))
  | [] => some []
  | (k, v) :: r =>
    match erase v, eraseL r with
    | some s, some rs => some ((k, s) :: rs)
    | _, _ => none
end

end SecsModel.Model.Sfdl
