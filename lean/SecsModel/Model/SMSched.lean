import SecsModel.Model.SM
/-!
# Model.SMSched — concurrent callers of `StateMachine._perform_transition`

`_perform_transition` has no lock.  A thread switch can happen between any two lines; the model's atomic steps are the
*lines* of `_perform_transition` (what the `sys.settrace` baton scheduler of `tools/harness/c18.py` serialises on the real
method).  `State.leave`, `State.enter` and `Transition.__call__` (with everything their handlers do) are one step each.

```
L1  transition = self.transition(name)                      lookup
L2  if self._current_state not in transition.sources: raise check
L3  self._logger.debug(...)                                 log      (no effect)
L4  self._current_state.leave(transition.destination)       leave    (reads `_current_state` again)
L5  old_state = self._current_state                         readOld
L6  self._current_state = transition.destination            setCur
L7  transition.destination.enter(old_state)                 enter
L8  transition()                                            called
```
-/
namespace SecsModel.Model.SMSched
open SecsModel.Model.SM

/-! ## generic: threads over a shared state, with and without a global lock -/

structure Prog (σ : Type) (τ : Type) where
  step : σ → τ → σ × τ
  done : τ → Bool

structure Sys (σ : Type) (τ : Type) where
  sh : σ
  loc : Nat → τ
  lock : Option Nat

def upd {τ : Type} (loc : Nat → τ) (i : Nat) (l : τ) : Nat → τ := fun k => if k = i then l else loc k

/-- thread `i` executes its next atomic step (nothing if it has finished); no mutual exclusion -/
def stepFree {σ τ : Type} (P : Prog σ τ) (s : Sys σ τ) (i : Nat) : Sys σ τ :=
  if P.done (s.loc i) then s
  else
    let r := P.step s.sh (s.loc i)
    { s with sh := r.1, loc := upd s.loc i r.2 }

/-- the same under one lock held from a thread's first step to its last: a thread that finds the lock taken does not move -/
def stepLocked {σ τ : Type} (P : Prog σ τ) (s : Sys σ τ) (i : Nat) : Sys σ τ :=
  if P.done (s.loc i) then s
  else
    match s.lock with
    | some j =>
      if j = i then
        let r := P.step s.sh (s.loc i)
        { sh := r.1, loc := upd s.loc i r.2, lock := if P.done r.2 then none else some i }
      else s
    | none =>
      let r := P.step s.sh (s.loc i)
      { sh := r.1, loc := upd s.loc i r.2, lock := if P.done r.2 then none else some i }

def runFree {σ τ : Type} (P : Prog σ τ) (s : Sys σ τ) (sched : List Nat) : Sys σ τ := sched.foldl (stepFree P) s
def runLocked {σ τ : Type} (P : Prog σ τ) (s : Sys σ τ) (sched : List Nat) : Sys σ τ := sched.foldl (stepLocked P) s

/-- one thread running alone until it has finished -/
inductive RunsTo {σ τ : Type} (P : Prog σ τ) : σ → τ → σ → τ → Prop
  | here {sh l} : P.done l = true → RunsTo P sh l sh l
  | more {sh l sh' l'} : P.done l = false → RunsTo P (P.step sh l).1 (P.step sh l).2 sh' l' → RunsTo P sh l sh' l'

/-- the threads of `order` run one after the other, each to completion -/
inductive Serial {σ τ : Type} (P : Prog σ τ) (init : Nat → τ) : σ → List Nat → σ → Prop
  | nil {sh} : Serial P init sh [] sh
  | cons {sh i l sh1 rest sh'} : RunsTo P sh (init i) sh1 l → Serial P init sh1 rest sh' → Serial P init sh (i :: rest) sh'

/-! ## the engine's program -/

inductive Pc
  | lookup
  | check (srcs : List Nat) (dst : Nat)
  | log (dst : Nat)
  | leave (dst : Nat)
  | readOld (dst : Nat)
  | setCur (dst old : Nat)
  | enter (dst old : Nat)
  | called
  | done (err : Option Fail)
deriving DecidableEq, Repr

structure Thread where
  name : String
  pc : Pc
deriving DecidableEq, Repr

def Pc.label : Pc → String
  | .lookup => "lookup" | .check .. => "check" | .log _ => "log" | .leave _ => "leave" | .readOld _ => "readOld"
  | .setCur .. => "setCur" | .enter .. => "enter" | .called => "called" | .done _ => "done"

/-- one line of `_perform_transition`; `f` is the fuel given to the handler-running calls -/
def lineStep (m : MDef) (h : Handlers) (f : Nat) (st : St) (t : Thread) : St × Thread :=
  match t.pc with
  | .lookup => match lookup m t.name with
    | none => (st, { t with pc := .done (some .unknown) })
    | some (srcs, dst) => (st, { t with pc := .check srcs dst })
  | .check srcs dst => if srcs.contains st.cur then (st, { t with pc := .log dst }) else (st, { t with pc := .done (some .wrongSource) })
  | .log dst => (st, { t with pc := .leave dst })
  | .leave dst => match SM.leave m h f st st.cur (some dst) with
    | .ok s1 => (s1, { t with pc := .readOld dst })
    | .fail e s1 => (s1, { t with pc := .done (some e) })
  | .readOld dst => (st, { t with pc := .setCur dst st.cur })
  | .setCur dst old => ({ st with cur := dst }, { t with pc := .enter dst old })
  | .enter dst old => match SM.enter m h f st dst (some old) with
    | .ok s1 => (s1, { t with pc := .called })
    | .fail e s1 => (s1, { t with pc := .done (some e) })
  | .called => match SM.fire m h f st (.called t.name) with
    | .ok s1 => (s1, { t with pc := .done none })
    | .fail e s1 => (s1, { t with pc := .done (some e) })
  | .done e => (st, { t with pc := .done e })

def isDone (t : Thread) : Bool := match t.pc with | .done _ => true | _ => false

def prog (m : MDef) (h : Handlers) (f : Nat) : Prog St Thread := ⟨lineStep m h f, isDone⟩

def start (name : String) : Thread := ⟨name, .lookup⟩

/-- a thread that never runs (filler for unused thread ids) -/
def idle : Thread := ⟨"", .done none⟩

/-- two callers: thread 0 requests `a`, thread 1 requests `b` -/
def two (st : St) (a b : String) : Sys St Thread :=
  { sh := st, loc := fun i => if i = 0 then start a else if i = 1 then start b else idle, lock := none }

def result (t : Thread) : Option (Option Fail) := match t.pc with | .done e => some e | _ => none

end SecsModel.Model.SMSched
