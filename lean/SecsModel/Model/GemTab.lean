import SecsModel.Model.GemBase
/-!
# Model.GemTab — status variables, equipment constants and alarms of the GEM equipment handler (hand model of the Python)

Follows, statement by statement,
`status_data_collection_capability.py` (`_get_sv_value`, `_on_s01f03`, `_on_s01f11`),
`equipment_constants_capability.py` (`_get_ec_value`, `_set_ec_value`, `_on_s02f13`, `_on_s02f15`: pre-check loop with `eac`
overwritten per element, then the apply loop with `int(value)` for ECIDs 1 and 2, `_on_s02f29`),
`alarm_capability.py` (`set_alarm`, `clear_alarm`, `_on_s05f03/05/07`, `_get_alarms_enabled/_set`),
`clock_capability.py` (`_get_clock` by `_time_format`, the instant being a parameter).

Python numbers: a value is an `int` or a `float`; a finite float is the dyadic rational `num / 2^k` (`float.as_integer_ratio`),
so `>=`/`<=` between ints and floats are exact as in Python; NaN compares false with everything; `int(x)` truncates toward
zero and raises for NaN/±inf; `U4(1.5)` (a float handed to an integer item class) raises `ValueError`.
-/
namespace SecsModel.Model.Gem.Tab
open SecsModel SecsModel.Model.Gem

/-- dyadic rational `num / 2^k` -/
structure Dy where
  num : Int
  k : Nat
deriving DecidableEq, Repr, Inhabited

/-- `a ≤ b` -/
def Dy.le (a b : Dy) : Bool := decide (a.num * 2 ^ b.k ≤ b.num * 2 ^ a.k)

/-- a Python number as it arrives in an `ECV` item or is stored in `EquipmentConstant.value` -/
inductive Num
  | int (n : Int)
  | flt (d : Dy)
  | nan
  | inf (neg : Bool)
deriving DecidableEq, Repr, Inhabited

def Num.isFloat : Num → Bool
  | .int _ => false
  | _ => true

/-- Python `x >= c` for a finite constant `c` -/
def Num.geC (x : Num) (c : Dy) : Bool :=
  match x with
  | .int n => c.le ⟨n, 0⟩
  | .flt d => c.le d
  | .nan => false
  | .inf neg => !neg

/-- Python `x <= c` for a finite constant `c` -/
def Num.leC (x : Num) (c : Dy) : Bool :=
  match x with
  | .int n => Dy.le ⟨n, 0⟩ c
  | .flt d => d.le c
  | .nan => false
  | .inf neg => neg

/-- `constant.min_value is not None and not value >= constant.min_value` is false -/
def Num.geO (x : Num) (c : Option Dy) : Bool :=
  match c with
  | some m => x.geC m
  | none => true

/-- `constant.max_value is not None and not value <= constant.max_value` is false -/
def Num.leO (x : Num) (c : Option Dy) : Bool :=
  match c with
  | some m => x.leC m
  | none => true

/-- Python `int(x)`: truncation toward zero; `ValueError` for NaN, `OverflowError` for ±inf -/
def Num.toInt : Num → Except Err Int
  | .int n => .ok n
  | .flt d => .ok (Int.tdiv d.num (2 ^ d.k))
  | .nan => .error .valueError
  | .inf _ => .error .overflow

/-- what an `ECV` item's `.get()` is: a number, or something whose comparison with a number raises `TypeError`
(`str`, `bytes`, a `list` for multi-valued/empty/array items) -/
inductive Ecv
  | num (x : Num)
  | other
deriving DecidableEq, Repr

inductive SvKind
  | cell | clock | controlState | eventsEnabled | alarmsEnabled | alarmsSet
deriving DecidableEq, Repr

structure Sv where
  id : Id
  name : String
  unit : String
  kind : SvKind     -- decided by the SVID in `_get_sv_value` (1001 … 1005, else the cell)
  value : Val       -- `value_type(status_variable.value)` as the reply carries it
deriving DecidableEq, Repr

inductive EcKind
  | plain | ect | timeFormat
deriving DecidableEq, Repr

/-- `_get_ec_value/_set_ec_value` switch on the ECID: 1 = EstablishCommunicationsTimeout, 2 = TimeFormat -/
def ecKind (i : Id) : EcKind :=
  if i = .nums [1] then .ect else if i = .nums [2] then .timeFormat else .plain

structure Ec where
  id : Id
  name : String
  min : Option Dy    -- `min_value` (`None`: no lower limit; S2F30 then shows an empty ECMIN)
  minF : Bool        -- declared as a float (only how S2F30 shows it)
  max : Option Dy    -- `max_value`
  maxF : Bool
  dflt : Num
  unit : String
  intTyped : Bool    -- `value_type` is an integer item class
  value : Num
deriving DecidableEq, Repr

structure Alarm where
  id : Id
  code : Nat
  text : String
  enabled : Bool
  set : Bool
deriving DecidableEq, Repr

structure St where
  svs : List Sv
  ecs : List Ec
  alarms : List Alarm
  ect : Int                 -- `settings.establish_communication_timeout`
  timeFormat : Int          -- `ClockCapability._time_format`
  clock0 : String           -- the (stubbed) instant rendered for `_time_format == 0`, `== 2`, otherwise
  clock2 : String
  clock1 : String
  controlState : Int
  eventsEnabled : List Id
  typeCheck : Bool          -- variant: the S2F15 pre-check refuses a float for an integer-typed constant (proposed patch)
deriving DecidableEq, Repr

/-- `d[key] = f(d[key])` on the first (= only) entry with that key -/
def updFirst {α : Type} (p : α → Bool) (f : α → α) : List α → List α
  | [] => []
  | a :: t => if p a then f a :: t else a :: updFirst p f t

def St.findSv (s : St) (i : Id) : Option Sv := s.svs.find? (fun v => v.id = i)
def St.findEc (s : St) (i : Id) : Option Ec := s.ecs.find? (fun v => v.id = i)
def St.findAlarm (s : St) (i : Id) : Option Alarm := s.alarms.find? (fun v => v.id = i)

/-! ## status variables -/

def getClock (s : St) : String :=
  if s.timeFormat = 0 then s.clock0 else if s.timeFormat = 2 then s.clock2 else s.clock1

/-- `_get_sv_value` -/
def svValue (s : St) (sv : Sv) : Val :=
  match sv.kind with
  | .cell => sv.value
  | .clock => .text (getClock s)
  | .controlState => .nums [s.controlState]
  | .eventsEnabled => .ids s.eventsEnabled
  | .alarmsEnabled => .ids ((s.alarms.filter (·.enabled)).map (·.id))
  | .alarmsSet => .ids ((s.alarms.filter (·.set)).map (·.id))

/-- the `for status_variable_id in function` loop of `_on_s01f03` -/
def s1f3Loop (s : St) : List Id → Except Err (List Val)
  | [] => .ok []
  | i :: rest =>
    if i.hashable then
      match s1f3Loop s rest with
      | .error e => .error e
      | .ok vs =>
        match s.findSv i with
        | none => .ok (Val.empty :: vs)
        | some sv => .ok (svValue s sv :: vs)
    else .error .indexError

def s1f3 (s : St) (ids : List Id) : Except Err (List Val) :=
  if ids.isEmpty then .ok (s.svs.map (svValue s)) else s1f3Loop s ids

def s1f11Loop (s : St) : List Id → Except Err (List (Id × String × String))
  | [] => .ok []
  | i :: rest =>
    if i.hashable then
      match s1f11Loop s rest with
      | .error e => .error e
      | .ok vs =>
        match s.findSv i with
        | none => .ok ((i, "", "") :: vs)
        | some sv => .ok ((sv.id, sv.name, sv.unit) :: vs)
    else .error .indexError

def s1f11 (s : St) (ids : List Id) : Except Err (List (Id × String × String)) :=
  if ids.isEmpty then .ok (s.svs.map (fun sv => (sv.id, sv.name, sv.unit))) else s1f11Loop s ids

/-! ## equipment constants -/

def numVal : Num → Val
  | .int n => .nums [n]
  | .flt d => .flt d.num d.k
  | .nan => .text "nan"
  | .inf _ => .text "inf"

/-- `_get_ec_value`: `value_type(value)`; an integer item class refuses a float -/
def ecValue (s : St) (ec : Ec) : Except Err Val :=
  match ecKind ec.id with
  | .ect => .ok (.nums [s.ect])
  | .timeFormat => .ok (.nums [s.timeFormat])
  | .plain =>
    if ec.intTyped then
      match ec.value with
      | .int n => .ok (.nums [n])
      | _ => .error .valueError
    else
      match ec.value with
      | .int n => .ok (.flt n 0)
      | v => .ok (numVal v)     -- (NaN/±inf: shown by a placeholder text; only storable in a constant without limits, not exercised)

def s2f13Loop (s : St) : List Id → Except Err (List Val)
  | [] => .ok []
  | i :: rest =>
    if i.hashable then
      match s.findEc i with
      | none =>
        match s2f13Loop s rest with
        | .error e => .error e
        | .ok vs => .ok (Val.empty :: vs)
      | some ec =>
        match ecValue s ec with
        | .error e => .error e
        | .ok v =>
          match s2f13Loop s rest with
          | .error e => .error e
          | .ok vs => .ok (v :: vs)
    else .error .indexError

def s2f13All (s : St) : List Ec → Except Err (List Val)
  | [] => .ok []
  | ec :: rest =>
    match ecValue s ec with
    | .error e => .error e
    | .ok v =>
      match s2f13All s rest with
      | .error e => .error e
      | .ok vs => .ok (v :: vs)

def s2f13 (s : St) (ids : List Id) : Except Err (List Val) :=
  if ids.isEmpty then s2f13All s s.ecs else s2f13Loop s ids

/-- one S2F30 row: ECID, ECNAME, ECMIN, ECMAX, ECDEF, UNITS -/
structure EcRow where
  id : Id
  name : String
  min : Val
  max : Val
  dflt : Val
  unit : String
deriving DecidableEq, Repr

def dyVal (d : Option Dy) (isF : Bool) : Val :=
  match d with
  | none => .text ""
  | some d => if isF then .flt d.num d.k else .nums [d.num]

def ecRow (ec : Ec) : EcRow := ⟨ec.id, ec.name, dyVal ec.min ec.minF, dyVal ec.max ec.maxF, numVal ec.dflt, ec.unit⟩

def s2f29Loop (s : St) : List Id → Except Err (List EcRow)
  | [] => .ok []
  | i :: rest =>
    if i.hashable then
      match s2f29Loop s rest with
      | .error e => .error e
      | .ok vs =>
        match s.findEc i with
        | none => .ok (⟨i, "", .text "", .text "", .text "", ""⟩ :: vs)
        | some ec => .ok (ecRow ec :: vs)
    else .error .indexError

def s2f29 (s : St) (ids : List Id) : Except Err (List EcRow) :=
  if ids.isEmpty then .ok (s.ecs.map ecRow) else s2f29Loop s ids

/-- the value `eac` has after one element of the pre-check loop whose constant exists -/
def eacAfter (s : St) (ec : Ec) (x : Num) (eac : Nat) : Nat :=
  let e1 := if s.typeCheck && ec.intTyped && x.isFloat then 3 else eac
  let e2 := if !(x.geO ec.min) then 3 else e1
  if !(x.leO ec.max) then 3 else e2

/-- pre-check loop of `_on_s02f15`.  (A non-number for a constant with NO limit at all is not compared with anything in the
code and would be stored as it is; the model answers the `TypeError` of the limited case for it too — outside the model, never
sent by the harness.) -/
def pre15 (s : St) : Nat → List (Id × Ecv) → Except Err Nat
  | eac, [] => .ok eac
  | eac, (i, v) :: rest =>
    if i.hashable then
      match s.findEc i with
      | none => pre15 s 1 rest
      | some ec =>
        match v with
        | .other => .error .typeError
        | .num x => pre15 s (eacAfter s ec x eac) rest
    else .error .indexError

/-- `_set_ec_value` for the constant with id `i`: `int(value)` for ECIDs 1 and 2 first, then the value itself -/
def setEc (s : St) (i : Id) (x : Num) : Except Err St :=
  let store (s : St) : St := { s with ecs := updFirst (fun ec => ec.id = i) (fun ec => { ec with value := x }) s.ecs }
  match ecKind i with
  | .ect => match x.toInt with
    | .error e => .error e
    | .ok n => .ok (store { s with ect := n })
  | .timeFormat => match x.toInt with
    | .error e => .error e
    | .ok n => .ok (store { s with timeFormat := n })
  | .plain => .ok (store s)

/-- the apply loop; `.error` carries the state reached when the exception escapes -/
def apply15 : St → List (Id × Ecv) → Except (Err × St) St
  | s, [] => .ok s
  | s, (i, v) :: rest =>
    match v with
    | .other => .error (.typeError, s)
    | .num x =>
      match s.findEc i with
      | none => .error (.keyError, s)
      | some _ =>
        match setEc s i x with
        | .error e => .error (e, s)
        | .ok s' => apply15 s' rest

def s2f15 (s : St) (req : List (Id × Ecv)) : St × Ack :=
  match pre15 s 0 req with
  | .error _ => (s, .abort)
  | .ok eac =>
    if eac ≠ 0 then (s, .code eac)
    else match apply15 s req with
      | .ok s' => (s', .code 0)
      | .error (_, s') => (s', .abort)

/-! ## alarms -/

/-- one S5F1 / S5F6 / S5F8 entry: ALCD, ALID, ALTX -/
structure AlarmRow where
  alcd : Nat
  id : Id
  text : String
deriving DecidableEq, Repr

def alarmRow (i : Id) (a : Alarm) : AlarmRow := ⟨a.code ||| (if a.set then 128 else 0), i, a.text⟩

def s5f3 (s : St) (aled : Nat) (alid : Id) : St × Ack :=
  if alid.scalar then
    match s.findAlarm alid with
    | none => (s, .code 1)
    | some _ => ({ s with alarms := updFirst (fun a => a.id = alid) (fun a => { a with enabled := decide (aled = 128) }) s.alarms }, .code 0)
  else (s, .abort)

def s5f5Loop (s : St) : List Id → Except Err (List AlarmRow)
  | [] => .ok []
  | i :: rest =>
    if i.scalar then
      match s.findAlarm i with
      | none => .error .keyError
      | some a =>
        match s5f5Loop s rest with
        | .error e => .error e
        | .ok rows => .ok (alarmRow i a :: rows)
    else .error .typeError

def s5f5 (s : St) (alids : List Id) : Except Err (List AlarmRow) :=
  if alids.isEmpty then s5f5Loop s (s.alarms.map (·.id)) else s5f5Loop s alids

def s5f7 (s : St) : List AlarmRow := (s.alarms.filter (·.enabled)).map (fun a => alarmRow a.id a)

/-- `set_alarm(alid)` for a Python `int`/`str`: the S5F1 reports it sends, or the `ValueError` for an unknown id.
`replied` is what `send_and_waitfor_response` returns for the S5F1 (an S5F2 within T3, or `None`): the code does not look
at it, the alarm is latched either way. -/
def setAlarm (s : St) (i : Id) (replied : Bool := true) : St × Except Err (List AlarmRow) :=
  let _response : Option Unit := if replied then some () else none
  match s.findAlarm i with
  | none => (s, .error .valueError)
  | some a =>
    if a.set then (s, .ok [])
    else
      let emits := if a.enabled then [⟨a.code ||| 128, i, a.text⟩] else []
      ({ s with alarms := updFirst (fun a => a.id = i) (fun a => { a with set := true }) s.alarms }, .ok emits)

def clearAlarm (s : St) (i : Id) (replied : Bool := true) : St × Except Err (List AlarmRow) :=
  let _response : Option Unit := if replied then some () else none
  match s.findAlarm i with
  | none => (s, .error .valueError)
  | some a =>
    if !a.set then (s, .ok [])
    else
      let emits := if a.enabled then [⟨a.code, i, a.text⟩] else []
      ({ s with alarms := updFirst (fun a => a.id = i) (fun a => { a with set := false }) s.alarms }, .ok emits)

/-! ## histories -/

inductive Op
  | s1f3 (ids : List Id) | s1f11 (ids : List Id)
  | s2f13 (ids : List Id) | s2f15 (req : List (Id × Ecv)) | s2f29 (ids : List Id)
  | s5f3 (aled : Nat) (alid : Id) | s5f5 (alids : List Id) | s5f7
  | setAlarm (i : Id) (replied : Bool) | clearAlarm (i : Id) (replied : Bool)
  | setSv (i : Id) (v : Val)
deriving DecidableEq, Repr

inductive Out
  | vals (r : Except Err (List Val))
  | names (r : Except Err (List (Id × String × String)))
  | rows (r : Except Err (List EcRow))
  | ack (a : Ack)
  | alarms (r : Except Err (List AlarmRow))
  | emits (r : Except Err (List AlarmRow))
  | nothing
deriving Repr

def step (s : St) : Op → St × Out
  | .s1f3 ids => (s, .vals (s1f3 s ids))
  | .s1f11 ids => (s, .names (s1f11 s ids))
  | .s2f13 ids => (s, .vals (s2f13 s ids))
  | .s2f15 req => let r := s2f15 s req; (r.1, .ack r.2)
  | .s2f29 ids => (s, .rows (s2f29 s ids))
  | .s5f3 aled alid => let r := s5f3 s aled alid; (r.1, .ack r.2)
  | .s5f5 alids => (s, .alarms (s5f5 s alids))
  | .s5f7 => (s, .alarms (.ok (s5f7 s)))
  | .setAlarm i rp => let r := setAlarm s i rp; (r.1, .emits r.2)
  | .clearAlarm i rp => let r := clearAlarm s i rp; (r.1, .emits r.2)
  | .setSv i v => ({ s with svs := updFirst (fun sv => sv.id = i) (fun sv => { sv with value := v }) s.svs }, .nothing)

def run (s : St) : List Op → St
  | [] => s
  | op :: ops => run (step s op).1 ops

def trace (s : St) : List Op → List (Out × St)
  | [] => []
  | op :: ops => let r := step s op; (r.2, r.1) :: trace r.1 ops

end SecsModel.Model.Gem.Tab
