import SecsModel.Basic.Interleave
import SecsModel.Gen.Misc
/-!
# Model.Txn — transactions (system bytes, reply routing) and the dispatcher threads

Hand model of `secsgem/common/protocol.py` (`send_and_waitfor_response`, `send_stream_function`,
`_get_queue_for_system`, `_remove_queue`), the routing branch of
`HsmsProtocol/SecsIProtocol._on_connection_message_received`, and `ProtocolDispatcher`
(`start`, `stop`, `queue_block`, `_dispatcher_thread_function`) as one labelled transition system
over explicit atomic steps (`Basic.Interleave`).  The id allocator is the *generated*
`Gen.Misc.getNextSystemCounter`.

Shared state: the counter, the `_response_queues` dict (`reg`: system bytes ↦ owner of the queue
object), one queue object per caller (`q`), the dispatch queue (`inbox`), the dispatcher threads
(`disp`), the link flag, the messages handed to the application (`delivered`), the ids put on the wire.
Per caller (= one invocation of `send_and_waitfor_response` / `send_stream_function`): a program
counter, its id, its result.  Any number of callers (`callers : Nat → Caller`), any number of dispatcher
threads.  Fields marked *ghost* are history variables: no step reads them.
-/
namespace SecsModel.Model.Txn
open SecsModel

/-- an inbound message: its system bytes and an opaque payload tag -/
structure Msg where
  sys : Int
  tag : Nat
deriving DecidableEq, Repr

/-- the harness encodes `stream * 256 + function` in the tag: a primary message has an odd function -/
def Msg.primary (m : Msg) : Bool := m.tag % 2 == 1

inductive Pc
  | idle        -- before `get_next_system_counter`
  | mid         -- only when the allocator is not atomic: counter written, value not yet read back
  | allocated   -- has its system id
  | registered  -- `_get_queue_for_system` done
  | sent        -- `send_message` returned True, waiting in `response_queue.get(True, t3)`
  | got         -- has a response / timed out / send failed; `_remove_queue` still to run
  | done        -- returned
deriving DecidableEq, Repr

structure Caller where
  pc : Pc := .idle
  id : Int := 0
  /-- returned message; `none` is Python `None` (timeout, failed send) — meaningful once `pc ∈ {got, done}` -/
  result : Option Msg := none
  /-- `_remove_queue` raised `KeyError` (another caller with the same id had already deleted the entry) -/
  keyErr : Bool := false
  /-- ghost: ordinal of this caller's allocation (1-based) -/
  allocAt : Nat := 0
deriving Repr

/-- one dispatcher thread: `stopped` = its per-start stop token is set (patched code only);
`cur = some (m, started)`: it has taken `m` from the dispatch queue; `started` = the application handler runs;
`routing`: between the two statements of the routing branch -/
structure Disp where
  stopped : Bool := false
  cur : Option (Msg × Bool) := none
  /-- the test `message.header.system in self._response_queues` was true; `self._response_queues[...].put_nowait(message)` is still to run -/
  routing : Bool := false
deriving DecidableEq, Repr

/-- can still take part: not stopped, or still holding a message -/
def Disp.active (d : Disp) : Bool := !d.stopped || d.cur.isSome
/-- holds a message whose handler has not started -/
def Disp.unstarted (d : Disp) : Option Msg := match d.cur with | some (m, false) => some m | _ => none
/-- the application handler is running on this thread -/
def Disp.inHandler (d : Disp) : Bool := match d.cur with | some (_, true) => true | _ => false

structure Cfg where
  /-- `get_next_system_counter` is one atomic step (`Gen.Misc.getNextSystemCounterAtomic`) -/
  atomic : Bool
  /-- `ProtocolDispatcher.stop()` sets a per-start stop token for the dispatcher thread (proposal C06-dispatcher-leak) -/
  patched : Bool
  /-- initial counter, `random.randint(0, 2**32 - 1)` -/
  c0 : Int
  /-- only replies (even function) are looked up in `_response_queues`; a primary always goes to the application
  (proposal C06-primary-system-bytes).  `false` = the code as it is: routing by system bytes alone -/
  replyOnly : Bool := false

structure State where
  counter : Int
  callers : Nat → Caller
  reg : Int → Option Nat
  q : Nat → List Msg
  inbox : List Msg
  /-- number of bytes of an incomplete frame sitting in the receive buffer (`_receive_buffer`) -/
  stale : Nat
  disp : List Disp
  up : Bool
  delivered : List Msg
  wire : List Int
  /-- ghost: number of allocations so far -/
  allocs : Nat
  /-- ghost: every message the receive path queued, in arrival order -/
  arrived : List Msg
  /-- ghost: messages taken from the dispatch queue, in that order -/
  popped : List Msg
  /-- ghost: messages whose routing decision was taken, in that order; `true` = put to a response queue -/
  handled : List (Msg × Bool)
  /-- ghost: messages for which `_response_queues[system]` raised `KeyError` (entry deleted between test and put): swallowed by `_dispatch_block` -/
  lost : List Msg
  /-- ghost: number of `start()` calls -/
  ups : Nat
  /-- ghost: at some point more than one dispatcher thread was active -/
  everTwo : Bool

inductive Step
  | alloc (c : Nat) | allocRmw (c : Nat) | allocRet (c : Nat)
  | register (c : Nat) | send (c : Nat) | sendFail (c : Nat) | fire (c : Nat)
  | recv (c : Nat) | timeout (c : Nat) | unregister (c : Nat)
  | rxPart (n : Nat) | rx (m : Msg) | pop (d : Nat) | handle (d : Nat) | put (d : Nat) | finish (d : Nat)
  | linkDown | linkUp
deriving DecidableEq, Repr

def upd {κ α : Type} [DecidableEq κ] (f : κ → α) (k : κ) (v : α) : κ → α := fun j => if j = k then v else f j

@[simp] theorem upd_same {κ α : Type} [DecidableEq κ] (f : κ → α) (k : κ) (v : α) : upd f k v k = v := by simp [upd]
theorem upd_other {κ α : Type} [DecidableEq κ] (f : κ → α) (k j : κ) (v : α) (h : j ≠ k) : upd f k v j = f j := by simp [upd, h]

/-- the generated allocator: `(returned id, new counter)` -/
def next (counter : Int) : Option (Int × Int) :=
  match Gen.Misc.getNextSystemCounter counter with
  | .ok r => some r
  | .error _ => none

def init (cfg : Cfg) : State where
  counter := cfg.c0
  callers := fun _ => {}
  reg := fun _ => none
  q := fun _ => []
  inbox := []
  stale := 0
  disp := []
  up := false
  delivered := []
  wire := []
  allocs := 0
  arrived := []
  popped := []
  handled := []
  lost := []
  ups := 0
  everTwo := false

def active (s : State) : Nat := s.disp.countP Disp.active
def live (s : State) : Nat := s.disp.countP (fun d => !d.stopped)
def busy (s : State) : Nat := s.disp.countP Disp.inHandler
def held (s : State) : List Msg := s.disp.filterMap Disp.unstarted

/-- one atomic step, without the `everTwo` bookkeeping -/
def step0 (cfg : Cfg) (s : State) : Step → Option State
  | .alloc c =>
    let k := s.callers c
    if cfg.atomic ∧ k.pc = .idle then
      match next s.counter with
      | some (id, cnt) =>
        some { s with counter := cnt, allocs := s.allocs + 1, callers := upd s.callers c { k with pc := .allocated, id := id, allocAt := s.allocs + 1 } }
      | none => none
    else none
  | .allocRmw c =>
    let k := s.callers c
    if ¬ cfg.atomic ∧ k.pc = .idle then
      match next s.counter with
      | some (_, cnt) =>
        some { s with counter := cnt, allocs := s.allocs + 1, callers := upd s.callers c { k with pc := .mid, allocAt := s.allocs + 1 } }
      | none => none
    else none
  | .allocRet c =>
    let k := s.callers c
    if ¬ cfg.atomic ∧ k.pc = .mid then
      some { s with callers := upd s.callers c { k with pc := .allocated, id := s.counter } }
    else none
  | .register c =>
    let k := s.callers c
    if k.pc = .allocated then
      some { s with reg := upd s.reg k.id (some c), q := upd s.q c [], callers := upd s.callers c { k with pc := .registered } }
    else none
  | .send c =>
    let k := s.callers c
    if k.pc = .registered ∧ s.up then
      some { s with wire := s.wire ++ [k.id], callers := upd s.callers c { k with pc := .sent } }
    else none
  | .sendFail c =>
    let k := s.callers c
    if k.pc = .registered ∧ s.up then
      some { s with callers := upd s.callers c { k with pc := .got, result := none } }
    else none
  | .fire c =>
    let k := s.callers c
    if k.pc = .allocated ∧ s.up then
      some { s with wire := s.wire ++ [k.id], callers := upd s.callers c { k with pc := .done } }
    else none
  | .recv c =>
    let k := s.callers c
    if k.pc = .sent then
      match s.q c with
      | m :: rest => some { s with q := upd s.q c rest, callers := upd s.callers c { k with pc := .got, result := some m } }
      | [] => none
    else none
  | .timeout c =>
    let k := s.callers c
    if k.pc = .sent then
      match s.q c with
      | [] => some { s with callers := upd s.callers c { k with pc := .got, result := none } }
      | _ :: _ => none
    else none
  | .unregister c =>
    let k := s.callers c
    if k.pc = .got then
      match s.reg k.id with
      | some _ => some { s with reg := upd s.reg k.id none, callers := upd s.callers c { k with pc := .done } }
      | none => some { s with callers := upd s.callers c { k with pc := .done, keyErr := true, result := none } }
    else none
  | .rxPart n =>
    -- bytes of a frame that is not complete yet: `_process_received_data` leaves them in the receive buffer
    if s.up ∧ 0 < n then some { s with stale := s.stale + n } else none
  | .rx m =>
    -- the (rest of the) frame arrived: it is cut off the receive buffer, decoded and queued for dispatch
    if s.up then some { s with inbox := s.inbox ++ [m], arrived := s.arrived ++ [m], stale := 0 } else none
  | .pop d =>
    match s.disp[d]?, s.inbox with
    | some dd, m :: rest =>
      if dd.stopped = false ∧ dd.cur = none then
        some { s with inbox := rest, popped := s.popped ++ [m], disp := s.disp.set d { dd with cur := some (m, false) } }
      else none
    | _, _ => none
  | .handle d =>
    -- `if message.header.system in self._response_queues:` … `else: self.events.fire("message_received", …)`
    match s.disp[d]? with
    | some dd =>
      match dd.cur with
      | some (m, false) =>
        if dd.routing then none else
        match (if cfg.replyOnly && m.primary then none else s.reg m.sys) with
        | some _ => some { s with disp := s.disp.set d { dd with routing := true } }
        | none =>
          some { s with delivered := s.delivered ++ [m], handled := s.handled ++ [(m, false)], disp := s.disp.set d { dd with cur := some (m, true) } }
      | _ => none
    | none => none
  | .put d =>
    -- `self._response_queues[message.header.system].put_nowait(message)`; a `KeyError` is swallowed by `_dispatch_block`
    match s.disp[d]? with
    | some dd =>
      match dd.cur with
      | some (m, false) =>
        if dd.routing then
          match s.reg m.sys with
          | some c =>
            some { s with q := upd s.q c (s.q c ++ [m]), handled := s.handled ++ [(m, true)], disp := s.disp.set d { dd with cur := none, routing := false } }
          | none =>
            some { s with lost := s.lost ++ [m], handled := s.handled ++ [(m, true)], disp := s.disp.set d { dd with cur := none, routing := false } }
        else none
      | _ => none
    | none => none
  | .finish d =>
    match s.disp[d]? with
    | some dd =>
      match dd.cur with
      | some (_, true) => some { s with disp := s.disp.set d { dd with cur := none } }
      | _ => none
    | none => none
  | .linkDown =>
    if s.up then
      -- `_on_disconnected`: `self._thread.stop()`, `self._receive_buffer.clear()` (the dispatch queue is NOT cleared)
      some { s with up := false, stale := 0, disp := if cfg.patched then s.disp.map (fun d => { d with stopped := true }) else s.disp }
    else none
  | .linkUp =>
    if s.up then none else
      some { s with up := true, disp := s.disp ++ [{}], ups := s.ups + 1 }

/-- ghost bookkeeping after a step -/
def mark (s : State) : State := { s with everTwo := s.everTwo || decide (1 < active s) }

def step (cfg : Cfg) (s : State) (i : Step) : Option State := (step0 cfg s i).map mark

def sys (cfg : Cfg) : Sys State Step where
  init := init cfg
  step := step cfg

/-- has an id and has not returned -/
def Pc.hasId : Pc → Bool
  | .allocated | .registered | .sent | .got => true
  | _ => false

end SecsModel.Model.Txn
