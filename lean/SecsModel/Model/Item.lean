import SecsModel.Model.Var
import SecsModel.Gen.ItemTypes
import SecsModel.Gen.ItemHeaderItem
/-!
# Model.Item — hand model of the Item API (`secsgem/secs/item.py`, `item_number.py`, `item_b.py`, `item_boolean.py`,
`item_str.py`, `item_l.py`, `packet_data.py`)

`validate_value` per class, `encode`, `Item.decode` over `PacketData` (consuming slices: `get_one` raises `IndexError` on empty
data, `get(n)` silently returns fewer bytes), `Item.from_value`, the `value` property.  Class constants are the generated
`Gen.ItemTypes` rows, the header is the generated `Gen.ItemHeaderItem.encode`, the type choice of `from_value` follows the
generated `isinstance` chain and type-name lists.  An item's state is a `Spec.E5.Val`.
Quirks kept: `ItemB`/`ItemStr`/`ItemBOOLEAN.decode` do not notice a truncated body; NaN and ±inf are refused (unlike the
variables API); `bool` passes for `int`; `ItemStr` does not test that a `str` is encodable until `encode`.
-/
namespace SecsModel.Model.Item
open SecsModel SecsModel.Spec.E5 SecsModel.Model.Var

abbrev Row := Gen.ItemTypes.Row

def rowOf : Ty → Row
  | .b => Gen.ItemTypes.ItemB | .bool => Gen.ItemTypes.ItemBOOLEAN | .a => Gen.ItemTypes.ItemA | .j => Gen.ItemTypes.ItemJ
  | .i8 => Gen.ItemTypes.ItemI8 | .i1 => Gen.ItemTypes.ItemI1 | .i2 => Gen.ItemTypes.ItemI2 | .i4 => Gen.ItemTypes.ItemI4
  | .f8 => Gen.ItemTypes.ItemF8 | .f4 => Gen.ItemTypes.ItemF4
  | .u8 => Gen.ItemTypes.ItemU8 | .u1 => Gen.ItemTypes.ItemU1 | .u2 => Gen.ItemTypes.ItemU2 | .u4 => Gen.ItemTypes.ItemU4

/-- a registered class: the list class or a leaf class -/
inductive ITag | l | leaf (t : Ty)
deriving DecidableEq, Repr

def tagRow : ITag → Row
  | .l => Gen.ItemTypes.ItemL
  | .leaf t => rowOf t

def allTags : List ITag := .l :: Ty.all.map .leaf

/-- `_subclasses_by_sml[name]` (the class registered last under a name wins) -/
def bySml (name : String) : Option ITag :=
  (Gen.ItemTypes.table.reverse.find? (fun r => r.sml_type == name)).bind (fun r => allTags.find? (fun g => (tagRow g).cls == r.cls))

/-- `_subclasses_by_hsms[code]` -/
def byHsms (code : Nat) : Option ITag :=
  (Gen.ItemTypes.table.reverse.find? (fun r => r.hsms_type == (code : Int))).bind (fun r => allTags.find? (fun g => (tagRow g).cls == r.cls))

/-! ## bounds -/

/-- `cls._minimum_value <= value <= cls._maximum_value` -/
def inBounds (r : Row) (e : Int) : Bool :=
  if r.is_float then IEEE.fle r.min.toNat e.toNat && IEEE.fle e.toNat r.max.toNat
  else decide (r.min ≤ e) && decide (e ≤ r.max)

def verifyAll (r : Row) : List Int → Except Err (List Int)
  | [] => .ok []
  | e :: es =>
    if !inBounds r e then .error .valueError else
    match verifyAll r es with
    | .error x => .error x
    | .ok rest => .ok (e :: rest)

/-! ## encode -/

def encodeLeaf (t : Ty) (es : List Int) : Except Err Bytes :=
  let r := rowOf t
  match t.kind with
  | .sint | .uint | .f32 | .f64 =>
    match Gen.ItemHeaderItem.encode r.hsms_type ((es.length : Int) * r.bytes) with
    | .error e => .error e
    | .ok h =>
      match packAll r.struct_code es with
      | .error e => .error e
      | .ok p => .ok (h ++ p)
  | .char | .jis =>
    match Gen.ItemHeaderItem.encode r.hsms_type (es.length : Int) with
    | .error e => .error e
    | .ok h =>
      match encodeText (codingOf r.encoding) es with
      | .error e => .error e
      | .ok p => .ok (h ++ p)
  | .byte =>
    match Gen.ItemHeaderItem.encode r.hsms_type (es.length : Int) with
    | .error e => .error e
    | .ok h => match Py.bytesOf es with | .error e => .error e | .ok p => .ok (h ++ p)
  | .bool =>
    match Gen.ItemHeaderItem.encode r.hsms_type (es.length : Int) with
    | .error e => .error e
    | .ok h => .ok (h ++ es.map (fun e => if e ≠ 0 then 1 else 0))

mutual
/-- `item.encode()` -/
def encode : Val → Except Err Bytes
  | .item t es => encodeLeaf t es
  | .list xs =>
    match Gen.ItemHeaderItem.encode Gen.ItemTypes.ItemL.hsms_type (xs.length : Int) with
    | .error e => .error e
    | .ok h =>
      match encodeList xs with
      | .error e => .error e
      | .ok p => .ok (h ++ p)
def encodeList : List Val → Except Err Bytes
  | [] => .ok []
  | x :: xs =>
    match encode x with
    | .error e => .error e
    | .ok a =>
      match encodeList xs with
      | .error e => .error e
      | .ok b => .ok (a ++ b)
end

/-! ## decode over `PacketData` -/

/-- `Item._decode_item_header`: (format code, length, remaining data); `get_one` on empty data is an `IndexError` -/
def decHeader : Bytes → Except Err (Nat × Nat × Bytes)
  | [] => .error .indexError
  | fb :: r =>
    if r.length < fb % 4 then .error .indexError else .ok (fb / 4, ofBe (r.take (fb % 4)), r.drop (fb % 4))

/-- the element loop of `ItemNumber.decode`: `data.get(w)` may come back short -/
def readNums (c : String) (w : Nat) : Nat → Bytes → Except Err (List Int × Bytes)
  | 0, bs => .ok ([], bs)
  | n+1, bs =>
    if (bs.take w).length ≠ w then .error .valueError else
    match unpack c (bs.take w) with
    | .error e => .error e
    | .ok v =>
      match readNums c w n (bs.drop w) with
      | .error e => .error e
      | .ok (vs, r) => .ok (v :: vs, r)

/-- `cls.decode(data)` of a leaf class, header included -/
def decLeaf (t : Ty) (bs : Bytes) : Except Err (Val × Bytes) :=
  let r := rowOf t
  match decHeader bs with
  | .error e => .error e
  | .ok (_, length, body) =>
    match t.kind with
    | .sint | .uint | .f32 | .f64 =>
      if r.bytes ≤ 0 then .error .other else
      let w := r.bytes.toNat
      match readNums r.struct_code w (length / w) body with
      | .error e => .error e
      | .ok (vs, rest) =>
        match verifyAll r vs with
        | .error e => .error e
        | .ok st => .ok (.item t st, rest)
    | .char | .jis =>
      match decodeText (codingOf r.encoding) (body.take length) with
      | .error e => .error e
      | .ok cps => .ok (.item t cps, body.drop length)
    | .byte => .ok (.item t ((body.take length).map (fun (b : Nat) => (b : Int))), body.drop length)
    | .bool => .ok (.item t ((body.take length).map (fun (b : Nat) => if 0 < b then 1 else 0)), body.drop length)

mutual
/-- `Item.decode(data)`: the item and what is left in the `PacketData` -/
def decode : Nat → Bytes → Except Err (Val × Bytes)
  | 0, _ => .error .other
  | _, [] => .error .indexError                       -- `peek` on empty data
  | f+1, fb :: r =>
    match byHsms (fb / 4) with
    | none => .error .typeError
    | some .l =>
      match decHeader (fb :: r) with
      | .error e => .error e
      | .ok (_, length, body) =>
        match decodeItems f length body with
        | .error e => .error e
        | .ok (xs, rest) => .ok (.list xs, rest)
    | some (.leaf t) => decLeaf t (fb :: r)
def decodeItems : Nat → Nat → Bytes → Except Err (List Val × Bytes)
  | _, 0, bs => .ok ([], bs)
  | 0, _+1, _ => .error .other
  | f+1, n+1, bs =>
    match decode f bs with
    | .error e => .error e
    | .ok (x, r) =>
      match decodeItems f n r with
      | .error e => .error e
      | .ok (xs, r') => .ok (x :: xs, r')
end

/-- `Item.decode(bytes)` -/
def decodeBytes (bs : Bytes) : Except Err (Val × Bytes) := decode (bs.length + 1) bs

/-! ## constructors -/

/-- `str.encode("utf-8")` -/
def utf8 : List Nat → Except Err Bytes
  | [] => .ok []
  | c :: cs =>
    if 0xD800 ≤ c ∧ c ≤ 0xDFFF ∨ 0x10FFFF < c then .error .valueError else
    match utf8 cs with
    | .error e => .error e
    | .ok r =>
      if c < 0x80 then .ok (c :: r)
      else if c < 0x800 then .ok ((0xC0 + c / 64) :: (0x80 + c % 64) :: r)
      else if c < 0x10000 then .ok ((0xE0 + c / 4096) :: (0x80 + c / 64 % 64) :: (0x80 + c % 64) :: r)
      else .ok ((0xF0 + c / 262144) :: (0x80 + c / 4096 % 64) :: (0x80 + c / 64 % 64) :: (0x80 + c % 64) :: r)

/-- one element of an `ItemNumber` input: `isinstance(x, cls._type)` then the bounds -/
def numElem (r : Row) (p : PyVal) : Except Err Int :=
  match (if r.is_float then (match p with | .float x => some (x : Int) | _ => none)
         else (match p with | .int n => some n | .bool b => some (if b then 1 else 0) | _ => none)) with
  | none => .error .typeError
  | some e => if inBounds r e then .ok e else .error .valueError

def numElems (r : Row) : List PyVal → Except Err (List Int)
  | [] => .ok []
  | p :: ps =>
    match numElem r p with
    | .error e => .error e
    | .ok v => match numElems r ps with | .error e => .error e | .ok vs => .ok (v :: vs)

/-- one element of an `ItemB` input: the bytes it contributes -/
def binElem (r : Row) (p : PyVal) : Except Err Bytes :=
  match p with
  | .int n => if inBounds r n then .ok [n.toNat] else .error .valueError
  | .bool b => if inBounds r (if b then 1 else 0) then .ok [if b then 1 else 0] else .error .valueError
  | .bytes bs => .ok bs
  | .str cps => utf8 cps
  | _ => .error .typeError

def binElems (r : Row) : List PyVal → Except Err Bytes
  | [] => .ok []
  | p :: ps =>
    match binElem r p with
    | .error e => .error e
    | .ok b => match binElems r ps with | .error e => .error e | .ok bs => .ok (b ++ bs)

def boolElem (r : Row) (p : PyVal) : Except Err Int :=
  match p with
  | .int n => if inBounds r n then .ok (if n = 1 then 1 else 0) else .error .valueError
  | .bool b => if inBounds r (if b then 1 else 0) then .ok (if b then 1 else 0) else .error .valueError
  | _ => .error .typeError

def boolElems (r : Row) : List PyVal → Except Err (List Int)
  | [] => .ok []
  | p :: ps =>
    match boolElem r p with
    | .error e => .error e
    | .ok v => match boolElems r ps with | .error e => .error e | .ok vs => .ok (v :: vs)

/-- `cls(value)._value` of a leaf class: `validate_value` -/
def validateLeaf (t : Ty) (p : PyVal) : Except Err (List Int) :=
  let r := rowOf t
  match t.kind with
  | .sint | .uint | .f32 | .f64 =>
    match p with
    | .list xs => numElems r xs
    | _ => match numElem r p with | .error e => .error e | .ok v => .ok [v]
  | .byte =>
    match (match p with | .list xs => binElems r xs | _ => binElem r p) with
    | .error e => .error e
    | .ok bs => .ok (bs.map (fun (b : Nat) => (b : Int)))
  | .bool =>
    match p with
    | .list xs => boolElems r xs
    | _ => match boolElem r p with | .error e => .error e | .ok v => .ok [v]
  | .char | .jis =>
    match p with
    | .str cps => .ok (cps.map (fun (c : Nat) => (c : Int)))
    | .bytes bs => decodeText (codingOf r.encoding) bs
    | _ => .error .valueError

/-- the python type names an `isinstance(value, T)` test of `from_value` accepts -/
def isInstance (tyName : String) : PyVal → Bool
  | .obj _ => tyName == "Item"
  | .list _ => tyName == "list"
  | .str _ => tyName == "str"
  | .bytes _ => tyName == "bytes"
  | .bool _ => tyName == "bool" || tyName == "int"
  | .float _ => tyName == "float"
  | .int _ => tyName == "int"
  | .tuple _ => tyName == "tuple"
  | .bytearray _ => tyName == "bytearray"
  | .none => false

/-- `_from_value_int/_from_value_float`: first listed type whose bounds hold the value, else the fall-through type -/
def pickType (names : List String) (fallback : String) (e : Int) : Option ITag :=
  match names.find? (fun n => match bySml n with | some g => inBounds (tagRow g) e | none => false) with
  | some n => bySml n
  | none => bySml fallback

def isOk {α} : Except Err α → Bool | .ok _ => true | .error _ => false

mutual
/-- `Item.from_value(p)` -/
def fromValue : PyVal → Except Err Val
  | .obj v => if Gen.ItemTypes.fromValueChain.any (fun c => c.1 == "Item" && c.2.1 == "self") then .ok v else .error .valueError
  | .list xs =>
    match (Gen.ItemTypes.fromValueChain.find? (fun c => c.1 == "list")).map (·.2) with
    | some ("sml", "L") => match fromValues xs with | .error e => .error e | .ok vs => .ok (.list vs)
    | _ => .error .valueError
  | p =>
    match (Gen.ItemTypes.fromValueChain.find? (fun c => isInstance c.1 p)).map (·.2) with
    | none => .error .valueError
    | some (how, name) =>
      let tag : Option ITag :=
        if how == "fn" && name == "_from_value_int" then
          (match p with
           | .int n => pickType (if n ≥ 0 then Gen.ItemTypes.fromValueUnsigned else Gen.ItemTypes.fromValueSigned) Gen.ItemTypes.fromValueIntFallback n
           | .bool b => pickType Gen.ItemTypes.fromValueUnsigned Gen.ItemTypes.fromValueIntFallback (if b then 1 else 0)
           | _ => none)
        else if how == "fn" && name == "_from_value_float" then
          (match p with
           | .float x => pickType Gen.ItemTypes.fromValueFloat Gen.ItemTypes.fromValueFloatFallback (x : Int)
           | _ => none)
        else if how == "sml" then bySml name
        else none
      match tag with
      | some (.leaf t) => match validateLeaf t p with | .error e => .error e | .ok es => .ok (.item t es)
      | _ => .error .valueError
def fromValues : List PyVal → Except Err (List Val)
  | [] => .ok []
  | p :: ps =>
    match fromValue p with
    | .error e => .error e
    | .ok v => match fromValues ps with | .error e => .error e | .ok vs => .ok (v :: vs)
end

/-- `ItemL(value)._value`: every element through `from_value` -/
def validateList (p : PyVal) : Except Err Val :=
  match p with
  | .list xs => match fromValues xs with | .error e => .error e | .ok vs => .ok (.list vs)
  | _ => .error .valueError

/-- `cls(value)` for a registered class -/
def construct (g : ITag) (p : PyVal) : Except Err Val :=
  match g with
  | .l => validateList p
  | .leaf t => match validateLeaf t p with | .error e => .error e | .ok es => .ok (.item t es)

mutual
/-- the `value` property -/
def valueOf : Val → PyVal
  | .list xs => .list (valuesOf xs)
  | .item t es =>
    let one (e : Int) : PyVal :=
      match t.kind with
      | .bool => .bool (e ≠ 0)
      | .f32 | .f64 => .float e.toNat
      | _ => .int e
    match t.kind with
    | .byte => .bytes (es.map Int.toNat)
    | .char | .jis => .str (es.map Int.toNat)
    | _ => match es with | [e] => one e | _ => .list (es.map one)
def valuesOf : List Val → List PyVal
  | [] => []
  | x :: xs => valueOf x :: valuesOf xs
end

end SecsModel.Model.Item
