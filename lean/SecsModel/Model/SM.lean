import SecsModel.Gen.Machines
/-!
# Model.SM — the state-machine engine of `secsgem/common/state_machine.py` (+ `events.py`)

Executable, total model of `StateMachine._perform_transition`, `State.enter`, `State.leave`, `Transition.__call__` and
`EventProducer.fire`, statement by statement:

```
_perform_transition(name):                       State.leave(destination):                 State.enter(source):
  transition = self.transition(name)   (unknown)   self.events.fire("leave")                 self._active = True
  if cur not in transition.sources: raise           self._active = False                      self.events.fire("enter")
  self._current_state.leave(destination)            if parent is not None and                 if parent is not None and
  old_state = self._current_state   (read AFTER)        (destination is None or                   (source is None or
  self._current_state = destination                      destination.parent != self.parent):       source.parent != self.parent):
  destination.enter(old_state)                        parent.leave(destination.parent | None)     parent.enter(source.parent | None)
  transition()            (fires "called")
```

States are numbered in creation order (a parent is created before its children: `parent < child`).
Handlers: for each event the list of registered callbacks; a callback is a function from the state at the moment it runs to the
transition names it requests (it requests by calling `_perform_transition`, i.e. *nested*, before `fire` returns).  An exception
(unknown transition, wrong source state) propagates through every frame: the model returns the state at the moment of the raise.
All functions take one fuel argument (Python: the recursion limit); `fail .fuel` stands for `RecursionError`.
-/
namespace SecsModel.Model.SM

inductive Ev
  | enter (s : Nat) | leave (s : Nat) | called (t : String)
deriving DecidableEq, Repr

/-- what a request can raise -/
inductive Fail
  | unknown        -- `UnknownTransitionError`
  | wrongSource    -- `WrongSourceStateError`
  | fuel           -- recursion limit (`RecursionError`)
deriving DecidableEq, Repr

structure MDef where
  n : Nat
  parent : Nat → Option Nat
  trans : List (String × List Nat × Nat)

/-- everything observable: `_current_state`, every `State._active`, and the recorded events -/
structure St where
  cur : Nat
  active : Nat → Bool
  log : List Ev

inductive Out
  | ok (s : St)
  | fail (e : Fail) (s : St)

def Out.st : Out → St
  | .ok s => s
  | .fail _ s => s

def Out.err : Out → Option Fail
  | .ok _ => none
  | .fail e _ => some e

/-- one registered callback: the transitions it requests (by calling `_perform_transition`), given the state at the moment it runs -/
abbrev Callback := St → List String

/-- the callbacks registered on an event, in registration order (`Event.__call__` runs them one after the other) -/
abbrev Handlers := Ev → List Callback

def setFlag (a : Nat → Bool) (s : Nat) (b : Bool) : Nat → Bool := fun x => if x = s then b else a x

/-- `StateMachine.transition(name)`: first transition of that name -/
def lookup (m : MDef) (name : String) : Option (List Nat × Nat) :=
  match m.trans.find? (fun t => t.1 == name) with
  | some t => some t.2
  | none => none

/-- the test `parent is not None and (other is None or other.parent != self.parent)` once `self.parent = some p` is known -/
def goesUp (m : MDef) (p : Nat) (other : Option Nat) : Bool :=
  match other with
  | none => true
  | some o => m.parent o != some p

mutual
def perform (m : MDef) (h : Handlers) : Nat → St → String → Out
  | 0, st, _ => .fail .fuel st
  | f+1, st, name =>
    match lookup m name with
    | none => .fail .unknown st
    | some (srcs, dst) =>
      if srcs.contains st.cur then
        match leave m h f st st.cur (some dst) with
        | .fail e s1 => .fail e s1
        | .ok s1 =>
          let old := s1.cur                                  -- read after `leave` returned
          match enter m h f { s1 with cur := dst } dst (some old) with
          | .fail e s2 => .fail e s2
          | .ok s2 => fire m h f s2 (.called name)
      else .fail .wrongSource st
def leave (m : MDef) (h : Handlers) : Nat → St → Nat → Option Nat → Out
  | 0, st, _, _ => .fail .fuel st
  | f+1, st, s, dest =>
    match fire m h f st (.leave s) with
    | .fail e s1 => .fail e s1
    | .ok s1 =>
      let s2 : St := { s1 with active := setFlag s1.active s false }
      match m.parent s with
      | none => .ok s2
      | some p => if goesUp m p dest then leave m h f s2 p (dest.bind m.parent) else .ok s2
def enter (m : MDef) (h : Handlers) : Nat → St → Nat → Option Nat → Out
  | 0, st, _, _ => .fail .fuel st
  | f+1, st, s, src =>
    let s0 : St := { st with active := setFlag st.active s true }   -- flag first ...
    match fire m h f s0 (.enter s) with                              -- ... then the event
    | .fail e s1 => .fail e s1
    | .ok s1 =>
      match m.parent s with
      | none => .ok s1
      | some p => if goesUp m p src then enter m h f s1 p (src.bind m.parent) else .ok s1
def fire (m : MDef) (h : Handlers) : Nat → St → Ev → Out
  | 0, st, _ => .fail .fuel st
  | f+1, st, ev =>
    let st1 : St := { st with log := st.log ++ [ev] }
    runCallbacks m h f st1 (h ev)
def runCallbacks (m : MDef) (h : Handlers) : Nat → St → List Callback → Out
  | 0, st, _ => .fail .fuel st
  | _+1, st, [] => .ok st
  | f+1, st, cb :: rest =>
    match performAll m h f st (cb st) with
    | .fail e s1 => .fail e s1
    | .ok s1 => runCallbacks m h f s1 rest
def performAll (m : MDef) (h : Handlers) : Nat → St → List String → Out
  | 0, st, _ => .fail .fuel st
  | _+1, st, [] => .ok st
  | f+1, st, nm :: rest =>
    match perform m h f st nm with
    | .fail e s1 => .fail e s1
    | .ok s1 => performAll m h f s1 rest
end

/-- no callback requests anything -/
def noHandlers : Handlers := fun _ => []

/-! ## ancestors -/

/-- `s`, its parent, its grand-parent, … (fuel `s` suffices because parents have smaller numbers) -/
def chainF (m : MDef) : Nat → Nat → List Nat
  | 0, s => [s]
  | f+1, s => match m.parent s with
    | none => [s]
    | some p => s :: chainF m f p

def chain (m : MDef) (s : Nat) : List Nat := chainF m s s

/-- the flags the property demands: exactly the current state and its ancestors -/
def canonFlags (m : MDef) (cur : Nat) : Nat → Bool := fun x => (chain m cur).contains x

def Inv (m : MDef) (st : St) : Prop := ∀ x, st.active x = (chain m st.cur).contains x

/-- decidable version over the declared states -/
def invB (m : MDef) (st : St) : Bool := (List.range m.n).all fun x => st.active x == (chain m st.cur).contains x

def flags (m : MDef) (st : St) : List Bool := (List.range m.n).map st.active

/-- well-formed definition: parents precede children, transitions mention declared states only -/
def WF (m : MDef) : Prop := ∀ s p, m.parent s = some p → p < s

def wfB (m : MDef) : Bool :=
  (List.range m.n).all (fun s => match m.parent s with | none => true | some p => decide (p < s)) &&
  m.trans.all (fun t => t.2.1.all (fun s => decide (s < m.n)) && decide (t.2.2 < m.n))

def isFlat (m : MDef) : Prop := ∀ s, m.parent s = none

/-! ## a shipped machine (generated table) as an `MDef` -/

open SecsModel.Gen in
/-- index of a state name in declaration order; an unknown name maps to `states.length` (out of range — the obligations
`SecsModel.Proofs.SMGen.*_resolves` show that this never happens for the generated tables) -/
def stateIdx (t : MachineTable) (name : String) : Nat :=
  match t.states.findIdx? (fun r => r.1 == name) with
  | some i => i
  | none => t.states.length

open SecsModel.Gen in
def ofTable (t : MachineTable) : MDef where
  n := t.states.length
  parent := fun s => match t.states[s]? with
    | some (_, _, some p, _) => some (stateIdx t p)
    | _ => none
  trans := t.transitions.map fun r => (r.1, r.2.1.map (stateIdx t), stateIdx t r.2.2)

open SecsModel.Gen in
/-- the machine right after its constructor: `_current_state` and the `initial=` flags -/
def initOf (t : MachineTable) : St where
  cur := stateIdx t t.initial
  active := fun s => match t.states[s]? with
    | some (_, _, _, i) => i
    | none => false
  log := []

open SecsModel.Gen in
def stateName (t : MachineTable) (s : Nat) : String :=
  match t.states[s]? with
  | some r => r.1
  | none => "?"

open SecsModel.Gen in
def stateValue (t : MachineTable) (s : Nat) : Int :=
  match t.states[s]? with
  | some r => r.2.1
  | none => -1

end SecsModel.Model.SM
