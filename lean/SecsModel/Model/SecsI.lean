import SecsModel.Basic.Py
import SecsModel.Gen.SecsIHeader
import SecsModel.Gen.BlockFmt
/-!
# Model.SecsI — SECS-I blocks, message split and reassembly (hand model of the Python)

Follows `secsgem/common/message.py` (`Block.checksum/encode/decode`, `Message._split_blocks/from_block`),
`secsgem/secsi/message.py` (`SecsIMessage.header/data/complete`) and `Protocol._add_message_block`
(`secsgem/common/protocol.py`) statement by statement.  The header codec is the *generated*
`Gen.SecsIHeader.encode/decode`; widths and block size are the generated `Gen.BlockFmt` constants.
-/
namespace SecsModel.Model.SecsI
open SecsModel Gen

abbrev Header := Gen.SecsIHeader

structure Block where
  header : Header
  data : Bytes
deriving DecidableEq, Repr

/-- chunks of `n` (> 0) elements, `[data[i:i+n] for i in range(0, len(data), n)]` -/
def chunks (n : Nat) (data : Bytes) : List Bytes :=
  if h : n = 0 ∨ data = [] then [] else
    data.take n :: chunks n (data.drop n)
termination_by data.length
decreasing_by
  have : data ≠ [] := fun e => h (Or.inr e)
  have : 0 < data.length := List.length_pos_iff.mpr this
  simp only [List.length_drop]; omega

/-- `Block.checksum`: plain integer sum of header bytes (re-encoded) and data -/
def checksum (b : Block) : Except Err Nat :=
  match b.header.encode with
  | .error e => .error e
  | .ok hb => .ok ((hb ++ b.data).sum)

/-- `Block.encode` for given widths: `struct.pack(">{L}{hl}s{n}s{C}", hl+n, hdr, data, sum)` -/
def Block.encodeW (lw cw hl : Nat) (b : Block) : Except Err Bytes :=
  match b.header.encode with
  | .error e => .error e
  | .ok hb =>
    match Py.packBE [(lw, ((hl + b.data.length : Nat) : Int))] with
    | .error e => .error e
    | .ok lb =>
      match Py.packBE [(cw, (((hb ++ b.data).sum : Nat) : Int))] with
      | .error e => .error e
      | .ok cb => .ok (lb ++ (hb.take hl ++ List.replicate (hl - hb.length) 0) ++ b.data ++ cb)

/-- `Block.encode` with `length_format="B"`, `checksum_format="H"` (generated widths) -/
def Block.encode (b : Block) : Except Err Bytes :=
  Block.encodeW BlockFmt.secsiLengthWidth BlockFmt.secsiChecksumWidth SecsIHeader.length b

/-- `Block.decode`: `.ok none` is the Python `None` (checksum mismatch); errors are `struct.error` -/
def Block.decode (raw : Bytes) : Except Err (Option Block) :=
  let lw := BlockFmt.secsiLengthWidth
  let cw := BlockFmt.secsiChecksumWidth
  if raw.length < lw then .error .structError else
  let l := ofBe (raw.take lw)
  if l < SecsIHeader.length then .error .structError else   -- negative repeat count in the format string
  let n := l - SecsIHeader.length
  if raw.length ≠ lw + SecsIHeader.length + n + cw then .error .structError else
  let hb := (raw.drop lw).take SecsIHeader.length
  let data := (raw.drop (lw + SecsIHeader.length)).take n
  let ck := ofBe (raw.drop (lw + SecsIHeader.length + n))
  match SecsIHeader.decode hb with
  | .error e => .error e
  | .ok h =>
    let b : Block := ⟨h, data⟩
    match checksum b with
    | .error e => .error e
    | .ok s => if s ≠ ck then .ok none else .ok (some b)

/-- numbering loop of `_split_blocks`: `index` is 0-based, `total = len(data_blocks)` -/
def number (h : Header) (complete : Bool) (total : Nat) : Nat → List Bytes → List Block
  | _, [] => []
  | index, d :: ds =>
    let last := if complete then decide (index + 1 = total) else h.last_block
    ⟨{ h with block := ((index + 1 : Nat) : Int), last_block := last }, d⟩ :: number h complete total (index + 1) ds

/-- `SecsIMessage._split_blocks(data, header, complete)` with `block_size = 244` -/
def split (h : Header) (data : Bytes) (complete : Bool := true) : List Block :=
  let bs := BlockFmt.secsiBlockSize
  if bs = -1 then [⟨h, data⟩] else
  let dataBlocks := if data.length = 0 then [data] else chunks bs.toNat data
  number h complete dataBlocks.length 0 dataBlocks

/-- a message is its list of blocks -/
abbrev Message := List Block

def Message.data (m : Message) : Bytes := (m.map (·.data)).flatten
def Message.header? (m : Message) : Option Header := m.getLast?.map (·.header)
def Message.complete (m : Message) : Bool := match m.getLast? with | some b => b.header.last_block | none => false

/-- the reassembly dictionary `_incomplete_messages` as an association list keyed by system bytes -/
abbrev Pending := List (Int × Message)

def Pending.lookup (p : Pending) (k : Int) : Option Message := (p.find? (·.1 == k)).map (·.2)
def Pending.erase (p : Pending) (k : Int) : Pending := p.filter (fun e => !(e.1 == k))
def Pending.set (p : Pending) (k : Int) (m : Message) : Pending :=
  if p.any (·.1 == k) then p.map (fun e => if e.1 == k then (k, m) else e) else p ++ [(k, m)]

/-- the message a block extends: a new one built by `message_type.from_block(block)`, or the pending one with the block appended -/
def extend (st : Option Message) (b : Block) : Message :=
  match st with
  | none => split b.header b.data false
  | some m => m ++ [b]

/-- `Protocol._add_message_block`: returns the new dictionary and the completed message, if any -/
def addBlock (p : Pending) (b : Block) : Pending × Option Message :=
  if (extend (p.lookup b.header.system) b).complete
  then (p.erase b.header.system, some (extend (p.lookup b.header.system) b))
  else (p.set b.header.system (extend (p.lookup b.header.system) b), none)

/-- feed a sequence of blocks; completed messages in completion order -/
def reassemble : Pending → List Block → Pending × List Message
  | p, [] => (p, [])
  | p, b :: bs =>
    let (p', r) := addBlock p b
    let (p'', rs) := reassemble p' bs
    (p'', (match r with | some m => [m] | none => []) ++ rs)

end SecsModel.Model.SecsI
