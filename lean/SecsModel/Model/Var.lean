import SecsModel.Spec.E5
import SecsModel.Gen.VarTypes
import SecsModel.Gen.Jis8
import SecsModel.Gen.ItemHeaderVar
/-!
# Model.Var — hand model of the variables API (`secsgem/secs/variables/*.py`)

Follows `Base.decode_item_header`, `BaseNumber/BaseText/Binary/Boolean/Array/List/Dynamic.encode/decode/set/get`
statement by statement.  Class constants (`format_code`, `_bytes`, `_struct_code`, `_min`, `_max`, `coding`, the
`Dynamic.decode` table, the `ANYVALUE` type list) are the *generated* `Gen.VarTypes` rows, the item header is the *generated*
`Gen.ItemHeaderVar.encode`, the JIS-8 table is the generated `Gen.Jis8.table`.

The state of a variable object is a `Spec.E5.Val` (elements as `Int`; floats as binary64 bit patterns).
Decoding is modelled on the suffix `data[start:]` plus the flag `len(data) == 0`; the Python position is `start + consumed`.
Quirks kept: no truncation check for text/binary bodies (the returned position may lie beyond the data), a body length that is
not a multiple of the element width is floored, Boolean decodes any non-zero byte to `True`, zero length bytes are accepted,
`Dynamic.decode` has no JIS8 entry, NaN passes the `_min/_max` test, `Array.decode` ignores `count`.
-/
namespace SecsModel.Model.Var
open SecsModel SecsModel.Spec.E5

abbrev Row := Gen.VarTypes.Row

/-- the class a leaf type is implemented by -/
def rowOf : Ty → Row
  | .b => Gen.VarTypes.cBinary | .bool => Gen.VarTypes.cBoolean | .a => Gen.VarTypes.cString | .j => Gen.VarTypes.cJIS8
  | .i8 => Gen.VarTypes.cI8 | .i1 => Gen.VarTypes.cI1 | .i2 => Gen.VarTypes.cI2 | .i4 => Gen.VarTypes.cI4
  | .f8 => Gen.VarTypes.cF8 | .f4 => Gen.VarTypes.cF4
  | .u8 => Gen.VarTypes.cU8 | .u1 => Gen.VarTypes.cU1 | .u2 => Gen.VarTypes.cU2 | .u4 => Gen.VarTypes.cU4

/-! ## `struct` codes -/

/-- element size of a one-character `struct` format, `none` for a character `struct` does not know -/
def structWidth (c : String) : Option Nat :=
  if c == "b" || c == "B" then some 1
  else if c == "h" || c == "H" then some 2
  else if c == "i" || c == "I" || c == "l" || c == "L" || c == "f" then some 4
  else if c == "q" || c == "Q" || c == "d" then some 8
  else none

/-- `struct.pack('>' + c, v)` for one number (floats: `v` is the binary64 pattern) -/
def pack (c : String) (v : Int) : Except Err Bytes :=
  if c == "B" || c == "H" || c == "I" || c == "L" || c == "Q" then
    match structWidth c with
    | none => .error .structError
    | some w => if 0 ≤ v ∧ v < ((256 ^ w : Nat) : Int) then .ok (be w v.toNat) else .error .structError
  else if c == "b" || c == "h" || c == "i" || c == "l" || c == "q" then
    match structWidth c with
    | none => .error .structError
    | some w =>
      if -((256 ^ w / 2 : Nat) : Int) ≤ v ∧ v < ((256 ^ w / 2 : Nat) : Int) then .ok (be w (toTwos w v)) else .error .structError
  else if c == "d" then .ok (be 8 v.toNat)
  else if c == "f" then
    match IEEE.round32 v.toNat with
    | .ok f => .ok (be 4 f)
    | .error e => .error e
  else .error .structError

/-- `struct.unpack('>' + c, bs)[0]` -/
def unpack (c : String) (bs : Bytes) : Except Err Int :=
  match structWidth c with
  | none => .error .structError
  | some w =>
    if bs.length ≠ w then .error .structError
    else if c == "b" || c == "h" || c == "i" || c == "l" || c == "q" then .ok (ofTwos w (ofBe bs))
    else if c == "f" then .ok ((IEEE.widen (ofBe bs) : Nat) : Int)
    else .ok ((ofBe bs : Nat) : Int)

/-! ## text codecs (`str.encode(coding)` / `bytes.decode(coding)`) -/

inductive Coding | latin1 | ascii | jis8 | unknown
deriving DecidableEq, Repr

def codingOf (s : String) : Coding :=
  if s == "latin-1" || s == "latin1" || s == "iso-8859-1" || s == "latin_1" then .latin1
  else if s == "ascii" || s == "us-ascii" then .ascii
  else if s == "jis_8" then .jis8
  else .unknown

/-- `jis8_encoding_map[c]`: the byte that decodes to code point `c` -/
def jisEncode (c : Int) : Option Nat :=
  (List.range 256).find? (fun b => (Gen.Jis8.table.getD b 0 : Int) == c && decide (b < Gen.Jis8.table.length))

def encodeChar (cd : Coding) (c : Int) : Except Err Nat :=
  match cd with
  | .latin1 => if 0 ≤ c ∧ c < 256 then .ok c.toNat else .error .valueError
  | .ascii => if 0 ≤ c ∧ c < 128 then .ok c.toNat else .error .valueError
  | .jis8 => match jisEncode c with | some b => .ok b | none => .error .valueError
  | .unknown => .error .other   -- LookupError

def encodeText (cd : Coding) : List Int → Except Err Bytes
  | [] => .ok []
  | c :: cs =>
    match encodeChar cd c with
    | .error e => .error e
    | .ok b =>
      match encodeText cd cs with
      | .error e => .error e
      | .ok r => .ok (b :: r)

def decodeChar (cd : Coding) (b : Nat) : Except Err Int :=
  match cd with
  | .latin1 => .ok (b : Int)
  | .ascii => if b < 128 then .ok (b : Int) else .error .valueError
  | .jis8 => match Gen.Jis8.table[b]? with | some c => .ok (c : Int) | none => .error .valueError
  | .unknown => .error .other

def decodeText (cd : Coding) : Bytes → Except Err (List Int)
  | [] => .ok []
  | b :: bs =>
    match decodeChar cd b with
    | .error e => .error e
    | .ok c =>
      match decodeText cd bs with
      | .error e => .error e
      | .ok r => .ok (c :: r)

/-! ## `set()` of what `decode` hands over, and the values a class accepts -/

/-- `item < self._min or item > self._max` (floats: Python float comparison, false for NaN) -/
def outOfRange (r : Row) (e : Int) : Bool :=
  if r.is_float then IEEE.flt e.toNat r.min.toNat || IEEE.flt r.max.toNat e.toNat
  else decide (e < r.min) || decide (e > r.max)

/-- the range loop of `_set_list` over already converted numbers -/
def checkRange (r : Row) : List Int → Except Err (List Int)
  | [] => .ok []
  | e :: es =>
    if outOfRange r e then .error .valueError else
    match checkRange r es with
    | .error x => .error x
    | .ok rest => .ok (e :: rest)

/-- `BaseNumber._set_list` on numbers of the class's own base type -/
def setNums (r : Row) (count : Int) (vs : List Int) : Except Err (List Int) :=
  if 0 ≤ count ∧ count < (vs.length : Int) then .error .valueError else checkRange r vs

/-- `BaseText.set(str)`: encodability test, then `0 < count < len` -/
def setStr (r : Row) (count : Int) (cps : List Int) : Except Err (List Int) :=
  match encodeText (codingOf r.coding) cps with
  | .error e => .error e
  | .ok _ => if 0 < count ∧ count < (cps.length : Int) then .error .valueError else .ok cps

/-- is `e` an element a variable of type `t` can hold after `set()` -/
def accElem (t : Ty) (e : Int) : Bool :=
  match t.kind with
  | .byte => decide (0 ≤ e ∧ e < 256)
  | .bool => decide (e = 0 ∨ e = 1)
  | .char | .jis => match encodeChar (codingOf (rowOf t).coding) e with | .ok _ => true | .error _ => false
  | .sint | .uint => !outOfRange (rowOf t) e
  | .f32 | .f64 => decide (0 ≤ e ∧ e < 18446744073709551616) && !outOfRange (rowOf t) e

mutual
/-- every element is one the type's `set()` lets through -/
def Accepted : Val → Prop
  | .item t es => ∀ e ∈ es, accElem t e = true
  | .list xs => AcceptedList xs
def AcceptedList : List Val → Prop
  | [] => True
  | x :: xs => Accepted x ∧ AcceptedList xs
end

/-! ## encode -/

def packAll (c : String) : List Int → Except Err Bytes
  | [] => .ok []
  | v :: vs =>
    match pack c v with
    | .error e => .error e
    | .ok b =>
      match packAll c vs with
      | .error e => .error e
      | .ok r => .ok (b ++ r)

/-- `encode()` of a leaf object of type `t` holding `es` -/
def encodeLeaf (t : Ty) (es : List Int) : Except Err Bytes :=
  let r := rowOf t
  match t.kind with
  | .sint | .uint | .f32 | .f64 =>
    match Gen.ItemHeaderVar.encode r.format_code ((es.length : Int) * r.bytes) with
    | .error e => .error e
    | .ok h =>
      match packAll r.struct_code es with
      | .error e => .error e
      | .ok p => .ok (h ++ p)
  | .char | .jis =>
    match Gen.ItemHeaderVar.encode r.format_code (es.length : Int) with
    | .error e => .error e
    | .ok h =>
      match encodeText (codingOf r.coding) es with
      | .error e => .error e
      | .ok p => .ok (h ++ p)
  | .byte =>
    match Gen.ItemHeaderVar.encode r.format_code (es.length : Int) with
    | .error e => .error e
    | .ok h => match Py.bytesOf es with | .error e => .error e | .ok p => .ok (h ++ p)
  | .bool =>
    match Gen.ItemHeaderVar.encode r.format_code (es.length : Int) with
    | .error e => .error e
    | .ok h => .ok (h ++ es.map (fun e => if e ≠ 0 then 1 else 0))

mutual
/-- `encode()` of the object tree holding `v` (`Array`, `List` and `Dynamic` are transparent) -/
def encode : Val → Except Err Bytes
  | .item t es => encodeLeaf t es
  | .list xs =>
    match Gen.ItemHeaderVar.encode Gen.VarTypes.cArray.format_code (xs.length : Int) with
    | .error e => .error e
    | .ok h =>
      match encodeList xs with
      | .error e => .error e
      | .ok p => .ok (h ++ p)
def encodeList : List Val → Except Err Bytes
  | [] => .ok []
  | x :: xs =>
    match encode x with
    | .error e => .error e
    | .ok a =>
      match encodeList xs with
      | .error e => .error e
      | .ok b => .ok (a ++ b)
end

/-! ## decode -/

/-- type descriptor of a variable object -/
inductive Tag | arr | leaf (t : Ty)
deriving DecidableEq, Repr

inductive Struct
  | leaf (t : Ty) (count : Int)                 -- `T(count=count)`
  | dyn (allowed : List Tag) (count : Int)      -- `Dynamic(types, count=count)`; `[]` = every type
  | array (elem : Struct) (count : Int)         -- `Array(elem, count=count)`
  | record (fields : List Struct)               -- `List([...])`
deriving Repr, Inhabited

def tagOfCls (s : String) : Option Tag :=
  if s == "Array" then some .arr else
  if s == "Binary" then some (.leaf .b) else if s == "Boolean" then some (.leaf .bool) else
  if s == "String" then some (.leaf .a) else if s == "JIS8" then some (.leaf .j) else
  if s == "I8" then some (.leaf .i8) else if s == "I1" then some (.leaf .i1) else
  if s == "I2" then some (.leaf .i2) else if s == "I4" then some (.leaf .i4) else
  if s == "F8" then some (.leaf .f8) else if s == "F4" then some (.leaf .f4) else
  if s == "U8" then some (.leaf .u8) else if s == "U1" then some (.leaf .u1) else
  if s == "U2" then some (.leaf .u2) else if s == "U4" then some (.leaf .u4) else none

def tagCode : Tag → Int
  | .arr => Gen.VarTypes.cArray.format_code
  | .leaf t => (rowOf t).format_code

/-- the `format_codes` dict of `Dynamic.decode` (a later duplicate key would win) -/
def dynTable : List Tag := Gen.VarTypes.dynamicDecode.filterMap tagOfCls

def dynLookup (code : Nat) : Option Tag := dynTable.reverse.find? (fun g => tagCode g == (code : Int))

/-- `ANYVALUE` -/
def anyTags : List Tag := Gen.VarTypes.anyvalueTypes.filterMap tagOfCls
def anyStruct : Struct := .dyn anyTags (-1)

/-- `Base.decode_item_header` on `data[start:]`: (bytes consumed, format code, length) -/
def decHeader (fmt : Int) (empty : Bool) (rest : Bytes) : Except Err (Nat × Nat × Nat) :=
  if empty then .error .valueError else
  match rest with
  | [] => .error .indexError
  | fb :: r =>
    if r.length < fb % 4 then .error .indexError else
    if 0 ≤ fmt ∧ fmt ≠ ((fb / 4 : Nat) : Int) then .error .valueError else
    .ok (1 + fb % 4, fb / 4, ofBe (r.take (fb % 4)))

/-- the element loop of `BaseNumber.decode` -/
def readNums (c : String) (w : Nat) : Nat → Bytes → Except Err (List Int)
  | 0, _ => .ok []
  | n+1, bs =>
    if (bs.take w).length ≠ w then .error .valueError else
    match unpack c (bs.take w) with
    | .error e => .error e
    | .ok v =>
      match readNums c w n (bs.drop w) with
      | .error e => .error e
      | .ok vs => .ok (v :: vs)

/-- the element loop of `Boolean.decode` -/
def readBools : Nat → Bytes → Except Err (List Int)
  | 0, _ => .ok []
  | _+1, [] => .error .indexError
  | n+1, b :: bs =>
    match readBools n bs with
    | .error e => .error e
    | .ok vs => .ok ((if b = 0 then 0 else 1) :: vs)

/-- `decode` of a fresh leaf object `T(count=count)`: the value it holds afterwards and the bytes consumed -/
def decLeaf (t : Ty) (count : Int) (empty : Bool) (rest : Bytes) : Except Err (Val × Nat) :=
  let r := rowOf t
  match decHeader r.format_code empty rest with
  | .error e => .error e
  | .ok (hc, _, length) =>
    let body := rest.drop hc
    match t.kind with
    | .sint | .uint | .f32 | .f64 =>
      if r.bytes ≤ 0 then .error .other else
      let w := r.bytes.toNat
      match readNums r.struct_code w (length / w) body with
      | .error e => .error e
      | .ok vs =>
        match setNums r count vs with
        | .error e => .error e
        | .ok st => .ok (.item t st, hc + (length / w) * w)
    | .char | .jis =>
      match (if 0 < length then decodeText (codingOf r.coding) (body.take length) else .ok []) with
      | .error e => .error e
      | .ok cps =>
        match setStr r count cps with
        | .error e => .error e
        | .ok st => .ok (.item t st, hc + length)
    | .byte =>
      if 0 < length then
        if 0 < count ∧ count < ((body.take length).length : Int) then .error .valueError
        else .ok (.item t ((body.take length).map (fun (b : Nat) => (b : Int))), hc + length)
      else .ok (.item t [], hc + length)      -- `set(None)` leaves the fresh object empty
    | .bool =>
      match readBools length body with
      | .error e => .error e
      | .ok vs =>
        if 0 ≤ count ∧ count < (vs.length : Int) then .error .valueError else .ok (.item t vs, hc + length)

mutual
/-- `decode(data, start)` of a fresh object described by the `Struct`, on `rest = data[start:]` -/
def decS : Nat → Struct → Bool → Bytes → Except Err (Val × Nat)
  | 0, _, _, _ => .error .other
  | _+1, .leaf t c, empty, rest => decLeaf t c empty rest
  | f+1, .array el _, empty, rest =>
    match decHeader Gen.VarTypes.cArray.format_code empty rest with
    | .error e => .error e
    | .ok (hc, _, length) =>
      match decArr f el empty length (rest.drop hc) with
      | .error e => .error e
      | .ok (xs, used) => .ok (.list xs, hc + used)
  | f+1, .record fs, empty, rest =>
    match decHeader Gen.VarTypes.cList.format_code empty rest with
    | .error e => .error e
    | .ok (hc, _, length) =>
      match decRec f fs empty length (rest.drop hc) with
      | .error e => .error e
      | .ok (xs, used) => .ok (.list xs, hc + used)
  | f+1, .dyn allowed c, empty, rest =>
    match decHeader (-1) empty rest with
    | .error e => .error e
    | .ok (_, code, _) =>
      match dynLookup code with
      | none => .error .valueError
      | some g =>
        if !(allowed.isEmpty || allowed.contains g) then .error .valueError else
        match g with
        | .arr => decS f (.array (.dyn anyTags (-1)) (-1)) empty rest
        | .leaf t => decLeaf t c empty rest
/-- the loop of `Array.decode`: `n` fresh elements -/
def decArr : Nat → Struct → Bool → Nat → Bytes → Except Err (List Val × Nat)
  | _, _, _, 0, _ => .ok ([], 0)
  | 0, _, _, _+1, _ => .error .other
  | f+1, el, empty, n+1, rest =>
    match decS f el empty rest with
    | .error e => .error e
    | .ok (v, u) =>
      match decArr f el empty n (rest.drop u) with
      | .error e => .error e
      | .ok (vs, us) => .ok (v :: vs, u + us)
/-- the loop of `List.decode`: the first `n` fields (`IndexError` beyond the last field) -/
def decRec : Nat → List Struct → Bool → Nat → Bytes → Except Err (List Val × Nat)
  | _, _, _, 0, _ => .ok ([], 0)
  | _, [], _, _+1, _ => .error .indexError
  | 0, _ :: _, _, _+1, _ => .error .other
  | f+1, s :: ss, empty, n+1, rest =>
    match decS f s empty rest with
    | .error e => .error e
    | .ok (v, u) =>
      match decRec f ss empty n (rest.drop u) with
      | .error e => .error e
      | .ok (vs, us) => .ok (v :: vs, u + us)
end

/-- `obj.decode(data, start)` on a fresh object: the value held afterwards and the returned position -/
def decodeAs (s : Struct) (data : Bytes) (start : Nat) : Except Err (Val × Nat) :=
  match decS (2 * data.length + 4) s (data.length == 0) (data.drop start) with
  | .error e => .error e
  | .ok (v, used) => .ok (v, start + used)

/-- `ANYVALUE().decode(data, start)` -/
def decodeDyn (data : Bytes) (start : Nat) : Except Err (Val × Nat) := decodeAs anyStruct data start

/-! ## `set()` from plain Python values (constructor glue; validated by correspondence only) -/

inductive PyVal
  | none
  | bool (b : Bool)
  | int (n : Int)
  | float (bits : Nat)
  | str (cps : List Nat)
  | bytes (bs : Bytes)
  | bytearray (bs : Bytes)
  | list (xs : List PyVal)
  | tuple (xs : List PyVal)
  | obj (v : Val)          -- a variable / item object holding `v`
deriving Repr, Inhabited

/-- `int(x)` of a float: truncation toward zero -/
def truncToInt (b : Nat) : Except Err Int :=
  if IEEE.isNaN64 b then .error .valueError
  else if IEEE.isInf64 b then .error .overflow
  else
    let e := IEEE.expo64 b
    let sig := if e = 0 then IEEE.frac64 b else 2^52 + IEEE.frac64 b
    let ex := max e 1
    let mag : Nat := if 1075 ≤ ex then sig * 2^(ex - 1075) else sig / 2^(1075 - ex)
    .ok (if IEEE.sign64 b = 1 then -(mag : Int) else (mag : Int))

/-- `float(n)` of an int: round to nearest even, `OverflowError` beyond the double range -/
def floatOfInt (n : Int) : Except Err Nat :=
  let a := n.natAbs
  let s := if n < 0 then 2^63 else 0
  if a = 0 then .ok 0
  else
    let l := Nat.log2 a          -- a ∈ [2^l, 2^(l+1))
    if l ≤ 52 then .ok (s + (l + 1023) * 2^52 + (a * 2^(52 - l) - 2^52))
    else
      let q := IEEE.rne a (l - 52)       -- ∈ [2^52, 2^53]
      let bits := (l + 1023) * 2^52 + (q - 2^52)   -- a carry to 2^53 moves into the exponent by itself
      if 2047 * 2^52 ≤ bits then .error .overflow else .ok (s + bits)

/-- `int("…")` for the modelled subset: optional sign and ASCII digits -/
def parseDec (cps : List Nat) : Except Err Int :=
  let (neg, ds) := match cps with
    | 45 :: r => (true, r)
    | 43 :: r => (false, r)
    | r => (false, r)
  if ds.isEmpty || !ds.all (fun c => 48 ≤ c && c ≤ 57) then .error .valueError
  else
    let n : Nat := ds.foldl (fun acc c => acc * 10 + (c - 48)) 0
    .ok (if neg then -(n : Int) else (n : Int))

/-- `str(n)` of an int as code points -/
def decimal (n : Int) : List Nat :=
  let ds := (Nat.toDigits 10 n.natAbs).map Char.toNat
  if n < 0 then 45 :: ds else ds

/-- `base_type(item)` -/
def convNum (r : Row) (p : PyVal) : Except Err Int :=
  if r.is_float then
    match p with
    | .bool b => .ok (if b then 0x3FF0000000000000 else 0)
    | .int n => match floatOfInt n with | .ok x => .ok (x : Int) | .error e => .error e
    | .float x => .ok (x : Int)
    | _ => .error .typeError
  else
    match p with
    | .bool b => .ok (if b then 1 else 0)
    | .int n => .ok n
    | .float x => truncToInt x
    | .str cps => parseDec cps
    | .bytes bs => parseDec bs
    | .bytearray bs => parseDec bs
    | _ => .error .typeError

def convAll (r : Row) : List PyVal → Except Err (List Int)
  | [] => .ok []
  | p :: ps =>
    match convNum r p with
    | .error e => .error e
    | .ok v =>
      if outOfRange r v then .error .valueError else
      match convAll r ps with
      | .error e => .error e
      | .ok vs => .ok (v :: vs)

/-- is the pair inside the part of `set()` this model covers (float classes: no numeric strings; text: no floats) -/
def modelledLeaf (t : Ty) : PyVal → Bool
  | .str _ | .bytes _ => match t.kind with | .f32 | .f64 => false | _ => true
  | .float _ => match t.kind with | .char | .jis => false | _ => true
  | .list xs | .tuple xs => xs.all (fun p => match p with
      | .str _ | .bytes _ | .bytearray _ => (match t.kind with | .f32 | .f64 => false | _ => true)
      | _ => true)
  | .obj _ => false
  | _ => true

/-- `bytearray(list)` -/
def bytesOfPy : List PyVal → Except Err Bytes
  | [] => .ok []
  | p :: ps =>
    match (match p with
      | .int n => if 0 ≤ n ∧ n < 256 then (Except.ok n.toNat : Except Err Nat) else .error .valueError
      | .bool b => .ok (if b then 1 else 0)
      | _ => .error .typeError) with
    | .error e => .error e
    | .ok b => match bytesOfPy ps with | .error e => .error e | .ok r => .ok (b :: r)

def boolOfPy (p : PyVal) : Except Err Int :=
  match p with
  | .bool b => .ok (if b then 1 else 0)
  | .int n => if 0 ≤ n ∧ n ≤ 1 then .ok n else .error .valueError
  | .str cps =>
    let up := cps.map (fun c => if 97 ≤ c ∧ c ≤ 122 then c - 32 else c)
    if up == [84, 82, 85, 69] || up == [89, 69, 83] then .ok 1
    else if up == [70, 65, 76, 83, 69] || up == [78, 79] then .ok 0
    else .error .valueError
  | _ => .error .valueError

def boolsOfPy : List PyVal → Except Err (List Int)
  | [] => .ok []
  | p :: ps =>
    match boolOfPy p with
    | .error e => .error e
    | .ok b => match boolsOfPy ps with | .error e => .error e | .ok r => .ok (b :: r)

/-- `T(count=count).set(p)` for a leaf class: the elements held afterwards -/
def setLeaf (t : Ty) (count : Int) (p : PyVal) : Except Err (List Int) :=
  let r := rowOf t
  match t.kind with
  | .sint | .uint | .f32 | .f64 =>
    match p with
    | .float _ =>
      if !r.is_float then .error .valueError else
      match convAll r [p] with | .error e => .error e | .ok vs => .ok vs
    | .list xs | .tuple xs =>
      if 0 ≤ count ∧ count < (xs.length : Int) then .error .valueError else convAll r xs
    | .bytearray bs =>
      if 0 ≤ count ∧ count < (bs.length : Int) then .error .valueError else
      convAll r (bs.map (fun (b : Nat) => PyVal.int (b : Int)))
    | _ => convAll r [p]
  | .char | .jis =>
    let cd := codingOf r.coding
    let fin (cps : List Int) : Except Err (List Int) :=
      if 0 < count ∧ count < (cps.length : Int) then .error .valueError else .ok cps
    match p with
    | .none => .error .valueError
    | .bytes bs | .bytearray bs => match decodeText cd bs with | .error e => .error e | .ok cps => fin cps
    | .list xs | .tuple xs =>
      match bytesOfPy xs with
      | .error e => .error e
      | .ok bs => match decodeText cd bs with | .error e => .error e | .ok cps => fin cps
    | .bool b => fin ((if b then [84, 114, 117, 101] else [70, 97, 108, 115, 101]))
    | .int n => fin ((decimal n).map (fun (c : Nat) => (c : Int)))
    | .float _ => .error .other
    | .str cps =>
      match encodeText cd (cps.map (fun (c : Nat) => (c : Int))) with
      | .error e => .error e
      | .ok _ => fin (cps.map (fun (c : Nat) => (c : Int)))
    | .obj _ => .error .typeError
  | .byte =>
    let fin (bs : Bytes) : Except Err (List Int) :=
      if 0 < count ∧ count < (bs.length : Int) then .error .valueError else .ok (bs.map (fun (b : Nat) => (b : Int)))
    match p with
    | .none => .ok []
    | .bytes bs | .bytearray bs => fin bs
    | .str cps => match encodeText .ascii (cps.map (fun (c : Nat) => (c : Int))) with | .error e => .error e | .ok bs => fin bs
    | .list xs | .tuple xs => match bytesOfPy xs with | .error e => .error e | .ok bs => fin bs
    | .bool b => fin [if b then 1 else 0]
    | .int n => if 0 ≤ n ∧ n ≤ 255 then fin [n.toNat] else .error .valueError
    | _ => .error .typeError
  | .bool =>
    match p with
    | .list xs | .tuple xs =>
      if 0 ≤ count ∧ count < (xs.length : Int) then .error .valueError else boolsOfPy xs
    | .bytearray bs =>
      if 0 ≤ count ∧ count < (bs.length : Int) then .error .valueError else
      if bs.all (fun b => b ≤ 1) then .ok (bs.map (fun (b : Nat) => (b : Int))) else .error .valueError
    | _ => match boolOfPy p with | .error e => .error e | .ok b => .ok [b]

/-- `get()` of a leaf object: one element comes back bare (Binary: as an int), otherwise the list / str / bytes -/
def getLeaf (t : Ty) (es : List Int) : PyVal :=
  let one (e : Int) : PyVal :=
    match t.kind with
    | .bool => .bool (e ≠ 0)
    | .f32 | .f64 => .float e.toNat
    | _ => .int e
  match t.kind with
  | .char | .jis => .str (es.map Int.toNat)
  | .byte => match es with | [e] => .int e | _ => .bytes (es.map Int.toNat)
  | _ => match es with | [e] => one e | _ => .list (es.map one)

end SecsModel.Model.Var
