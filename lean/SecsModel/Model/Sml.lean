/-!
# Model.Sml — SML text of items: printer, tokenizer, parser (hand model of the Python)

Follows, statement by statement,
* `secsgem/secs/item.py`       `Item.to_sml` (number/boolean/binary lists), `Item.from_sml`, `_read_item`, `_read_length`, `_read_items`,
                               `_verify_value_in_bounds`
* `secsgem/secs/item_str.py`   `ItemStr.to_sml` (printable-run / hex-code alternation), `ItemStr._read_sml_token`, `ItemA/ItemJ._char_coder`
* `secsgem/secs/item_l.py`     `ItemL.to_sml` (indentation, `[n]`, one child per line)
* `secsgem/secs/item_b.py`, `item_boolean.py`, `item_number.py`  `_format_value`, `_read_sml_token`
* `secsgem/secs/sml.py`        `SMLParser.parse_all` (character loop with delimiter mode; **no flush at end of input**), `get_token`/`peek_token`
* `secsgem/common/codec_jis_x_0201.py`  the `jis_8` charmap

Text is a list of Unicode code points (`Nat`); no Mathlib, no `String` (everything reduces in the kernel).

Python behaviours represented as data:
* `int(text)` / `int(text, 0)`  → `pyInt` (sign, surrounding whitespace, `_` separators, `0x/0o/0b` prefixes, the "leading zeros only for zero"
  rule of base 0).  Not modelled: non-ASCII decimal digits (`int("١")`), the 4300-digit limit.
* `f"{float}"` / `float(text)`  → abstract parameters `fmtF : Nat → Text` (IEEE-754 binary64 bit pattern ↦ text) and
  `parseF : Text → Option Nat`; theorems state the laws they need as hypotheses.
* exceptions → `PErr` (`index` = `IndexError`: token list exhausted; `parse` = `SMLParseError`; `value` = `ValueError`, which includes
  `UnicodeEncodeError`; `fuel` never occurs with the fuel `parse` supplies — theorem `C15_total`).
* `str.upper()` on a type name → ASCII upper-casing plus the two non-ASCII letters whose upper case is an ASCII letter (`ı`→`I`, `ſ`→`S`).

Two former defects (repaired in /repo; kept as regression variants) are carried behind `Defects` (DESIGN §4 "Model variants"):
* `quotePrintable` — `"` (34) is a member of `ItemStr.printable_chars`, so it is printed *inside* a quoted run
* `jis8Unicode`    — `ItemJ.to_sml` prints `hex(ord(ch))` of the **decoded** character instead of the code of the JIS-8 byte
-/
namespace SecsModel.Model.Sml

abbrev Ch := Nat
abbrev Text := List Nat

structure Defects where
  quotePrintable : Bool
  jis8Unicode : Bool
deriving DecidableEq, Repr

/-- the code since fix commits b87686c (quote) and 34e8c21 (JIS-8) -/
def Defects.none : Defects := ⟨false, false⟩
/-- the code before those two fixes (kept as a regression variant) -/
def Defects.current : Defects := ⟨true, true⟩

/-! ## character classes (`SMLParser.whitespaces / operators / literal_delimiter`, `ItemStr.printable_chars`) -/

def cSP : Nat := 32
def cNL : Nat := 10
def cQ : Nat := 34      -- "
def cLT : Nat := 60     -- <
def cGT : Nat := 62     -- >
def cLB : Nat := 91     -- [
def cRB : Nat := 93     -- ]

/-- `" \t\n\r"` -/
def isWs (c : Nat) : Bool := c == 32 || c == 9 || c == 10 || c == 13
/-- `"<>[]"` -/
def isOp (c : Nat) : Bool := c == 60 || c == 62 || c == 91 || c == 93
/-- `"'\""` -/
def isDelim (c : Nat) : Bool := c == 39 || c == 34
/-- a character that simply extends the current token -/
def isPlain (c : Nat) : Bool := !isWs c && !isOp c && !isDelim c

/-- `string.printable.replace("\n", "").replace("\r", "")` = 0x20..0x7e, TAB, VT, FF;  with the repair, minus `"` -/
def isPrintable (d : Defects) (c : Nat) : Bool :=
  ((32 ≤ c && c ≤ 126) || c == 9 || c == 11 || c == 12) && (d.quotePrintable || c != 34)

/-! ## the `jis_8` codec (`codec_jis_x_0201.py`) -/

/-- `jis8_decoding_map` on a byte -/
def jisDecode (b : Nat) : Nat :=
  if b = 0x5C then 0xA5 else if b = 0x7E then 0x203E else if 0xA1 ≤ b ∧ b < 0xE0 then b + 0xFEC0 else b

/-- `jis8_encoding_map` (`codecs.make_encoding_map`): the inverse; `none` = `UnicodeEncodeError` -/
def jisEncode (c : Nat) : Option Nat :=
  if c = 0xA5 then some 0x5C else if c = 0x203E then some 0x7E
  else if 0xFF61 ≤ c ∧ c ≤ 0xFF9F then some (c - 0xFEC0)
  else if c < 256 ∧ c ≠ 0x5C ∧ c ≠ 0x7E ∧ ¬ (0xA1 ≤ c ∧ c < 0xE0) then some c
  else none

/-- `text.encode(enc)` for a whole string: every character must be encodable -/
def encodeAll (enc : Nat → Option Nat) : Text → Option (List Nat)
  | [] => some []
  | c :: cs => match enc c, encodeAll enc cs with
    | some b, some bs => some (b :: bs)
    | _, _ => Option.none

def latin1Encode (c : Nat) : Option Nat := if c < 256 then some c else Option.none

/-! ## item trees -/

inductive IntTy | u1 | u2 | u4 | u8 | i1 | i2 | i4 | i8
deriving DecidableEq, Repr

inductive FltTy | f4 | f8
deriving DecidableEq, Repr

def IntTy.min : IntTy → Int
  | .u1 | .u2 | .u4 | .u8 => 0
  | .i1 => -128 | .i2 => -32768 | .i4 => -2147483648 | .i8 => -9223372036854775808
def IntTy.max : IntTy → Int
  | .u1 => 255 | .u2 => 65535 | .u4 => 4294967295 | .u8 => 18446744073709551615
  | .i1 => 127 | .i2 => 32767 | .i4 => 2147483647 | .i8 => 9223372036854775807

/-- binary64 bit pattern of `_maximum_value` (`_minimum_value` is its negation): FLT_MAX (as a double) and DBL_MAX -/
def FltTy.maxBits : FltTy → Nat
  | .f4 => 0x47EFFFFFE0000000
  | .f8 => 0x7FEFFFFFFFFFFFFF

/-- `_minimum_value <= x <= _maximum_value` on the bit pattern of the double `x`: magnitudes of doubles order like their low 63 bits;
infinities and NaNs have a larger magnitude pattern than DBL_MAX and fail (as in Python, where `nan` fails both comparisons) -/
def fltInBounds (t : FltTy) (b : Nat) : Bool := b % 2 ^ 63 ≤ t.maxBits

/-- an item as the Python object holds it: `A` as its latin-1 bytes (= code points), `J` as its JIS-8 bytes (the `str` value is their
`jis_8` decoding), floats as binary64 bit patterns (`ItemF4` holds an unrounded double within ±FLT_MAX) -/
inductive Item
  | list (xs : List Item)
  | bin (bs : List Nat)
  | bool (vs : List Bool)
  | strA (bs : List Nat)
  | strJ (bs : List Nat)
  | int (t : IntTy) (vs : List Int)
  | flt (t : FltTy) (vs : List Nat)
deriving Repr

mutual
/-- what the constructors admit (C14): bytes are bytes, numbers within the type's bounds, floats finite and within bounds -/
def Item.valid : Item → Bool
  | .list xs => validList xs
  | .bin bs => bs.all (· < 256)
  | .bool _ => true
  | .strA bs => bs.all (· < 256)
  | .strJ bs => bs.all (· < 256)
  | .int t vs => vs.all (fun v => t.min ≤ v && v ≤ t.max)
  | .flt t vs => vs.all (fun b => b < 2 ^ 64 && fltInBounds t b)
def validList : List Item → Bool
  | [] => true
  | x :: xs => x.valid && validList xs
end

/-! ## number text -/

/-- digit character, lower case (Python `hex`, `str`) -/
def digitCh (d : Nat) : Nat := if d < 10 then 48 + d else 87 + d

/-- little-endian digits of `n` in base `b + 2` (fuel-driven so that it reduces in the kernel; `fuel > n` suffices) -/
def digitsAux (b : Nat) : Nat → Nat → List Nat
  | 0, _ => []
  | f + 1, n => if n < b + 2 then [n] else n % (b + 2) :: digitsAux b f (n / (b + 2))

def digitsLE (b : Nat) (n : Nat) : List Nat := digitsAux b (n + 1) n

/-- `str(n)` for a natural number -/
def decNat (n : Nat) : Text := ((digitsLE 8 n).reverse).map digitCh
/-- `f"{v}"` / `str(v)` for an `int` -/
def decInt (v : Int) : Text := if v < 0 then 45 :: decNat v.natAbs else decNat v.toNat
/-- `hex(n)` for `n ≥ 0`: `0x` + lower-case digits, no padding -/
def hexLit (n : Nat) : Text := 48 :: 120 :: ((digitsLE 14 n).reverse).map digitCh

/-- what `int()` strips at both ends (observed on CPython 3.12: `str.isspace` minus 0x1c..0x1f) -/
def isPyWs (c : Nat) : Bool :=
  (9 ≤ c && c ≤ 13) || c == 32 || c == 0x85 || c == 0xA0 || c == 0x1680 || (0x2000 ≤ c && c ≤ 0x200A)
  || c == 0x2028 || c == 0x2029 || c == 0x202F || c == 0x205F || c == 0x3000

def stripWs (s : Text) : Text := ((s.dropWhile isPyWs).reverse.dropWhile isPyWs).reverse

def digitVal (c : Nat) : Option Nat :=
  if 48 ≤ c ∧ c ≤ 57 then some (c - 48)
  else if 97 ≤ c ∧ c ≤ 122 then some (c - 87)
  else if 65 ≤ c ∧ c ≤ 90 then some (c - 55)
  else Option.none

/-- the digit scan of `PyLong_FromString`: digits of the base with single `_` between digits; `cnt` digits seen so far -/
def digitsGo (base : Nat) : Text → (acc : Nat) → (prevUnderscore : Bool) → (cnt : Nat) → Option Nat
  | [], acc, pu, cnt => if pu || cnt == 0 then Option.none else some acc
  | c :: cs, acc, pu, cnt =>
    if c = 95 then (if pu || cnt == 0 then Option.none else digitsGo base cs acc true cnt)
    else match digitVal c with
      | some dv => if dv < base then digitsGo base cs (acc * base + dv) false (cnt + 1) else Option.none
      | Option.none => Option.none

/-- one `_` is allowed directly after a base prefix -/
def skipUnderscore : Text → Text
  | 95 :: r => r
  | r => r

def zeroOnly (r : Option Nat) : Option Nat := r.bind (fun n => if n = 0 then some 0 else Option.none)

/-- magnitude part of an integer literal, after whitespace and sign -/
def pyNat (base0 : Bool) (s : Text) : Option Nat :=
  if base0 then
    match s with
    | 48 :: p :: r =>
      if p = 120 ∨ p = 88 then digitsGo 16 (skipUnderscore r) 0 false 0
      else if p = 111 ∨ p = 79 then digitsGo 8 (skipUnderscore r) 0 false 0
      else if p = 98 ∨ p = 66 then digitsGo 2 (skipUnderscore r) 0 false 0
      else zeroOnly (digitsGo 10 s 0 false 0)
    | [48] => some 0
    | _ => digitsGo 10 s 0 false 0
  else digitsGo 10 s 0 false 0

/-- `int(text)` (`base0 = false`) and `int(text, 0)` (`base0 = true`); `none` = `ValueError` -/
def pyInt (base0 : Bool) (s : Text) : Option Int :=
  match stripWs s with
  | 43 :: r => (match pyNat base0 r with | some n => some (Int.ofNat n) | Option.none => Option.none)
  | 45 :: r => (match pyNat base0 r with | some n => some (- Int.ofNat n) | Option.none => Option.none)
  | r => (match pyNat base0 r with | some n => some (Int.ofNat n) | Option.none => Option.none)

/-! ## printer -/

def spaces (n : Nat) : Text := List.replicate n 32

/-- `sep.join(parts)` -/
def joinWith (sep : Text) : List Text → Text
  | [] => []
  | [x] => x
  | x :: y :: r => x ++ sep ++ joinWith sep (y :: r)

/-- `Item.to_sml` (numbers, BOOLEAN, B): `< T >` when empty, else `< T v1 v2 … >` -/
def seqSml (ind : Nat) (ty : Text) (vals : List Text) : Text :=
  if vals.isEmpty then spaces ind ++ [60, 32] ++ ty ++ [32, 62]
  else spaces ind ++ [60, 32] ++ ty ++ [32] ++ joinWith [32] vals ++ [32, 62]

/-- the loop of `ItemStr.to_sml` over the stored bytes; `dec b` is the character of the `str` value, `code b` the text printed
for an unprintable one; `last` = `last_char_printable` -/
def strLoop (pr : Nat → Bool) (dec : Nat → Nat) (code : Nat → Text) : List Nat → Bool → Text
  | [], last => if last then [34] else []
  | b :: bs, last =>
    if pr (dec b) then (if last then [dec b] else [32, 34, dec b]) ++ strLoop pr dec code bs true
    else (if last then [34, 32] else [32]) ++ code b ++ strLoop pr dec code bs false

/-- `ItemStr.to_sml`: `< A` data `>` -/
def strSml (ind : Nat) (ty : Text) (pr : Nat → Bool) (dec : Nat → Nat) (code : Nat → Text) (bs : List Nat) : Text :=
  spaces ind ++ [60, 32] ++ ty ++ strLoop pr dec code bs false ++ [62]

def tyL : Text := [76]
def tyB : Text := [66]
def tyBOOLEAN : Text := [66, 79, 79, 76, 69, 65, 78]
def tyA : Text := [65]
def tyJ : Text := [74]
def IntTy.name : IntTy → Text
  | .u1 => [85, 49] | .u2 => [85, 50] | .u4 => [85, 52] | .u8 => [85, 56]
  | .i1 => [73, 49] | .i2 => [73, 50] | .i4 => [73, 52] | .i8 => [73, 56]
def FltTy.name : FltTy → Text
  | .f4 => [70, 52] | .f8 => [70, 56]

/-- code printed for an unprintable character of a `J` item: `hex(ord(ch))` of the decoded character (defect) or of the byte -/
def jisCode (d : Defects) (b : Nat) : Text := hexLit (if d.jis8Unicode then jisDecode b else b)

mutual
/-- `item.to_sml(indent)` -/
def toSml (d : Defects) (fmtF : Nat → Text) : Nat → Item → Text
  | ind, .list xs =>
    if xs.isEmpty then spaces ind ++ [60, 32, 76, 32, 62]
    else spaces ind ++ [60, 32, 76, 32, 91] ++ decNat xs.length ++ [93, 10] ++ childrenSml d fmtF (ind + 4) xs ++ spaces ind ++ [62]
  | ind, .bin bs => seqSml ind tyB (bs.map hexLit)
  | ind, .bool vs => seqSml ind tyBOOLEAN (vs.map (fun v => if v then [48, 120, 49] else [48, 120, 48]))
  | ind, .strA bs => strSml ind tyA (isPrintable d) id hexLit bs
  | ind, .strJ bs => strSml ind tyJ (isPrintable d) jisDecode (jisCode d) bs
  | ind, .int t vs => seqSml ind t.name (vs.map decInt)
  | ind, .flt t vs => seqSml ind t.name (vs.map fmtF)
/-- `"\n".join(children) + "\n"` (every child line ends with a newline; the list is non-empty where this is used) -/
def childrenSml (d : Defects) (fmtF : Nat → Text) : Nat → List Item → Text
  | _, [] => []
  | ind, x :: xs => toSml d fmtF ind x ++ [10] ++ childrenSml d fmtF ind xs
end

/-! ## tokenizer (`SMLParser.parse_all`) -/

/-- `if current_token: tokens.append(current_token)` -/
def flush (cur : Text) : List Text := if cur.isEmpty then [] else [cur]

/-- the character loop: `cur` = `current_token`, `delim` = `current_delimiter` (`none` = `""`).  At the end of the input the
pending token is **dropped** (the loop returns without appending it). -/
def tokGo : Text → (cur : Text) → (delim : Option Nat) → List Text
  | [], _, _ => []
  | c :: cs, cur, some dl =>
    if c = dl then (cur ++ [c]) :: tokGo cs [] Option.none else tokGo cs (cur ++ [c]) (some dl)
  | c :: cs, cur, Option.none =>
    if isWs c then flush cur ++ tokGo cs [] Option.none
    else if isOp c then flush cur ++ [c] :: tokGo cs [] Option.none
    else if isDelim c then tokGo cs (cur ++ [c]) (some c)
    else tokGo cs (cur ++ [c]) Option.none

def tokenize (s : Text) : List Text := tokGo s [] Option.none

/-! ## parser -/

inductive PErr | index | parse | value | fuel
deriving DecidableEq, Repr

def PErr.name : PErr → String
  | .index => "IndexError" | .parse => "Other:SMLParseError" | .value => "ValueError" | .fuel => "Fuel"

/-- number lists: `while peek != ">"`: `int(tok[, 0])`, bounds check, append.  (`ItemNumber` integer classes: base 10; `B`, `BOOLEAN`: base 0) -/
def readNums (base0 : Bool) (lo hi : Int) : List Text → Except PErr (List Int × List Text)
  | [] => .error .index
  | t :: ts =>
    if t = [62] then .ok ([], ts) else
    match pyInt base0 t with
    | Option.none => .error .value
    | some v =>
      if lo ≤ v ∧ v ≤ hi then
        match readNums base0 lo hi ts with
        | .ok (vs, r) => .ok (v :: vs, r)
        | .error e => .error e
      else .error .parse

/-- `F4`/`F8`: `float(tok)`, bounds check -/
def readFlts (parseF : Text → Option Nat) (t : FltTy) : List Text → Except PErr (List Nat × List Text)
  | [] => .error .index
  | tok :: ts =>
    if tok = [62] then .ok ([], ts) else
    match parseF tok with
    | Option.none => .error .value
    | some b =>
      if fltInBounds t b then
        match readFlts parseF t ts with
        | .ok (vs, r) => .ok (b :: vs, r)
        | .error e => .error e
      else .error .parse

/-- `tok.strip('"')` -/
def stripQ (s : Text) : Text := ((s.dropWhile (· == 34)).reverse.dropWhile (· == 34)).reverse

/-- `ItemStr._read_sml_token`: quoted tokens are stripped and encoded, others are character codes (`int(tok, 0)`, 0..255) -/
def readStr (enc : Nat → Option Nat) : List Text → Except PErr (List Nat × List Text)
  | [] => .error .index
  | t :: ts =>
    if t = [62] then .ok ([], ts) else
    if t.head? = some 34 then
      match encodeAll enc (stripQ t) with
      | Option.none => .error .value
      | some bs =>
        match readStr enc ts with
        | .ok (more, r) => .ok (bs ++ more, r)
        | .error e => .error e
    else
      match pyInt true t with
      | Option.none => .error .value
      | some v =>
        if 0 ≤ v ∧ v ≤ 255 then
          match readStr enc ts with
          | .ok (more, r) => .ok (v.toNat :: more, r)
          | .error e => .error e
        else .error .parse

inductive Ty | l | b | boolean | a | j | int (t : IntTy) | flt (t : FltTy)
deriving DecidableEq, Repr

/-- `str.upper()` as far as it can produce a type name -/
def upperCh (c : Nat) : Nat :=
  if 97 ≤ c ∧ c ≤ 122 then c - 32 else if c = 0x131 then 73 else if c = 0x17F then 83 else c

/-- `Item._subclasses_by_sml` -/
def typeTable : List (Text × Ty) :=
  [(tyL, .l), (tyB, .b), (tyBOOLEAN, .boolean), (tyA, .a), (tyJ, .j),
   (IntTy.name .u1, .int .u1), (IntTy.name .u2, .int .u2), (IntTy.name .u4, .int .u4), (IntTy.name .u8, .int .u8),
   (IntTy.name .i1, .int .i1), (IntTy.name .i2, .int .i2), (IntTy.name .i4, .int .i4), (IntTy.name .i8, .int .i8),
   (FltTy.name .f4, .flt .f4), (FltTy.name .f8, .flt .f8)]

/-- `data_type.value.upper() in cls._subclasses_by_sml` -/
def typeOf (name : Text) : Option Ty := typeTable.lookup (name.map upperCh)

/-- `tok in ">."` — Python substring test; the tokenizer only ever produces the first two -/
def isCloser (t : Text) : Bool := t == [62] || t == [46] || t == [] || t == [62, 46]

/-- the check after the item loop of `_read_items`: `length is not None and 0 < int(length.value) != count` -/
def lengthCheck (len : Option Text) (count : Nat) : Except PErr Unit :=
  match len with
  | Option.none => .ok ()
  | some l =>
    match pyInt false l with
    | Option.none => .error .value
    | some n => if 0 < n ∧ n ≠ (count : Int) then .error .parse else .ok ()

/-- `cls(cls._read_sml_token(parser))`: wrap what a value reader returned -/
def mapOk {α β : Type} (g : α → β) : Except PErr (α × List Text) → Except PErr (β × List Text)
  | .ok (a, r) => .ok (g a, r)
  | .error e => .error e

/-- `<class>.from_sml(parser)` for the classes other than `L` -/
def readLeaf (parseF : Text → Option Nat) : Ty → List Text → Except PErr (Item × List Text)
  | .b, ts => mapOk (fun vs => Item.bin (vs.map Int.toNat)) (readNums true 0 255 ts)
  | .boolean, ts => mapOk (fun vs => Item.bool (vs.map (· == 1))) (readNums true 0 1 ts)
  | .a, ts => mapOk Item.strA (readStr latin1Encode ts)
  | .j, ts => mapOk Item.strJ (readStr jisEncode ts)
  | .int t, ts => mapOk (Item.int t) (readNums false t.min t.max ts)
  | .flt t, ts => mapOk (Item.flt t) (readFlts parseF t ts)
  | .l, _ => .error .parse   -- not reached: `readItem` handles `L` itself

/-- `ItemL.from_sml` = `cls(cls._read_items(parser, …))`, given the item loop: optional `[ n ]`, the loop, then the length check -/
def readItems (loop : List Text → Except PErr (List Item × List Text)) : List Text → Except PErr (Item × List Text)
  | [] => .error .index
  | p :: ts3 =>
    if p = [91] then
      match ts3 with
      | [] => .error .index
      | [_] => .error .index
      | len :: cl :: ts4 =>
        if cl ≠ [93] then .error .parse else
        match loop ts4 with
        | .error e => .error e
        | .ok (xs, r) =>
          match lengthCheck (some len) xs.length with
          | .error e => .error e
          | .ok _ => .ok (.list xs, r)
    else mapOk Item.list (loop (p :: ts3))

mutual
/-- `Item._read_item` followed by `<class>.from_sml(parser)` -/
def readItem (parseF : Text → Option Nat) : Nat → List Text → Except PErr (Item × List Text)
  | 0, _ => .error .fuel
  | f + 1, ts =>
    match ts with
    | [] => .error .index
    | t0 :: ts1 =>
      if t0 ≠ [60] then .error .parse else
      match ts1 with
      | [] => .error .index
      | ty :: ts2 =>
        match typeOf ty with
        | Option.none => .error .parse
        | some .l => readItems (readLoop parseF f) ts2
        | some ty' => readLeaf parseF ty' ts2
/-- the `while parser.peek_token().value not in ">."` loop of `_read_items` (consumes the closing token) -/
def readLoop (parseF : Text → Option Nat) : Nat → List Text → Except PErr (List Item × List Text)
  | 0, _ => .error .fuel
  | f + 1, ts =>
    match ts with
    | [] => .error .index
    | t :: r =>
      if isCloser t then .ok ([], r) else
      match readItem parseF f ts with
      | .error e => .error e
      | .ok (x, r') =>
        match readLoop parseF f r' with
        | .error e => .error e
        | .ok (xs, r'') => .ok (x :: xs, r'')
end

/-- `Item.from_sml` on a token list; fuel = token count + 1 (sufficient: `C15_total`) -/
def parseTokens (parseF : Text → Option Nat) (ts : List Text) : Except PErr (Item × List Text) :=
  readItem parseF (ts.length + 1) ts

/-- `Item.from_sml(text)`: tokenize, read one item (tokens after it are ignored) -/
def parse (parseF : Text → Option Nat) (s : Text) : Except PErr Item :=
  match parseTokens parseF (tokenize s) with
  | .ok (x, _) => .ok x
  | .error e => .error e

end SecsModel.Model.Sml
