import SecsModel.Basic.Py
import SecsModel.Gen.HsmsHeader
import SecsModel.Gen.BlockFmt
import SecsModel.Gen.RxOrder
/-!
# Model.Rx — HSMS blocks and the receive side framing loop (hand model of the Python)

Follows `secsgem/common/message.py` (`Block.encode/decode` as instantiated by `HsmsBlock`: `length_format = "L"`, no checksum),
`secsgem/hsms/protocol.py` (`HsmsProtocol._process_received_data`) and `secsgem/common/protocol.py`
(`Protocol._on_connection_data_received`: append to the `ByteQueue`, trigger the receiver) statement by statement.
The header codec is the *generated* `Gen.HsmsHeader.encode/decode`; the width of the length field is the generated
`Gen.BlockFmt.hsmsLengthWidth`.  The literal `4`/`">L"` of the receive loop is hand-modelled (it is a literal in the Python, too).
-/
namespace SecsModel.Model.Rx
open SecsModel Gen

abbrev Header := Gen.HsmsHeader

structure Block where
  header : Header
  data : Bytes
deriving DecidableEq, Repr

/-- `HsmsBlock.encode`: `struct.pack(">L10s{n}s", 10 + n, header.encode(), data)` (`checksum_format == ""`: no checksum field).
The length value is a natural number, so `struct.pack(">L", v)` is written out as its range check and `be` (same as `Py.packBE` on a
non-negative value, but with a `Nat` comparison the kernel does not try to evaluate on an open term). -/
def Block.encode (b : Block) : Except Err Bytes :=
  match b.header.encode with
  | .error e => .error e
  | .ok hb =>
    let n := b.data.length
    if HsmsHeader.length + n < 256 ^ BlockFmt.hsmsLengthWidth then
      .ok (be BlockFmt.hsmsLengthWidth (HsmsHeader.length + n)
        ++ (hb.take HsmsHeader.length ++ List.replicate (HsmsHeader.length - hb.length) 0) ++ b.data)
    else .error .structError

/-- `HsmsBlock.decode`: `struct.unpack_from(">L", data)`, then `struct.unpack(">L10s{L-10}s", data)` (a negative repeat count or a
length mismatch is `struct.error`), then `HsmsHeader.decode` (`ValueError` for an SType outside the enum) -/
def Block.decode (raw : Bytes) : Except Err Block :=
  let lw := BlockFmt.hsmsLengthWidth
  if raw.length < lw then .error .structError else
  let l := ofBe (raw.take lw)
  if l < HsmsHeader.length then .error .structError else
  let n := l - HsmsHeader.length
  if raw.length ≠ lw + HsmsHeader.length + n then .error .structError else
  match HsmsHeader.decode ((raw.drop lw).take HsmsHeader.length) with
  | .error e => .error e
  | .ok h => .ok ⟨h, (raw.drop (lw + HsmsHeader.length)).take n⟩

/-- result of one run of `_process_received_data`: blocks queued for dispatch (in order), what stays in the receive buffer,
and whether the run was ended by an exception out of `HsmsBlock.decode` (the receiver thread logs and ignores it) -/
structure Ext where
  frames : List Block
  rest : Bytes
  aborted : Bool
deriving DecidableEq, Repr

/-- `HsmsProtocol._process_received_data`; the fuel only makes the recursion structural (every iteration removes ≥ 4 bytes).
```
if len(buf) < 4: return
while len(buf) > 3:
    length = unpack(">L", buf.wait_for(4, peek=True)) + 4
    if len(buf) < length: return                      # incomplete frame: come back on the next trigger
    data = buf.wait_for(length)                       # pops
    response = HsmsBlock.decode(data)                 # may raise: the frame is gone, the loop is left
    self._thread.queue_block(self, response)
``` -/
def extractF : Nat → Bytes → Ext
  | 0, buf => ⟨[], buf, false⟩
  | f+1, buf =>
    if buf.length < 4 then ⟨[], buf, false⟩ else
    let n := ofBe (buf.take 4) + 4
    if buf.length < n then ⟨[], buf, false⟩ else
    match Block.decode (buf.take n) with
    | .error _ => ⟨[], buf.drop n, true⟩
    | .ok b => let r := extractF f (buf.drop n); ⟨b :: r.frames, r.rest, r.aborted⟩

def extract (buf : Bytes) : Ext := extractF buf.length buf

/-- receiver state: the `ByteQueue`, everything handed to `queue_block` so far, number of runs ended by an exception -/
structure Rx where
  buf : Bytes
  delivered : List Block
  aborts : Nat
deriving DecidableEq, Repr

def Rx.init : Rx := ⟨[], [], 0⟩

/-- one `on_data` event followed by one run of the receive loop (`chunk = []` is a bare trigger) -/
def feed (s : Rx) (chunk : Bytes) : Rx :=
  let r := extract (s.buf ++ chunk)
  ⟨r.rest, s.delivered ++ r.frames, s.aborts + (if r.aborted then 1 else 0)⟩

/-- `_on_disconnected`: `self._receive_buffer.clear()` -/
def Rx.disconnect (s : Rx) : Rx := { s with buf := [] }

/-!
## OnData — the hand-over of a received segment from the connection's thread to the receiver thread

`Protocol._on_connection_data_received` runs on the connection's thread: its statements (the *generated* list `Gen.RxOrder.onData`) are
executed one per step.  The receiver thread (`ProtocolDispatcher._receiver_thread_function`) waits for the trigger, clears it, and then
makes one pass over the receive buffer (`feed` above).  `unseen` = the buffer holds bytes no receiver pass has looked at yet.
`feed`'s "one `on_data` event followed by one run of the loop" is sound only if no wake-up can be lost here.
-/
namespace OnData

inductive RxPc | idle | woke     -- in `trigger.wait()` / trigger cleared, pass over the buffer still to come
deriving DecidableEq, Repr

structure St where
  prog : List String   -- what is left of the handler for the segment being handed over
  unseen : Bool
  trig : Bool
  rx : RxPc
deriving DecidableEq, Repr

def St.init : St := ⟨[], false, false, .idle⟩

inductive Lbl
  | segment      -- environment: the connection's thread has received a segment and enters the handler
  | conn         -- one statement of the handler
  | rx           -- one step of the receiver thread
deriving DecidableEq, Repr

def step (onData : List String) (s : St) : Lbl → Option St
  | .segment => if s.prog = [] then some { s with prog := onData } else none
  | .conn =>
    match s.prog with
    | [] => none
    | st :: rest =>
      if st = "append" then some { s with prog := rest, unseen := true }
      else if st = "trigger" then some { s with prog := rest, trig := true }
      else none
  | .rx =>
    match s.rx with
    | .idle => if s.trig then some { s with trig := false, rx := .woke } else none
    | .woke => some { s with unseen := false, rx := .idle }

def labels : List Lbl := [.segment, .conn, .rx]

def run (onData : List String) : St → List Lbl → Option St
  | s, [] => some s
  | s, l :: ls => match step onData s l with
    | some s' => run onData s' ls
    | none => none

/-- **lost wake-up**: bytes nobody has looked at, the receiver thread asleep, no wake-up pending and none coming from the handler -/
def lost (s : St) : Bool := s.unseen && !s.trig && s.rx == .idle && !s.prog.contains "trigger"

/-- breadth-first closure (the system is finite: `prog` is a suffix of the handler) -/
def closure (onData : List String) : Nat → List St → List St → List St
  | 0, seen, _ => seen
  | n+1, seen, frontier =>
    let next := (frontier.flatMap (fun s => labels.filterMap (step onData s))).foldl (fun acc x => if acc.contains x then acc else acc ++ [x]) seen
    let fresh := next.drop seen.length
    if fresh.isEmpty then seen else closure onData n next fresh

def reach (onData : List String) : List St := closure onData 32 [St.init] [St.init]

end OnData

end SecsModel.Model.Rx
