import SecsModel.Basic.Py
import SecsModel.Gen.HsmsHeader
import SecsModel.Gen.BlockFmt
import SecsModel.Gen.RxOrder
/-!
# Model.Rx — HSMS blocks and the receive side framing loop (hand model of the Python)

Follows `secsgem/common/message.py` (`Block.encode/decode` as instantiated by `HsmsBlock`: `length_format = "L"`, no checksum),
`secsgem/hsms/protocol.py` (`HsmsProtocol._process_received_data`) and `secsgem/common/protocol.py`
(`Protocol._on_connection_data_received`: append to the `ByteQueue`, trigger the receiver) statement by statement.
The header codec is the *generated* `Gen.HsmsHeader.encode/decode`; the width of the length field is the generated
`Gen.BlockFmt.hsmsLengthWidth`.  The literal `4`/`">L"` of the receive loop is hand-modelled (it is a literal in the Python, too).
-/
namespace SecsModel.Model.Rx
open SecsModel Gen

abbrev Header := Gen.HsmsHeader

structure Block where
  header : Header
  data : Bytes
deriving DecidableEq, Repr

/-- `HsmsBlock.encode`: `struct.pack(">L10s{n}s", 10 + n, header.encode(), data)` (`checksum_format == ""`: no checksum field).
The length value is a natural number, so `struct.pack(">L", v)` is written out as its range check and `be` (same as `Py.packBE` on a
non-negative value, but with a `Nat` comparison the kernel does not try to evaluate on an open term). -/
def Block.encode (b : Block) : Except Err Bytes :=
  match b.header.encode with
  | .error e => .error e
  | .ok hb =>
    let n := b.data.length
    if HsmsHeader.length + n < 256 ^ BlockFmt.hsmsLengthWidth then
      .ok (be BlockFmt.hsmsLengthWidth (HsmsHeader.length + n)
        ++ (hb.take HsmsHeader.length ++ List.replicate (HsmsHeader.length - hb.length) 0) ++ b.data)
    else .error .structError

/-- `HsmsBlock.decode`: `struct.unpack_from(">L", data)`, then `struct.unpack(">L10s{L-10}s", data)` (a negative repeat count or a
length mismatch is `struct.error`), then `HsmsHeader.decode` (`ValueError` for an SType outside the enum) -/
def Block.decode (raw : Bytes) : Except Err Block :=
  let lw := BlockFmt.hsmsLengthWidth
  if raw.length < lw then .error .structError else
  let l := ofBe (raw.take lw)
  if l < HsmsHeader.length then .error .structError else
  let n := l - HsmsHeader.length
  if raw.length ≠ lw + HsmsHeader.length + n then .error .structError else
  match HsmsHeader.decode ((raw.drop lw).take HsmsHeader.length) with
  | .error e => .error e
  | .ok h => .ok ⟨h, (raw.drop (lw + HsmsHeader.length)).take n⟩

/-- result of one run of `_process_received_data`: blocks queued for dispatch (in order), what stays in the receive buffer,
and whether the run was ended by an exception out of `HsmsBlock.decode` (the receiver thread logs and ignores it) -/
structure Ext where
  frames : List Block
  rest : Bytes
  aborted : Bool
deriving DecidableEq, Repr

/-- `HsmsProtocol._process_received_data`; the fuel only makes the recursion structural (every iteration removes ≥ 4 bytes).
```
if len(buf) < 4: return
while len(buf) > 3:
    length = unpack(">L", buf.wait_for(4, peek=True)) + 4
    if len(buf) < length: return                      # incomplete frame: come back on the next trigger
    data = buf.wait_for(length)                       # pops
    response = HsmsBlock.decode(data)                 # may raise: the frame is gone, the loop is left
    self._thread.queue_block(self, response)
``` -/
def extractF : Nat → Bytes → Ext
  | 0, buf => ⟨[], buf, false⟩
  | f+1, buf =>
    if buf.length < 4 then ⟨[], buf, false⟩ else
    let n := ofBe (buf.take 4) + 4
    if buf.length < n then ⟨[], buf, false⟩ else
    match Block.decode (buf.take n) with
    | .error _ => ⟨[], buf.drop n, true⟩
    | .ok b => let r := extractF f (buf.drop n); ⟨b :: r.frames, r.rest, r.aborted⟩

def extract (buf : Bytes) : Ext := extractF buf.length buf

/-- receiver state: the `ByteQueue`, everything handed to `queue_block` so far, number of runs ended by an exception -/
structure Rx where
  buf : Bytes
  delivered : List Block
  aborts : Nat
deriving DecidableEq, Repr

def Rx.init : Rx := ⟨[], [], 0⟩

/-- one `on_data` event followed by one run of the receive loop (`chunk = []` is a bare trigger) -/
def feed (s : Rx) (chunk : Bytes) : Rx :=
  let r := extract (s.buf ++ chunk)
  ⟨r.rest, s.delivered ++ r.frames, s.aborts + (if r.aborted then 1 else 0)⟩

/-- `_on_disconnected`: `self._receive_buffer.clear()` -/
def Rx.disconnect (s : Rx) : Rx := { s with buf := [] }

/-!
## OnData — the hand-over of work from a producer thread to a consumer thread that sleeps on a trigger

Two hand-overs on the receive path have this shape:
* received bytes: `Protocol._on_connection_data_received` (connection's thread) → `ProtocolDispatcher._receiver_thread_function`;
* decoded blocks: `ProtocolDispatcher.queue_block` (receiver thread) → `_dispatcher_thread_function`.
Both programs are *generated* lists of statement tags (`Gen.RxOrder`), executed one statement per step.  Producer: `append` puts the item
where the consumer will look (`unseen := true`), `trigger` sets the event.  Consumer loop: `wait` (passes only when the event is set; does
not clear it), `clear`, `stoptest` (no effect here), `target`/`drain` (looks at everything that is there: `unseen := false`).
`feed`'s "one `on_data` event followed by one run of the loop" and the FIFO delivery to the dispatcher are faithful readings of the
threaded code only if no wake-up can be lost in these hand-overs.
-/
namespace OnData

structure St where
  prog : List String   -- what is left of the producer's handler for the item being handed over
  unseen : Bool
  trig : Bool
  pc : Nat             -- index of the consumer's next statement in its loop body
deriving DecidableEq, Repr

def St.init : St := ⟨[], false, false, 0⟩

inductive Lbl
  | item         -- environment: the producer has a new item and enters its handler
  | prod         -- one statement of the producer's handler
  | cons         -- one statement of the consumer's loop
deriving DecidableEq, Repr

def step (producer loop : List String) (s : St) : Lbl → Option St
  | .item => if s.prog = [] then some { s with prog := producer } else none
  | .prod =>
    match s.prog with
    | [] => none
    | st :: rest =>
      if st = "append" then some { s with prog := rest, unseen := true }
      else if st = "trigger" then some { s with prog := rest, trig := true }
      else none
  | .cons =>
    let next := if s.pc + 1 < loop.length then s.pc + 1 else 0
    match loop[s.pc]? with
    | none => none
    | some st =>
      if st = "wait" then (if s.trig then some { s with pc := next } else none)
      else if st = "clear" then some { s with trig := false, pc := next }
      else if st = "stoptest" then some { s with pc := next }
      else if st = "target" ∨ st = "drain" then some { s with unseen := false, pc := next }
      else none

def labels : List Lbl := [.item, .prod, .cons]

def run (producer loop : List String) : St → List Lbl → Option St
  | s, [] => some s
  | s, l :: ls => match step producer loop s l with
    | some s' => run producer loop s' ls
    | none => none

/-- **lost wake-up**: an item nobody has looked at, the consumer asleep in `wait` with the event clear, and no `trigger` coming from the
producer's handler -/
def lost (loop : List String) (s : St) : Bool :=
  s.unseen && !s.trig && loop[s.pc]? == some "wait" && !s.prog.contains "trigger"

/-- breadth-first closure (the system is finite: `prog` is a suffix of the handler, `pc` an index into the loop) -/
def closure (producer loop : List String) : Nat → List St → List St → List St
  | 0, seen, _ => seen
  | n+1, seen, frontier =>
    let next := (frontier.flatMap (fun s => labels.filterMap (step producer loop s))).foldl
      (fun acc x => if acc.contains x then acc else acc ++ [x]) seen
    let fresh := next.drop seen.length
    if fresh.isEmpty then seen else closure producer loop n next fresh

def reach (producer loop : List String) : List St := closure producer loop 64 [St.init] [St.init]

/-- the whole obligation for one hand-over, as a decidable statement -/
def noLostWakeup (producer loop : List String) : Bool :=
  producer.filter (· = "append") == ["append"]
  && producer.all (fun st => st = "append" || st = "trigger")
  && loop.all (fun st => st = "wait" || st = "clear" || st = "stoptest" || st = "target" || st = "drain")
  && (reach producer loop).contains St.init
  && (reach producer loop).all (fun s => labels.all (fun l => match step producer loop s l with
        | some s' => (reach producer loop).contains s' | none => true))
  && (reach producer loop).all (fun s => !lost loop s)
  -- an unseen item with the handler finished: the consumer can take a step (it is not stuck in `wait`)
  && (reach producer loop).all (fun s => !(s.unseen && s.prog.isEmpty) || (step producer loop s .cons).isSome)

end OnData

end SecsModel.Model.Rx
