import SecsModel.Basic.Bytes
import SecsModel.Model.SecsI
import SecsModel.Gen.Misc
/-!
# Model.TcpSend — `TcpConnection.send_data` against a socket oracle, and the HSMS send queue (hand model of the Python)

Follows `secsgem/common/tcp_connection.py` (`TcpConnection.send_data`) and `secsgem/hsms/protocol.py`
(`HsmsProtocol._process_send_queue`) statement by statement.  The operating system's side of the non-blocking socket is an *oracle*:
a list of answers, consumed one per `select`/`send` call.  The packet size is the generated `Gen.Misc.hsmsSendPacketSize`;
the slicing `[data[i:i+n] for i in range(0, len(data), n)]` is `Model.SecsI.chunks` (the same comprehension as in `_split_blocks`).
-/
namespace SecsModel.Model.TcpSend
open SecsModel

/-- what the socket does at the next call -/
inductive SockAns
  | selTimeout          -- `select.select([], [sock], [], timeout)` returns no writable socket
  | accept (k : Nat)    -- writable; `sock.send(remaining)` takes `min k len(remaining)` bytes and returns that number
  | wouldBlock          -- writable; `sock.send` raises `OSError(EAGAIN/EWOULDBLOCK)`
  | error               -- writable; `sock.send` raises any other `OSError` (peer reset, broken pipe, …)
deriving DecidableEq, Repr

/-- how the call ended: returned `True`, returned `False`, or is still inside its loop when the oracle is exhausted -/
inductive Outcome | ok | fail | pending
deriving DecidableEq, Repr

structure SendRes where
  outcome : Outcome
  written : Bytes          -- bytes handed to the socket (accepted by `send`), in order
  rest : List SockAns      -- unconsumed oracle
deriving DecidableEq, Repr

/-- `TcpConnection.send_data(data)`:
```
retry = True; remaining = data
while retry:
    while not select.select([], [sock], [], timeout)[1]: pass
    try:
        sent = sock.send(remaining); remaining = remaining[sent:]; retry = len(remaining) > 0
    except OSError as exc:
        if not is_errorcode_ewouldblock(exc.errno): return False
return True
``` -/
def sendData : Bytes → List SockAns → SendRes
  | _, [] => ⟨.pending, [], []⟩
  | rem, .selTimeout :: o => sendData rem o
  | rem, .wouldBlock :: o => sendData rem o
  | _, .error :: o => ⟨.fail, [], o⟩
  | rem, .accept k :: o =>
    let sent := min k rem.length
    if (rem.drop sent).length > 0 then
      let r := sendData (rem.drop sent) o
      ⟨r.outcome, rem.take sent ++ r.written, r.rest⟩
    else ⟨.ok, rem.take sent, o⟩

/-- the packet loop of `_process_send_queue` for one block: `for packet in packets: if not send_data(packet): resolve(False); break` -/
def sendPackets : List Bytes → List SockAns → SendRes
  | [], o => ⟨.ok, [], o⟩
  | p :: ps, o =>
    let r := sendData p o
    match r.outcome with
    | .ok => let r2 := sendPackets ps r.rest; ⟨r2.outcome, r.written ++ r2.written, r2.rest⟩
    | x => ⟨x, r.written, r.rest⟩

/-- one `BlockSendInfo`: split `data` at `size`, send the packets; `.ok` is `block_info.resolve(True)`, `.fail` is `resolve(False)` -/
def sendBlock (size : Nat) (data : Bytes) (o : List SockAns) : SendRes :=
  sendPackets (Model.SecsI.chunks size data) o

/-- the packet size used by the code that exists -/
def packetSize : Nat := Gen.Misc.hsmsSendPacketSize

/-- result of one run of `_process_send_queue` -/
structure QRes where
  resolved : List Bool     -- results the blocks taken from the queue were resolved with, in order
  parts : List Bytes       -- what was written for each of those blocks (and for the block the oracle ran out in)
  queue : List Bytes       -- blocks left in the queue when the run ended (only when the oracle ran out)
  rest : List SockAns
  pending : Bool           -- the oracle ran out inside a `send_data` (that block is not resolved)
deriving DecidableEq, Repr

/-- the byte stream of the run -/
def QRes.written (r : QRes) : Bytes := r.parts.flatten

/-- `_process_send_queue` (the code that exists): `while not queue.empty(): block = queue.get(); for packet …: if not send_data(packet):
resolve(False); break  else: resolve(True)` — after a failed block the loop goes on with the next one -/
def processQueue (size : Nat) : List Bytes → List SockAns → QRes
  | [], o => ⟨[], [], [], o, false⟩
  | b :: q, o =>
    let r := sendBlock size b o
    match r.outcome with
    | .ok => let r2 := processQueue size q r.rest; ⟨true :: r2.resolved, r.written :: r2.parts, r2.queue, r2.rest, r2.pending⟩
    | .fail => let r2 := processQueue size q r.rest; ⟨false :: r2.resolved, r.written :: r2.parts, r2.queue, r2.rest, r2.pending⟩
    | .pending => ⟨[], [r.written], q, r.rest, true⟩

/-- the variant before the repair (`resolve(False); return`: the rest of the queue is left behind) — regression witness only -/
def processQueueReturning (size : Nat) : List Bytes → List SockAns → QRes
  | [], o => ⟨[], [], [], o, false⟩
  | b :: q, o =>
    let r := sendBlock size b o
    match r.outcome with
    | .ok => let r2 := processQueueReturning size q r.rest; ⟨true :: r2.resolved, r.written :: r2.parts, r2.queue, r2.rest, r2.pending⟩
    | .fail => ⟨[false], [r.written], q, r.rest, false⟩
    | .pending => ⟨[], [r.written], q, r.rest, true⟩

/-- a connection that has failed stays failed: after the first error every later answer of the socket is an error -/
def Sticky : List SockAns → Prop
  | [] => True
  | .error :: o => ∀ a ∈ o, a = .error
  | _ :: o => Sticky o

/-- every remaining answer is an error -/
def AllErr (o : List SockAns) : Prop := ∀ a ∈ o, a = .error

/-- number of blocks resolved `True` before the first one that was not -/
def leadTrue : List Bool → Nat
  | true :: l => leadTrue l + 1
  | _ => 0

/-- the pre-fix `send_data` (return value of `sock.send` ignored): kept only for the witness that the model can tell the difference -/
def sendDataIgnoringShortWrite : Bytes → List SockAns → SendRes
  | _, [] => ⟨.pending, [], []⟩
  | rem, .selTimeout :: o => sendDataIgnoringShortWrite rem o
  | rem, .wouldBlock :: o => sendDataIgnoringShortWrite rem o
  | _, .error :: o => ⟨.fail, [], o⟩
  | rem, .accept k :: o => ⟨.ok, rem.take (min k rem.length), o⟩

end SecsModel.Model.TcpSend
