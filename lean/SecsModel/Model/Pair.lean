/-!
# Model.Pair — a GEM host and a GEM equipment joined by two FIFO channels (abstract control model for C20)

One endpoint is the product of the HSMS session state (`hsms/protocol.py` + `ConnectionStateMachine`) and the GEM
communication state (`gem/handler.py` + `CommunicationStateMachine`); only the messages of the two handshakes are kept
(Select.req/rsp, S1F13, S1F14).  Timers are explicit steps.  Follows the code after the `fix:` commits:
`on_connection_closed` is called on link loss (COMMUNICATING → NOT_COMMUNICATING), S1F14 with COMMACK ≠ 0 → WAIT_DELAY.
-/
namespace SecsModel.Model.Pair

inductive Conn | nc | ns | sel deriving DecidableEq, Repr, Inhabited
inductive Comm | dis | notc | wcra | wdelay | comm deriving DecidableEq, Repr, Inhabited
inductive Msg | selReq | selRsp | s1f13 | s1f14 (ok : Bool) deriving DecidableEq, Repr, Inhabited

structure End where
  en : Bool        -- handler enabled
  active : Bool    -- HSMS connect mode ACTIVE (sends Select.req)
  conn : Conn
  comm : Comm
deriving DecidableEq, Repr, Inhabited

/-- `x`: the endpoint, `out`: what it sends (appended to its outbound channel) -/
structure Pair where
  a : End
  b : End
  ab : List Msg    -- in flight a → b (head = oldest)
  ba : List Msg    -- in flight b → a
deriving DecidableEq, Repr, Inhabited

inductive Side | A | B deriving DecidableEq, Repr, Inhabited

inductive Step
  | enable (x : Side) | disable (x : Side) | linkUp | linkDown
  | deliver (x : Side)            -- the oldest message in flight towards `x` is received and handled by `x`
  | t3 (x : Side) | delay (x : Side)
deriving DecidableEq, Repr, Inhabited

def Pair.get (p : Pair) : Side → End | .A => p.a | .B => p.b
def Pair.set (p : Pair) (x : Side) (e : End) : Pair := match x with | .A => { p with a := e } | .B => { p with b := e }
/-- append to the outbound channel of `x` -/
def Pair.send (p : Pair) (x : Side) (ms : List Msg) : Pair :=
  match x with | .A => { p with ab := p.ab ++ ms } | .B => { p with ba := p.ba ++ ms }
def Pair.inbox (p : Pair) : Side → List Msg | .A => p.ba | .B => p.ab
def Pair.popInbox (p : Pair) : Side → Pair | .A => { p with ba := p.ba.tail } | .B => { p with ab := p.ab.tail }

/-- the `communicating` event of the protocol (entering SELECTED): `CommunicationStateMachine.select()`; from any state but
NOT_COMMUNICATING it raises `WrongSourceStateError`, which the dispatcher swallows -/
def selected (e : End) : End × List Msg :=
  if e.comm = .notc then ({ e with comm := .wcra }, [.s1f13]) else (e, [])

/-- a data message of the establish-communications handshake handled by `GemHandler._on_message_received` -/
def handleData (e : End) (m : Msg) : End × List Msg :=
  if e.conn ≠ .sel then (e, []) else      -- not SELECTED: Reject.req, not delivered
  match e.comm, m with
  | .wcra, .s1f13 => ({ e with comm := .comm }, [.s1f14 true])
  | .wcra, .s1f14 true => ({ e with comm := .comm }, [])
  | .wcra, .s1f14 false => ({ e with comm := .wdelay }, [])
  | .comm, .s1f13 => (e, [.s1f14 true])      -- built-in `_on_s01f13` callback
  | _, _ => (e, [])

def handle (e : End) (m : Msg) : End × List Msg :=
  match m with
  | .selReq =>
    if e.conn = .nc then (e, []) else
    if e.conn = .ns then
      let (e', out) := selected { e with conn := .sel }
      (e', .selRsp :: out)
    else (e, [.selRsp])                 -- already SELECTED: Select.rsp is sent, `select()` raises (swallowed)
  | .selRsp =>
    if e.conn = .ns then selected { e with conn := .sel } else (e, [])
  | m => handleData e m

def closeEnd (e : End) : End :=
  { e with conn := .nc, comm := if e.comm = .comm then .notc else e.comm }

def linkDown (p : Pair) : Pair :=
  { a := closeEnd p.a, b := closeEnd p.b, ab := [], ba := [] }

def step (p : Pair) : Step → Option Pair
  | .enable x =>
    let e := p.get x
    if e.en then none else some (p.set x { e with en := true, comm := .notc })
  | .disable x =>
    let e := p.get x
    if !e.en then none else
    let p' := if e.conn ≠ .nc then linkDown p else p
    some (p'.set x { (p'.get x) with en := false, comm := .dis })
  | .linkUp =>
    if p.a.en && p.b.en && p.a.conn = .nc && p.b.conn = .nc then
      let p' : Pair := { p with a := { p.a with conn := .ns }, b := { p.b with conn := .ns }, ab := [], ba := [] }
      let p' := if p.a.active then p'.send .A [.selReq] else p'
      let p' := if p.b.active then p'.send .B [.selReq] else p'
      some p'
    else none
  | .linkDown => if p.a.conn ≠ .nc || p.b.conn ≠ .nc then some (linkDown p) else none
  | .deliver x =>
    match p.inbox x with
    | [] => none
    | m :: _ =>
      let (e', out) := handle (p.get x) m
      some (((p.popInbox x).set x e').send x out)
  | .t3 x =>
    let e := p.get x
    if e.comm = .wcra then some (p.set x { e with comm := .wdelay }) else none
  | .delay x =>
    let e := p.get x
    if e.comm = .wdelay then
      let p' := p.set x { e with comm := .wcra }
      -- with a connection the S1F13 is written at once (also while NOT SELECTED: the receiver thread runs as soon as the TCP
      -- connection is up).  Without a connection `send_stream_function` blocks; the block is written as the first frame of the
      -- next connection, where the peer (still NOT SELECTED) answers Reject.req and the sender ignores that: the message has no
      -- effect on either state, so the model drops it (see `Props/C20b.lean`, `delay_not_connected_differs`).
      some (if e.conn ≠ .nc then p'.send x [.s1f13] else p')
    else none

def run (p : Pair) : List Step → Option Pair
  | [] => some p
  | s :: ss => match step p s with | some p' => run p' ss | none => none

def init (aActive : Bool) : Pair :=
  { a := ⟨false, aActive, .nc, .dis⟩, b := ⟨false, !aActive, .nc, .dis⟩, ab := [], ba := [] }

def bothComm (p : Pair) : Bool := p.a.comm = .comm && p.b.comm = .comm

/-! ### projection used to validate observed traces of the real pair

The harness records, in order, every state-machine transition of the four real machines (two sessions, two
communication machines).  `okEvent` says whether such a transition is one the model can take in the current
projected state (what the machine is, and what its sibling machine on the same endpoint is). -/

/-- allowed single transitions of the session machine -/
def connOk : Conn → Conn → Bool
  | .nc, .ns => true | .ns, .sel => true | .sel, .ns => true | .ns, .nc => true | .sel, .nc => true | _, _ => false

/-- allowed single transitions of the communication machine, given the endpoint's session state at that moment -/
def commOk (c : Conn) : Comm → Comm → Bool
  | .dis, .notc => true
  | .dis, .dis => false
  | _, .dis => true
  | .notc, .wcra => c ≠ .nc          -- only the `communicating` event (session SELECTED) starts an attempt; the observer may see
                                     -- the session already left SELECTED again (another thread), never NOT CONNECTED→attempt
  | .wcra, .wdelay => true           -- T3 / COMMACK ≠ 0
  | .wdelay, .wcra => true           -- delay expired
  | .wcra, .comm => true             -- S1F13 / S1F14 handled by the dispatcher thread (may be overtaken by a close on another thread)
  | .comm, .notc => true             -- link lost
  | _, _ => false

end SecsModel.Model.Pair
