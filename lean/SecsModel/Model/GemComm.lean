import SecsModel.Gen.Machines
import SecsModel.Gen.Callbacks
import SecsModel.Spec.E30Comm
/-!
# Model.GemComm — `GemHandler`'s communication state handling (hand model of the Python)

Follows `secsgem/gem/handler.py` (`enable`, `disable`, `_on_message_received`, `_on_communicating`, `_on_disconnected`,
`on_connection_closed`, `_on_state_wait_cra`, `_on_state_communicating`) and the timer handlers of
`secsgem/gem/communication_state_machine.py` statement by statement.  What is *generated* and only consulted here:

* `Gen.CommSM.transitions` — the table step `smStep` (lookup by name, source check ⇒ `WrongSourceStateError`);
* `Gen.CommSM.wiring` — which enter/leave handlers arm and cancel the two timers;
* `Gen.Callbacks.commWiring`, `protocolHooks`, `dispatch`, `linkLossStates`, `disconnectedForwards`,
  `communicatingSelects`, `builtin*` — which handler runs on which event, which branch of `_on_message_received`
  dispatches to callbacks, which classes inherit which `_on_sXXfYY`.

The engine (`StateMachine._perform_transition`: leave → switch → enter → called) is reduced to what these handlers see;
the parent state ENABLED has no handlers.  Timers are explicit inputs guarded by the `…Armed` flags.  The boundary is the
one the harness replaces: an in-memory connection and a fake `threading.Timer`.  The link has two levels, as in the code:
`connected` — `HsmsProtocol._on_connected` has started the receiver thread, so whatever is handed to `send_message` is written
(also before the session is selected) — and `selected` — the `communicating` event has fired and inbound data messages pass
the protocol gate.

Two behaviours that the property text rules out are carried as variant flags: `Cfg.sysChecked` (`false` for the code as it
is: the system bytes of an S1F14 are not compared, finding c07-s1f14-system-unchecked) and `Cfg.commackGate` (`true` for the
code as it is since the fix "an inbound S1F13 answered with COMMACK != 0 does not establish communication"; `false` is the
code before it).  The harness finds out on every run which variant the implementation shows and drives the model with it; see
proposals/C07-*.md.
-/
namespace SecsModel.Model.GemComm
open SecsModel SecsModel.Spec.E30Comm

inductive Role | host | equipment
deriving DecidableEq, Repr, Inhabited

structure Cfg where
  role : Role := .equipment
  /-- value returned by `on_commack_requested()` (0 unless a subclass overrides it) -/
  commackReq : Nat := 0
  /-- stream/function callbacks registered by the user (`register_stream_function`) -/
  userCbs : List (Nat × Nat) := []
  /-- variant: an S1F14 is only looked at when its system bytes are those of the outstanding S1F13 (proposal) -/
  sysChecked : Bool := false
  /-- variant: `s1f13received()` only when the COMMACK sent is 0 (proposal) -/
  commackGate : Bool := false
deriving Repr

structure State where
  comm : Comm := .disabled
  /-- a transport connection exists: the receiver thread of the protocol runs and writes what is in the send queue -/
  connected : Bool := false
  /-- the HSMS session is selected: inbound data messages reach the handler -/
  selected : Bool := false
  t3Armed : Bool := false
  delayArmed : Bool := false
  /-- number of S1F13 created so far = id of the next one (`get_next_system_counter`, abstracted) -/
  nextSys : Nat := 0
  /-- system bytes of the S1F13 that is outstanding (read only by the `sysChecked` variant) -/
  mySys : Option Nat := none
  /-- S1F13 put into the send queue while no receiver thread runs; written when the link returns -/
  queued : List Nat := []
deriving DecidableEq, Repr, Inhabited

def init : State := {}

/-- the link in the sense of the property ("the current link"): the selected session -/
def State.link (s : State) : Bool := s.selected

inductive SmErr | wrongSource | unknownTransition | unknownState
deriving DecidableEq, Repr

/-- `StateMachine.transition(name)` + the source check of `_perform_transition`, over the generated table -/
def smStep (c : Comm) (t : Trans) : Except SmErr Comm :=
  match Gen.CommSM.transitions.find? (fun r => r.1 == t.name) with
  | none => .error .unknownTransition
  | some (_, srcs, dst) =>
    if srcs.contains c.name then
      match Comm.ofName dst with
      | some d => .ok d
      | none => .error .unknownState
    else .error .wrongSource

/-- `CommunicationStateMachine.__init__`: `self.<state>.events.<ev>.register(self.<handler>)` -/
def smWired (c : Comm) (ev handler : String) : Bool := Gen.CommSM.wiring.contains (c.name, ev, handler)
/-- `GemHandler.__init__`: `self._communication_state.<state>.events.<ev>.register(self.<handler>)` -/
def gemWired (c : Comm) (ev handler : String) : Bool := Gen.Callbacks.commWiring.contains (c.name, ev, handler)
/-- `GemHandler.__init__`: `self._protocol.events.<event> += self.<handler>` -/
def hooked (event handler : String) : Bool := Gen.Callbacks.protocolHooks.contains ("GemHandler", event, handler)

def builtin : Role → List (Nat × Nat)
  | .host => Gen.Callbacks.builtinGemHostHandler
  | .equipment => Gen.Callbacks.builtinGemEquipmentHandler

/-- `name in self._callback_handler` -/
def hasCb (cfg : Cfg) (s f : Nat) : Bool := cfg.userCbs.contains (s, f) || (builtin cfg.role).contains (s, f)

/-- the `leave` handlers of the current state: `_on_state_leave_wait_cra` / `_on_state_leave_wait_delay` cancel their timer -/
def leaveEffects (s : State) : State :=
  let s := if smWired s.comm "leave" "_on_state_leave_wait_cra" then { s with t3Armed := false } else s
  if smWired s.comm "leave" "_on_state_leave_wait_delay" then { s with delayArmed := false } else s

/-- `GemHandler._on_state_wait_cra`: `send_stream_function(S1F13)`.  The system bytes are drawn when the message is
built; `send_message` blocks until the receiver thread has written the block — for ever while there is no connection
(selected or not does not matter). -/
def sendS1F13 (s : State) : State × List Output :=
  let k := s.nextSys
  let s := { s with nextSys := k + 1, mySys := some k }
  if s.connected then (s, [.txS1F13 k]) else ({ s with queued := s.queued ++ [k] }, [.blocked])

/-- the `enter` handlers of the (new) current state, in registration order: the state machine's own (timers), then `GemHandler`'s -/
def enterEffects (s : State) : State × List Output :=
  let s := if smWired s.comm "enter" "_on_state_wait_cra" then { s with t3Armed := true } else s
  let s := if smWired s.comm "enter" "_on_state_wait_delay" then { s with delayArmed := true } else s
  let (s, o1) := if gemWired s.comm "enter" "_on_state_wait_cra" then sendS1F13 s else (s, [])
  let o2 := if gemWired s.comm "enter" "_on_state_communicating" then [Output.evtCommunicating] else []
  (s, o1 ++ o2)

/-- `_perform_transition(name)` as seen by the handlers -/
def perform (s : State) (t : Trans) : State × List Output :=
  match smStep s.comm t with
  | .error _ => (s, [.wrongSource t])
  | .ok dst => enterEffects { leaveEffects s with comm := dst }

/-- the row of `Gen.Callbacks.dispatch` for the current state (the `if/elif` chain of `_on_message_received`) -/
def dispatchRow (c : Comm) : Option (Bool × Bool × Bool × Bool) :=
  (Gen.Callbacks.dispatch.find? (fun r => r.1 == c.name)).map (·.2)

/-- `GemHandler._on_message_received` (reached through the protocol gate: link selected; for an even function such as S1F14
additionally: no caller blocked in `send_and_waitfor_response` waits for these system bytes — the S1F13 is sent with
`send_stream_function`, which opens no such transaction) -/
def onMessage (cfg : Cfg) (s : State) (sf f : Nat) (w : Bool) (sys : Nat) (commack : Option Nat) : State × List Output :=
  match dispatchRow s.comm with
  | none => (s, [])
  | some (dispatches, est13, est14, _) =>
    if est13 && sf == 1 && f == 13 then
      -- send_response(S1F14 {COMMACK: on_commack_requested()}) ; s1f13received()
      let o := [Output.txS1F14 sys cfg.commackReq]
      if cfg.commackGate && cfg.commackReq != 0 then (s, o)
      else
        let r := perform s .s1f13received
        (r.1, o ++ r.2)
    else if est14 && sf == 1 && f == 14 then
      if cfg.sysChecked && s.mySys != some sys then (s, [])
      else
        match commack with
        | none => (s, [])                                   -- decode raises; logged by `_dispatch_block`
        | some 0 => perform s .s1f14received
        | some _ => perform s .communicationreqfail
    else if dispatches then
      -- `_handle_stream_function`
      if hasCb cfg sf f then
        (s, [Output.callback sf f] ++
          (if sf == 1 && f == 13 && !cfg.userCbs.contains (1, 13) then [Output.txS1F14 sys cfg.commackReq] else []))
      else (s, [.unknown sf f w])
    else (s, [])

def step (cfg : Cfg) (s : State) : Input → State × List Output
  | .enable => perform s .enable                            -- `_communication_state.enable()`; `protocol.enable()`
  | .disable => perform s .disable                          -- `protocol.disable()`; `_communication_state.disable()`
  | .linkConnected =>
    if s.connected then (s, [])
    else
      -- `_on_connected` starts the receiver thread: the send queue is written (first frames of the new connection)
      ({ s with connected := true, queued := [] }, s.queued.map Output.txS1F13)
  | .linkSelected =>
    if s.selected then (s, [])                              -- Select.req when selected: Select.rsp, no `communicating` event
    else
      -- (connect first if there is no connection: the send queue is written;) Select.req → `communicating`
      let flushed := s.queued.map Output.txS1F13
      let s := { s with connected := true, selected := true, queued := [] }
      if hooked "communicating" "_on_communicating" && Gen.Callbacks.communicatingSelects then
        let r := perform s .select
        (r.1, flushed ++ r.2)
      else (s, flushed)
  | .linkLost =>
    if !s.connected then (s, [])
    else
      let s := { s with connected := false, selected := false, mySys := if cfg.sysChecked then none else s.mySys }
      if hooked "disconnected" "_on_disconnected" && Gen.Callbacks.disconnectedForwards
          && Gen.Callbacks.linkLossStates.contains s.comm.name then
        perform s .communicationfail
      else (s, [])
  | .rx sf f w sys commack =>
    -- not selected: the protocol layer answers Reject.req (or nothing reads the socket); the handler sees nothing
    if !s.selected then (s, []) else onMessage cfg s sf f w sys commack
  | .t3Expired =>
    if !s.t3Armed then (s, []) else perform { s with t3Armed := false } .communicationreqfail
  | .delayExpired =>
    if !s.delayArmed then (s, []) else perform { s with delayArmed := false } .delayexpired

/-- `GemHandler.waitfor_communicating(0)`: a fresh `threading.Event` is registered, the state is tested, the event is waited
for with no time to pass — what the application is told is whether the state is COMMUNICATING now -/
def reportsEstablished (s : State) : Bool := s.comm == .communicating

/-- run a history, extending the observed trace -/
def runFrom (cfg : Cfg) : State → List Obs → List Input → State × List Obs
  | s, tr, [] => (s, tr)
  | s, tr, i :: is => runFrom cfg (step cfg s i).1 (tr ++ [⟨i, (step cfg s i).2⟩]) is

def run (cfg : Cfg) (h : List Input) : State × List Obs := runFrom cfg init [] h

end SecsModel.Model.GemComm
