import SecsModel.Model.Rx
/-!
# Model.Wedge — who waits for whom: receiver thread, dispatcher thread and the close sequence (hand model of the Python)

A thread/program-counter level transition system of

* the **connection's thread** (`TcpConnection.__receiver_thread`, or the harness thread that drives an in-memory `Connection`): delivers
  `on_data` chunks, then runs the close sequence `on_disconnecting` → (`socket.close`) → `on_disconnected`, i.e.
  `HsmsProtocol._on_disconnecting` (`send_separate_req` → `Protocol.send_message`: put a `BlockSendInfo` on the send queue, trigger the
  receiver, **wait without a time-out** for its result) and `HsmsProtocol._on_disconnected` (`connection_state.disconnect()`,
  `ProtocolDispatcher.stop()`: set the stop flag, set the trigger, **join** the receiver thread; `_receive_buffer.clear()`);
* the **protocol receiver thread** (`ProtocolDispatcher._receiver_thread_function`: wait for the trigger, clear it, check the stop flag, run
  `_process_send_queue(); _process_received_data()`, check the stop flag again);
* the **dispatcher thread** (`_dispatcher_thread_function`; it is never stopped — F-8 — and a handler that answers a request blocks in
  `send_message` like everybody else).

`Variant.current` is the code that exists; `blockingRead` is the receive loop before its repair (`wait_for(length)` blocks until the frame is
complete, `fixed:` 725a0b2), `returningSendLoop` the send-queue loop before its repair (`resolve(False); return` leaves the rest of the queue
behind, `fixed:` 8ac2aeb) — both kept for regression witnesses only.  A label `prx false` is a `Connection.send_data` that returns `False`.  Ghost fields (`delivered`, `fed`, `mark`,
`rxErr`, `out`) only record what happened; no guard reads them.
-/
namespace SecsModel.Model.Wedge
open SecsModel SecsModel.Model.Rx

/-- connection thread -/
inductive TcpPc
  | running      -- connected: delivering `on_data`
  | sepEnq       -- `_on_disconnecting`: about to queue the Separate.req
  | sepWait      -- in `BlockSendInfo.wait()` for the Separate.req
  | discon       -- `_on_disconnected`: `connection_state.disconnect()`, then `ProtocolDispatcher.stop()`
  | join         -- in `self._receiver_thread.join()`
  | clear        -- `_receive_buffer.clear()`
  | done         -- not connected
deriving DecidableEq, Repr

/-- protocol receiver thread -/
inductive RxPc
  | notStarted
  | idle         -- in `_receiver_thread_trigger.wait()`
  | chk          -- trigger cleared, about to test the stop flag
  | send         -- in the `while not queue.empty()` loop of `_process_send_queue`
  | recv         -- at the head of the `while len(buffer) > 3` loop of `_process_received_data`
  | blockedRead  -- (only `blocking`) inside `ByteQueue.wait_for(length)`
  | loopCheck    -- target returned: `while not self._stop_receiver_thread`
  | exited
deriving DecidableEq, Repr

/-- dispatcher thread -/
inductive DispPc
  | notStarted
  | idle         -- in `_dispatcher_thread_trigger.wait()`
  | handle       -- in the `while qsize() > 0` loop
  | waitReply    -- a handler is in `BlockSendInfo.wait()` for the reply it queued
deriving DecidableEq, Repr

/-- who waits for a queued `BlockSendInfo` -/
inductive Tag | sep | reply
deriving DecidableEq, Repr

structure St where
  buf : Bytes            -- `_receive_buffer`
  sendQ : List Tag       -- `_send_queue`
  dispQ : Nat            -- number of blocks in `_dispatch_queue`
  rxTrig : Bool          -- `_receiver_thread_trigger` (the `Event` objects live as long as the protocol object)
  dispTrig : Bool        -- `_dispatcher_thread_trigger`
  stopRx : Bool          -- `_stop_receiver_thread`
  sepRes : Bool          -- the Separate.req's `BlockSendInfo` has been resolved
  replyRes : Bool        -- the reply's `BlockSendInfo` has been resolved
  conn : Bool            -- `connection_state.current != NOT_CONNECTED`
  tcp : TcpPc
  prx : RxPc
  disp : DispPc
  delivered : List Block -- ghost: every block handed to `queue_block`, ever
  fed : Bytes            -- ghost: bytes received since the last connect
  mark : Nat             -- ghost: `delivered.length` at the last connect
  rxErr : Bool           -- ghost: a frame was dropped by a decode exception since the last connect
  out : List Tag         -- ghost: what was written to the connection since the last connect
deriving DecidableEq, Repr

def St.init : St :=
  { buf := [], sendQ := [], dispQ := 0, rxTrig := false, dispTrig := false, stopRx := false, sepRes := false, replyRes := false,
    conn := false, tcp := .done, prx := .notStarted, disp := .notStarted, delivered := [], fed := [], mark := 0, rxErr := false, out := [] }

inductive Lbl
  | connect                 -- environment: a connection is established (`_on_connected`)
  | chunk (c : Bytes)       -- environment: the peer's next segment arrives (`on_data`)
  | close                   -- environment: the peer closes / the link drops / `disconnect()` is requested: the close sequence starts
  | tcp                     -- one step of the connection thread inside the close sequence
  | prx (sendOk : Bool)     -- one step of the protocol receiver thread (`sendOk`: result of `send_data` if this step sends)
  | disp (reply : Bool)     -- one step of the dispatcher thread (`reply`: the block popped in this step makes its handler send an answer)
deriving DecidableEq, Repr

/-- what is at the head of the receive buffer -/
inductive Head
  | short
  | incomplete
  | frame (raw rest : Bytes)
deriving DecidableEq, Repr

def head (buf : Bytes) : Head :=
  if buf.length < 4 then .short else
  if buf.length < ofBe (buf.take 4) + 4 then .incomplete else
  .frame (buf.take (ofBe (buf.take 4) + 4)) (buf.drop (ofBe (buf.take 4) + 4))

/-- the code that exists, or one of the two repaired loops -/
inductive Variant | current | blockingRead | returningSendLoop
deriving DecidableEq, Repr

def resolve (t : Tag) (s : St) : St :=
  match t with
  | .sep => { s with sepRes := true }
  | .reply => { s with replyRes := true }

def RxPc.alive (p : RxPc) : Bool := p != .notStarted && p != .exited

def stepTcp (s : St) : Option St :=
  match s.tcp with
  | .sepEnq => some { s with sendQ := s.sendQ ++ [.sep], rxTrig := true, tcp := .sepWait }
  | .sepWait => if s.sepRes then some { s with sepRes := false, tcp := .discon } else none
  | .discon =>
    -- `stop()`: `if not self._receiver_thread.is_alive(): return`
    if s.prx.alive then some { s with conn := false, stopRx := true, rxTrig := true, tcp := .join }
    else some { s with conn := false, tcp := .clear }
  | .join => if s.prx = .exited then some { s with tcp := .clear } else none
  | .clear => some { s with buf := [], tcp := .done }
  | .running => none
  | .done => none

def stepPrx (v : Variant) (s : St) (ok : Bool) : Option St :=
  match s.prx with
  | .idle => if s.rxTrig then some { s with rxTrig := false, prx := .chk } else none
  | .chk => if s.stopRx then some { s with prx := .exited, stopRx := false } else some { s with prx := .send }
  | .send =>
    match s.sendQ with
    | [] => some { s with prx := .recv }
    | t :: q =>
      if ok then some (resolve t { s with sendQ := q, out := s.out ++ [t] })
      else if v = .returningSendLoop then some (resolve t { s with sendQ := q, prx := .recv })   -- before the repair: `resolve(False); return`
      else some (resolve t { s with sendQ := q })                    -- `block_info.resolve(False); break`: on to the next queued block
  | .recv =>
    match head s.buf with
    | .short => some { s with prx := .loopCheck }
    | .incomplete => some { s with prx := if v = .blockingRead then .blockedRead else .loopCheck }
    | .frame raw rest =>
      match Block.decode raw with
      | .ok b => some { s with buf := rest, dispQ := s.dispQ + 1, dispTrig := true, delivered := s.delivered ++ [b] }
      | .error _ => some { s with buf := rest, rxErr := true, prx := .loopCheck }
  | .blockedRead =>
    match head s.buf with
    | .frame _ _ => some { s with prx := .recv }
    | _ => none
  | .loopCheck => if s.stopRx then some { s with prx := .exited, stopRx := false } else some { s with prx := .idle }
  | .notStarted => none
  | .exited => none

def stepDisp (s : St) (reply : Bool) : Option St :=
  match s.disp with
  | .idle => if s.dispTrig then some { s with dispTrig := false, disp := .handle } else none
  | .handle =>
    if s.dispQ = 0 then some { s with disp := .idle }
    else if reply then some { s with dispQ := s.dispQ - 1, sendQ := s.sendQ ++ [.reply], rxTrig := true, disp := .waitReply }
    else some { s with dispQ := s.dispQ - 1 }
  | .waitReply => if s.replyRes then some { s with replyRes := false, disp := .handle } else none
  | .notStarted => none

def step (v : Variant) (s : St) : Lbl → Option St
  | .connect =>
    -- `_on_connected`: `connection_state.connect()`, `ProtocolDispatcher.start()` (resets the stop flags, creates both threads)
    if s.tcp = .done then
      some { s with tcp := .running, conn := true, prx := .idle, stopRx := false,
                    disp := if s.disp = .notStarted then .idle else s.disp,
                    fed := [], mark := s.delivered.length, rxErr := false, out := [] }
    else none
  | .chunk c => if s.tcp = .running then some { s with buf := s.buf ++ c, rxTrig := true, fed := s.fed ++ c } else none
  | .close => if s.tcp = .running then some { s with tcp := .sepEnq } else none
  | .tcp => stepTcp s
  | .prx ok => stepPrx v s ok
  | .disp reply => stepDisp s reply

/-- **Overlapping connect** (passive TCP transport BEFORE repair 814c548; NOT part of `step`; regression witness only):
`TcpServerConnection` restarted its listener from an
`on_disconnected` listener that is registered before the protocol's own one, i.e. while the old connection's thread is still at `discon`
(…`join`, `clear`, and the reset of its flags).  A peer that connects in that window is accepted by the new server thread, which runs
`_on_connected` (`connection_state.connect()`, `ProtocolDispatcher.start()`: new receiver thread, stop flag reset) concurrently with the old
thread's teardown.  `step`/`run`/`Reachable` describe histories in which a connection is established only after the previous close sequence
has finished (`connect` needs `tcp = done`); this function is what happens otherwise, used by the witness in `Props.C09`. -/
def connectEarly (s : St) : Option St :=
  if s.tcp = .discon ∨ s.tcp = .join ∨ s.tcp = .clear then
    some { s with conn := true, prx := .idle, stopRx := false,
                  disp := if s.disp = .notStarted then .idle else s.disp,
                  fed := [], mark := s.delivered.length, rxErr := false, out := [] }
  else none

def run (v : Variant) : St → List Lbl → Option St
  | s, [] => some s
  | s, l :: ls => match step v s l with
    | some s' => run v s' ls
    | none => none

/-- steps of the endpoint's own threads (everything but the environment) -/
def Lbl.internal : Lbl → Bool
  | .tcp | .prx _ | .disp _ => true
  | _ => false

def TcpPc.closing : TcpPc → Bool
  | .sepEnq | .sepWait | .discon | .join | .clear => true
  | _ => false

/-- the internal labels (finitely many), for decidable quantification -/
def internals : List Lbl := [.tcp, .prx true, .prx false, .disp true, .disp false]

/-- nothing the endpoint's own threads could do -/
def quiescent (v : Variant) (s : St) : Bool := internals.all (fun l => (step v s l).isNone)

/-- **wedged**: the close sequence has begun, is not finished, and no thread of the endpoint can take a step -/
def wedged (v : Variant) (s : St) : Bool := s.tcp.closing && quiescent v s

/-! ## ranking function for the endpoint's own steps -/

def b2n : Bool → Nat
  | true => 1
  | false => 0

def TcpPc.rank : TcpPc → Nat
  | .done => 0 | .clear => 1 | .join => 2 | .discon => 10 | .sepWait => 12 | .sepEnq => 22 | .running => 23
def RxPc.rank : RxPc → Nat
  | .notStarted => 0 | .exited => 0 | .idle => 1 | .loopCheck => 2 | .recv => 4 | .blockedRead => 5 | .send => 6 | .chk => 7
def DispPc.rank : DispPc → Nat
  | .notStarted => 0 | .idle => 0 | .handle => 2 | .waitReply => 3

/-- strictly decreased by every step of the endpoint's own threads -/
def mu (s : St) : Nat :=
  4 * s.buf.length + 11 * s.dispQ + 2 * s.sendQ.length + 7 * b2n s.rxTrig + 3 * b2n s.dispTrig + b2n s.sepRes + b2n s.replyRes
    + s.tcp.rank + s.prx.rank + s.disp.rank

end SecsModel.Model.Wedge

/-!
# Model.TcpStop — the two stop-flag handshakes of the TCP connection classes (hand model of the Python)

`TcpClientConnection.disable / __idle / __connect_thread / __connect` and `TcpServerConnection.disable / __server_thread`, with the
receiver thread of `TcpConnection` (`_start_receiver`, `disconnect`, `__receiver_thread`) as far as the handshakes need it.  Every busy
wait (`while flag: time.sleep(0.2)`, `while self._thread_running: pass`) is modelled as a blocking wait: the step is enabled exactly when
the loop would be left, so a state in which the application thread has no enabled step and nobody can enable it is a hang.
`fixed = true` is the code that exists (`/repo` HEAD, repair 1a14b53: `while flag and thread.is_alive()`, flag reset by the waiter, `continue`
after a failed `select`/`accept`); `fixed = false` is the handshake before that repair, kept for the regression witnesses (F-13).
The close sequence of the receiver thread is one step here: that it terminates is `Props.C09.close_completes`.
-/
namespace SecsModel.Model.TcpStop

/-- application thread: `enable()` has returned, `disable()` is called -/
inductive AppPc
  | before       -- `disable()` not yet called
  | check        -- `if self.enabled:` … `self.enabled = False`
  | alive        -- `if thread and thread.is_alive(): flag = True` (server: also closes the listening socket)
  | spin         -- `while flag: time.sleep(0.2)`
  | disc         -- `self.disconnect()`: `if not self._thread_running: return`; sets `_disconnecting`, `_stop_thread`
  | discWait     -- `while self._thread_running: pass`
  | returned
deriving DecidableEq, Repr

/-- receiver thread of `TcpConnection` -/
inductive RcvPc
  | off
  | run          -- in the `while not self._stop_thread` loop
  | closing      -- close sequence incl. the `_disconnected` listener (restarts the connect/server thread if still enabled)
deriving DecidableEq, Repr

namespace Client

/-- `__connect_thread` -/
inductive ThrPc
  | start              -- `if not self.first_connection and not self.__idle(t5): return`
  | idle (k : Nat)     -- inside `__idle`, `k` sleeps left
  | connect            -- `socket.connect` (blocking; the environment decides)
  | up                 -- `setblocking(0)`, `_connected = True`, `_start_receiver()`
  | listen             -- `self.on_connected(...)`: the listeners run (HSMS state machine, user `connected` handlers)
  | dead
deriving DecidableEq, Repr

/-- sleeps of one `__idle(t5)` call (`int(t5) * 5` in the code; any positive number gives the same picture) -/
def idleSleeps : Nat := 2

structure St where
  enabled : Bool
  flag : Bool          -- `stop_connection_thread`
  first : Bool         -- `first_connection`
  stopRcv : Bool       -- `_stop_thread`
  app : AppPc
  thr : ThrPc
  rcv : RcvPc
deriving DecidableEq, Repr

/-- `enable()` has just returned: the connect thread is started -/
def St.init : St := ⟨true, false, true, false, .before, .start, .off⟩

inductive Lbl
  | app
  | thr (ok : Bool)    -- one step of the connect thread (`ok`: does `socket.connect` succeed, if this step is the connect)
  | rcv
  | peerClose          -- environment: the peer closes an established connection (only outside the listener window)
deriving DecidableEq, Repr

def ThrPc.isAlive : ThrPc → Bool
  | .dead => false
  | _ => true

def step (fixed : Bool) (s : St) : Lbl → Option St
  | .app =>
    match s.app with
    | .before => some { s with app := .check }
    | .check => if s.enabled then some { s with enabled := false, app := .alive } else some { s with app := .returned }
    | .alive => if s.thr.isAlive then some { s with flag := true, app := .spin } else some { s with app := .spin }
    | .spin =>
      if fixed then
        (if s.flag && s.thr.isAlive then none else some { s with flag := false, app := .disc })
      else (if s.flag then none else some { s with app := .disc })
    | .disc => if s.rcv = .off then some { s with app := .returned } else some { s with stopRcv := true, app := .discWait }
    | .discWait => if s.rcv = .off then some { s with app := .returned } else none
    | .returned => none
  | .thr ok =>
    match s.thr with
    | .start => if s.first then some { s with first := false, thr := .connect } else some { s with thr := .idle idleSleeps }
    | .idle k =>
      -- `time.sleep(0.2); if self.stop_connection_thread: self.stop_connection_thread = False; return False`
      if s.flag then some { s with flag := false, thr := .dead }
      else if k ≤ 1 then some { s with first := false, thr := .connect } else some { s with thr := .idle (k - 1) }
    | .connect => if ok then some { s with thr := .up } else some { s with thr := .idle idleSleeps }
    | .up => some { s with rcv := .run, thr := .listen }
    | .listen => some { s with thr := .dead }       -- `return True`: the thread ends, the flag is neither looked at nor reset
    | .dead => none
  | .rcv =>
    match s.rcv with
    | .off => none
    | .run => if s.stopRcv then some { s with rcv := .closing } else none
    | .closing =>
      -- `_disconnected`: `if self.enabled: self.__start_connect_thread()`; then `_thread_running = False; _stop_thread = False`
      if s.enabled && !s.thr.isAlive then some { s with rcv := .off, stopRcv := false, thr := .start }
      else some { s with rcv := .off, stopRcv := false }
  | .peerClose => if s.rcv = .run ∧ s.thr = .dead then some { s with rcv := .closing } else none

def run (fixed : Bool) : St → List Lbl → Option St
  | s, [] => some s
  | s, l :: ls => match step fixed s l with
    | some s' => run fixed s' ls
    | none => none

/-- `disable()` can never return: it waits for a flag only the (finished) connect thread would reset -/
def stuck (s : St) : Bool := s.app = .spin && s.flag && !s.thr.isAlive && !s.enabled

def labels : List Lbl := [.app, .thr true, .thr false, .rcv, .peerClose]

end Client

namespace Server

/-- `__server_thread` -/
inductive ThrPc
  | bind         -- create, bind, listen
  | loop         -- `while not self._stop_server_thread`
  | select       -- `select.select([server_sock], [], [], timeout)` inside `try … except Exception: log`
  | accept       -- `self._server_sock.accept()`
  | up           -- `setblocking(0)`, `_connected = True`, `_start_receiver()`
  | listen       -- `self.on_connected(...)`: the listeners run
  | shutdown     -- `self._server_sock.shutdown(SHUT_RDWR); close(); return`
  | dead
deriving DecidableEq, Repr

structure St where
  enabled : Bool
  flag : Bool            -- `_stop_server_thread`
  sock : Option Bool     -- `_server_sock`: `none` not created yet, `some true` open, `some false` closed
  selRes : Option Bool   -- the local `select_result`: unbound, or whether its first list was non-empty
  stopRcv : Bool
  app : AppPc
  thr : ThrPc
  rcv : RcvPc
deriving DecidableEq, Repr

def St.init : St := ⟨true, false, none, none, false, .before, .bind, .off⟩

inductive Lbl
  | app
  | thr (ready : Bool)   -- one step of the server thread (`ready`: does `select` report a pending connection, if this step is the select)
  | rcv
  | peerClose
deriving DecidableEq, Repr

def ThrPc.isAlive : ThrPc → Bool
  | .dead => false
  | _ => true

/-- `fixed`: the stop-flag handshake after repair 1a14b53 (else the one before); `joins`: `_connection_closed` joins the server thread that
accepted the closed connection before it starts a new one (repair 3d90218; else it starts the new one at once) -/
def stepV (fixed joins : Bool) (s : St) : Lbl → Option St
  | .app =>
    match s.app with
    | .before => some { s with app := .check }
    | .check => if s.enabled then some { s with enabled := false, app := .alive } else some { s with app := .returned }
    | .alive =>
      -- `if thread and thread.is_alive(): flag = True; if self._server_sock: self._server_sock.close(); while flag: …`
      if s.thr.isAlive then some { s with flag := true, sock := s.sock.map (fun _ => false), app := .spin }
      else some { s with app := .disc }
    | .spin =>
      if fixed then
        (if s.flag && s.thr.isAlive then none else some { s with flag := false, app := .disc })
      else (if s.flag then none else some { s with app := .disc })
    | .disc => if s.rcv = .off then some { s with app := .returned } else some { s with stopRcv := true, app := .discWait }
    | .discWait => if s.rcv = .off then some { s with app := .returned } else none
    | .returned => none
  | .thr ready =>
    match s.thr with
    | .bind => some { s with sock := some true, thr := .loop }
    | .loop => if s.flag then some { s with flag := false, thr := .dead } else some { s with thr := .select }
    | .select =>
      if s.sock = some true then
        (if ready then some { s with selRes := some true, thr := .accept } else some { s with selRes := some false, thr := .loop })
      else if ready then
        -- the listening socket was closed by `disable()` while this `select` was waiting on it: the call returns and reports the socket
        -- readable (observed on Linux 6.x / CPython 3.12: `enable(); …; disable()` of an idle passive connection) — `accept` comes next
        some { s with selRes := some true, thr := .accept }
      else
        -- `select` called on the already closed socket: raises `ValueError`, caught and logged; `select_result` keeps its previous
        -- binding (patched: `continue` in the `except` branch, the stop flag is looked at again)
        if fixed then some { s with thr := .loop } else
        match s.selRes with
        | none => some { s with thr := .dead }                 -- `UnboundLocalError`: the thread dies
        | some false => some { s with thr := .loop }
        | some true => some { s with thr := .accept }
    | .accept =>
      if s.sock = some true then some { s with thr := .up }
      else if fixed then some { s with thr := .loop }        -- patched: `except OSError: continue`
      else some { s with thr := .dead }                      -- `EBADF`: the thread dies
    | .up => some { s with rcv := .run, thr := .listen }
    | .listen => some { s with thr := .shutdown }
    | .shutdown => some { s with sock := s.sock.map (fun _ => false), thr := .dead }   -- returns (or dies with `EBADF`): flag not reset
    | .dead => none
  | .rcv =>
    match s.rcv with
    | .off => none
    | .run => if s.stopRcv then some { s with rcv := .closing } else none
    | .closing =>
      -- close sequence, then the `_connection_closed` hook: `if self._enabled:` [join the old server thread] `self.__start_server_thread()`
      if s.enabled then
        if s.thr.isAlive then
          -- the thread that accepted this connection is still in its tail (listeners, close of the listening socket)
          (if joins then none                                         -- `self._server_thread.join()`: wait for it
           else some { s with rcv := .off, stopRcv := false })        -- before 3d90218: the new thread's `bind` fails (EADDRINUSE), it dies
        else some { s with rcv := .off, stopRcv := false, thr := .bind, sock := none, selRes := none }
      else some { s with rcv := .off, stopRcv := false }
  -- the peer may close as soon as the connection exists, also while the accepting thread still runs the `on_connected` listeners
  | .peerClose => if s.rcv = .run then some { s with rcv := .closing } else none

/-- the code that exists joins (`/repo` 3d90218) -/
def step (fixed : Bool) (s : St) : Lbl → Option St := stepV fixed true s

def runV (fixed joins : Bool) : St → List Lbl → Option St
  | s, [] => some s
  | s, l :: ls => match stepV fixed joins s l with
    | some s' => runV fixed joins s' ls
    | none => none

def run (fixed : Bool) : St → List Lbl → Option St := runV fixed true

def stuck (s : St) : Bool := s.app = .spin && s.flag && !s.thr.isAlive && !s.enabled

def labels : List Lbl := [.app, .thr true, .thr false, .rcv, .peerClose]

/-- enabled, but nobody listens and nobody is connected: the endpoint can never be reached again -/
def deaf (s : St) : Bool := s.enabled && !s.thr.isAlive && s.rcv = .off && s.app = .before

end Server

/-- breadth-first closure of a finite transition system given as a successor function (fuel = number of rounds) -/
def closure {σ : Type} [DecidableEq σ] (succ : σ → List σ) : Nat → List σ → List σ → List σ
  | 0, seen, _ => seen
  | n+1, seen, frontier =>
    let next := (frontier.flatMap succ).foldl (fun acc x => if acc.contains x then acc else acc ++ [x]) seen
    let fresh := next.drop seen.length
    if fresh.isEmpty then seen else closure succ n next fresh

end SecsModel.Model.TcpStop
