import SecsModel.Model.Var
import SecsModel.Model.Catalogue
import SecsModel.Model.SfdlShape
/-!
# Model.FnCodec — a stream/function on the wire: `SecsStreamFunction.encode/decode`, `StreamsFunctions.decode`

`SecsStreamFunction.__init__` builds `self.data = functions.generate(self._data_format)`; `encode()` is `self.data.encode()`
(`b""` for a header-only function), `decode(data)` is `self.data.decode(data)` (nothing for a header-only function);
`StreamsFunctions.decode(message)` looks the class up by the header's stream and function numbers, creates a fresh object and
decodes the body into it.

`structOfShape` turns the *shape* the SFDL model gives for a `_data_format` (`Model.Sfdl.parse` then `erase`: data item / open
array / keyed record) into the codec's `Struct`, reading each data item's `__type__`, `__allowedtypes__` and `__count__` from the
generated `Gen.DataItems` table — the way `generate` creates `List` / `Array(count=-1)` / data item objects and
`DataItemBase.__init__` passes type list and count on.
-/
namespace SecsModel.Model.Fn
open SecsModel SecsModel.Spec.E5 SecsModel.Model.Var SecsModel.Gen.Catalogue

/-- variable class name (as in `__type__` / `__allowedtypes__`) to codec tag -/
def clsTag (n : List Char) : Option Tag := tagOfCls (String.ofList n)

def tagsOf : List (List Char) → Option (List Tag)
  | [] => some []
  | n :: ns => match clsTag n, tagsOf ns with | some g, some gs => some (g :: gs) | _, _ => none

/-- the object `ItemClass()` is: a `Dynamic` with the declared type list, or a leaf of the declared type, with `__count__` -/
def itemStruct (i : Gen.DataItems.Item) : Option Struct :=
  if i.type == ['D', 'y', 'n', 'a', 'm', 'i', 'c'] then
    match tagsOf i.allowed with
    | some gs => some (.dyn gs i.count)
    | none => none
  else
    match clsTag i.type with
    | some (.leaf t) => some (.leaf t i.count)
    | _ => none

def findItem (n : List Char) : Option Gen.DataItems.Item := Gen.DataItems.items.find? (fun i => i.cls == n)

mutual
/-- shape of a `_data_format` to the structure of the variable tree `generate` builds for it -/
def structOfShape : Spec.Sfdl.Struct → Option Struct
  | .item n => match findItem n with | some i => itemStruct i | none => none
  | .array e => match structOfShape e with | some s => some (.array s (-1)) | none => none
  | .record fs => match structOfFields fs with | some ss => some (.record ss) | none => none
def structOfFields : List (Spec.Sfdl.Name × Spec.Sfdl.Struct) → Option (List Struct)
  | [] => some []
  | (_, v) :: r => match structOfShape v, structOfFields r with | some s, some ss => some (s :: ss) | _, _ => none
end

/-- structure of the data of a structure text -/
def structOfText (t : List Char) : Option Struct :=
  match Model.Sfdl.parse t with
  | .error _ => none
  | .ok o => match Model.Sfdl.erase o with | some sh => structOfShape sh | none => none

/-- structure of a catalogued function's data; `none` for a header-only function (and if `generate` cannot build the tree) -/
def structOf (f : Fn) : Option Struct :=
  match f.dataFormat with
  | none => none
  | some t => structOfText t

/-- `cls(value).encode()` once `value` is held: the body bytes -/
def encode (f : Fn) (v : Option Val) : Except Err Bytes :=
  match f.dataFormat, v with
  | none, _ => .ok []                                    -- `if self.data is None: return b""`
  | some _, some v => Model.Var.encode v
  | some _, none => .error .other                        -- an unset function with data (`Dynamic.value is None` …): not modelled

/-- `StreamsFunctions.decode(message)` for a message with these header numbers and this body: the class found and the value its
fresh object holds afterwards (`none` for a header-only function, whose body is not looked at) -/
def decode (cat : List Fn) (stream function : Nat) (body : Bytes) : Except Err (Fn × Option Val) :=
  match Model.Catalogue.function cat stream function with
  | .error e => .error e
  | .ok none => .error .valueError                       -- "Decoding failed, invalid message"
  | .ok (some f) =>
    match f.dataFormat with
    | none => .ok (f, none)
    | some t =>
      match structOfText t with
      | none => .error .other
      | some s =>
        match decodeAs s body 0 with
        | .error e => .error e
        | .ok (v, _) => .ok (f, some v)

/-! ## plain Python values given to a `Dynamic` data item: `Dynamic._match_type`, `supports_value` (scalars) -/

/-- `isinstance(value, tuple(var_type.preferred_types))` -/
def prefersPy (g : Tag) (p : PyVal) : Bool :=
  match g, p with
  | .arr, .list _ => true
  | .arr, _ => false
  | .leaf t, p =>
    match t.kind, p with
    | .bool, .bool _ => true
    | .sint, .int _ | .sint, .bool _ | .uint, .int _ | .uint, .bool _ => true       -- `bool` is an `int`
    | .f32, .float _ | .f64, .float _ => true
    | .char, .str _ | .char, .bytes _ | .jis, .str _ | .jis, .bytes _ => true
    | .byte, .bytes _ | .byte, .bytearray _ => true
    | _, _ => false

/-- the integer a (whole-number) bound of a float class stands for: Python compares an `int` with a `float` exactly -/
def boundInt (r : Row) (b : Int) : Int :=
  if r.is_float then (match truncToInt b.toNat with | .ok n => n | .error _ => 0) else b

/-- `BaseNumber.supports_value` on a scalar -/
def supNum (r : Row) : PyVal → Option Bool
  | .bool _ => some true
  | .int n => if r.is_float then some (!(decide (n < boundInt r r.min) || decide (n > boundInt r r.max))) else some (!outOfRange r n)
  | .float x => if r.is_float then some (!outOfRange r (x : Int)) else some false
  | .str cps => if r.is_float then none else (match parseDec cps with | .ok n => some (!outOfRange r n) | .error _ => some false)
  | .bytes bs => if r.is_float then none else (match parseDec bs with | .ok n => some (!outOfRange r n) | .error _ => some false)
  | .none => some false
  | .bytearray _ => none
  | .list _ => none
  | .tuple _ => none
  | .obj _ => none

/-- `Boolean.supports_value` on a scalar -/
def supBool : PyVal → Option Bool
  | .bool _ => some true
  | .int n => some (decide (0 ≤ n ∧ n ≤ 1))
  | .str cps => some (match boolOfPy (.str cps) with | .ok _ => true | .error _ => false)
  | .float _ => some false
  | .bytes _ => some false
  | .none => some false
  | .bytearray _ => none
  | .list _ => none
  | .tuple _ => none
  | .obj _ => none

/-- `BaseText.supports_value` on a scalar -/
def supText (r : Row) (count : Int) : PyVal → Option Bool
  | .bytes bs => some (!(decide (0 < count ∧ count < (bs.length : Int))))
  | .bool b => some (!(decide (0 < count ∧ count < (if b then 4 else 5))))
  | .int n => some (!(decide (0 < count ∧ count < ((decimal n).length : Int))))
  | .float _ => if count ≤ 0 then some true else none
  | .str cps =>
    some (!(decide (0 < count ∧ count < (cps.length : Int)))
      && (match encodeText (codingOf r.coding) (cps.map (fun (c : Nat) => (c : Int))) with | .ok _ => true | .error _ => false))
  | .none => some false
  | .bytearray _ => none
  | .list _ => none
  | .tuple _ => none
  | .obj _ => none

/-- `Binary.supports_value` on a scalar -/
def supBin (count : Int) : PyVal → Option Bool
  | .bytes bs => some (!(decide (0 < count ∧ count < (bs.length : Int))))
  | .str cps =>
    some (!(decide (0 < count ∧ count < (cps.length : Int)))
      && (match encodeText .ascii (cps.map (fun (c : Nat) => (c : Int))) with | .ok _ => true | .error _ => false))
  | .bool _ => some true
  | .int n => some (decide (0 ≤ n ∧ n ≤ 255))
  | .float _ => some false
  | .none => some false
  | .bytearray _ => none
  | .list _ => none
  | .tuple _ => none
  | .obj _ => none

/-- `T(count=count).supports_value(p)` for a scalar `p`; `none`: outside the modelled part (lists, numeric strings for float
classes, the text length of a float under a count limit) -/
def supportsScalar (t : Ty) (count : Int) (p : PyVal) : Option Bool :=
  match t.kind with
  | .sint | .uint | .f32 | .f64 => supNum (rowOf t) p
  | .bool => supBool p
  | .char | .jis => supText (rowOf t) count p
  | .byte => supBin count p

inductive Match | found (g : Tag) | notFound | typeError | unmodelled
deriving DecidableEq, Repr

/-- first pass of `_match_type`: the first type that prefers the Python type of `p` and supports it -/
def pass1 (count : Int) (p : PyVal) : List Tag → Match
  | [] => .notFound
  | .arr :: gs => if prefersPy .arr p then .unmodelled else pass1 count p gs
  | .leaf t :: gs =>
    if prefersPy (.leaf t) p then
      match supportsScalar t count p with
      | none => .unmodelled
      | some true => .found (.leaf t)
      | some false => pass1 count p gs
    else pass1 count p gs

/-- second pass: the first type that supports `p`; reaching `Array` raises (`Array(count=…)` lacks its `data_format`) -/
def pass2 (count : Int) (p : PyVal) : List Tag → Match
  | [] => .notFound
  | .arr :: _ => .typeError
  | .leaf t :: gs =>
    match supportsScalar t count p with
    | none => .unmodelled
    | some true => .found (.leaf t)
    | some false => pass2 count p gs

/-- the type order used when no type list is configured -/
def defaultOrder : List Tag := Gen.VarTypes.matchOrder.filterMap tagOfCls

/-- `Dynamic(types, count=count)._match_type(p)` -/
def matchType (types : List Tag) (count : Int) (p : PyVal) : Match :=
  let var := if types.isEmpty then defaultOrder else types
  match pass1 count p var with
  | .notFound => pass2 count p var
  | m => m

/-- `d = Dynamic(types, count=count); d.set(p); d.get()` for a plain scalar: the class chosen and what is read back -/
def setGet (types : List Tag) (count : Int) (p : PyVal) : Except Err (Ty × PyVal) :=
  match matchType types count p with
  | .found (.leaf t) => match setLeaf t count p with | .error e => .error e | .ok es => .ok (t, getLeaf t es)
  | .found .arr => .error .other
  | .notFound => .error .valueError
  | .typeError => .error .typeError
  | .unmodelled => .error .other

end SecsModel.Model.Fn
