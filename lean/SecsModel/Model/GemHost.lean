import SecsModel.Model.GemBase
import SecsModel.Model.GemEv
import SecsModel.Model.GemTab
/-!
# Model.GemHost — host side of event reports and alarms (hand model of the Python), and the host/equipment pair

Follows `secsgem/gem/hosthandler.py`:
* `subscribe_collection_event(ceid, dvs, report_id=None)`: `report_id` defaults to `_report_id_counter` (1000 at start,
  `gem/handler.py`), which is then incremented; `report_subscriptions[report_id] = dvs` is recorded **before** the three requests
  S2F33 `[(report_id, dvs)]`, S2F35 `[(ceid, [report_id])]`, S2F37 `(True, [ceid])` are sent, in that order; the replies are
  not looked at;
* `clear_collection_events`: `report_subscriptions = {}`, then S2F37 `(False, [])` (`disable_ceids`), then S2F33 `[]`
  (`disable_ceid_reports`); both are also host API calls of their own (`SecsHandler.disable_ceids/disable_ceid_reports`), which
  leave `report_subscriptions` as it is;
* `_on_s06f11`: for each report `report_subscriptions[RPTID.get()]` (`KeyError` for an unknown id, `TypeError` for a
  list-valued one), `values[index]` for every subscribed dv (`IndexError` when the report carries fewer values; surplus
  values are ignored), one `collection_event_received` event per report, then S6F12 (0); an exception ⇒ S6F0 *after* the
  events already fired;
* `_on_s05f01`: `alarm_received` callback and event, S5F2 with the callback's result (default ACCEPTED = 0).

`Pair` composes this host with the equipment of `Model.GemEv` over a FIFO link: the three requests of a subscription are
handled by the equipment in order, every S6F11 of a trigger call is handled by the host in order.
-/
namespace SecsModel.Model.Gem.Host
open SecsModel SecsModel.Model.Gem SecsModel.Spec.EventReports

structure Host where
  subs : AList (List Id)       -- `report_subscriptions`
  counter : Int                -- `_report_id_counter`
deriving DecidableEq, Repr

def Host.init : Host := ⟨[], 1000⟩

/-- what the host application observes, and the reply the host sends -/
inductive HostEff
  | received (ceid : Id) (rptid : Id) (values : List (Id × Val))   -- `collection_event_received`
  | alarm (alcd : Nat) (alid : Id) (text : String)                 -- `alarm_received` (callback and event)
  | reply12                                                        -- S6F12 ACKC6 = 0
  | reply52 (ackc5 : Nat)                                          -- S5F2
  | abort                                                          -- SxF0
deriving DecidableEq, Repr

/-- `for index, dv in enumerate(report_dvs): values.append({"dvid": dv, "value": report_values[index]})` -/
def pairValues : List Id → List Val → Except Err (List (Id × Val))
  | [], _ => .ok []
  | _ :: _, [] => .error .indexError
  | d :: ds, v :: vs =>
    match pairValues ds vs with
    | .error e => .error e
    | .ok r => .ok ((d, v) :: r)

/-- `_on_s06f11` on the body (CEID, reports) -/
def onS6f11 (h : Host) (ceid : Id) : List (Id × List Val) → List HostEff
  | [] => [.reply12]
  | (r, vals) :: rest =>
    if r.scalar then
      match h.subs.lookup r with
      | none => [.abort]
      | some dvs =>
        match pairValues dvs vals with
        | .error _ => [.abort]
        | .ok vs => .received ceid r vs :: onS6f11 h ceid rest
    else [.abort]

/-- `_on_s05f01` with the default `alarm_received` callback -/
def onS5f01 (row : Tab.AlarmRow) : List HostEff := [.alarm row.alcd row.id row.text, .reply52 0]

/-- the requests one `subscribe_collection_event` call sends, and the host afterwards -/
def subscribe (h : Host) (ceid : Id) (dvs : List Id) (reportId : Option Id) : Host × Id :=
  match reportId with
  | some r => ({ h with subs := h.subs.set r dvs }, r)
  | none => ({ subs := h.subs.set (.nums [h.counter]) dvs, counter := h.counter + 1 }, .nums [h.counter])

/-! ## the pair over a FIFO link -/

structure Pair where
  eq : Ev.St
  host : Host
deriving DecidableEq, Repr

def Pair.init : Pair := ⟨Ev.St.init, Host.init⟩

inductive Op
  | subscribe (ceid : Id) (dvs : List Id) (reportId : Option Id)
  | clear
  | disableReports                 -- `disable_ceid_reports()`: S2F33 with an empty list (delete all); `report_subscriptions` is NOT touched
  | disableCeids                   -- `disable_ceids()`: S2F37 (False, [])
  | trigger (ceids : List Id)
  | setSv (v : Id) (x : Val)
  | setDv (v : Id) (x : Val)
deriving DecidableEq, Repr

inductive Out
  | acks (a33 a35 a37 : Ack)                  -- what the equipment answered to the three requests of a subscription
  | cleared (a37 a33 : Ack)
  | single (a : Ack)
  | delivered (effs : List (List HostEff)) (crashed : Bool)   -- per S6F11 of the trigger call: what the host did with it
  | nothing
deriving DecidableEq, Repr

def step (cfg : Ev.Cfg) (p : Pair) : Op → Pair × Out
  | .subscribe ceid dvs rid =>
    let (h', r) := subscribe p.host ceid dvs rid
    let (s1, a1) := Ev.s2f33 cfg p.eq [⟨r, dvs⟩]
    let (s2, a2) := Ev.s2f35 cfg s1 [⟨ceid, [r]⟩]
    let (s3, a3) := Ev.s2f37 s2 true [ceid]
    (⟨s3, h'⟩, .acks a1 a2 a3)
  | .clear =>
    let (s1, a1) := Ev.s2f37 p.eq false []
    let (s2, a2) := Ev.s2f33 cfg s1 []
    (⟨s2, { p.host with subs := [] }⟩, .cleared a1 a2)
  | .disableReports =>
    let (s1, a1) := Ev.s2f33 cfg p.eq []
    (⟨s1, p.host⟩, .single a1)
  | .disableCeids =>
    let (s1, a1) := Ev.s2f37 p.eq false []
    (⟨s1, p.host⟩, .single a1)
  | .trigger ceids =>
    let r := Ev.trigger cfg p.eq ceids
    (p, .delivered (r.1.map (fun m => onS6f11 p.host m.1 m.2)) r.2)
  | .setSv v x => (⟨(Ev.step cfg p.eq (.setSv v x)).1, p.host⟩, .nothing)
  | .setDv v x => (⟨(Ev.step cfg p.eq (.setDv v x)).1, p.host⟩, .nothing)

def run (cfg : Ev.Cfg) (p : Pair) : List Op → Pair
  | [] => p
  | op :: ops => run cfg (step cfg p op).1 ops

def trace (cfg : Ev.Cfg) (p : Pair) : List Op → List (Out × Pair)
  | [] => []
  | op :: ops => let r := step cfg p op; (r.2, r.1) :: trace cfg r.1 ops

end SecsModel.Model.Gem.Host
