import SecsModel.Model.GemBase
import SecsModel.Spec.EventReports
/-!
# Model.GemEv — event-report configuration of the GEM equipment handler (hand model of the Python)

Follows `secsgem/gem/collection_event_capability.py` statement by statement:
`_on_s02f33` (pre-check loop, *last error wins*; delete-all; per-entry delete with `while x in l: l.remove(x)` / define),
`_on_s02f35` (pre-check loop; per-entry unlink / append / new link, new links disabled),
`_on_s02f37` + `_set_ce_state` (unknown = *not linked* CEIDs are skipped, the others are still switched),
`_on_s06f15`, `trigger_collection_events`, `_build_collection_event`
and the three small classes `CollectionEventLink` (reports list, `enabled = False`), `CollectionEventReport`, `CollectionEvent`.

Python-level facts that are modelled (see `Model/GemBase.lean`): the keys of `_registered_reports` are `Dynamic` items
(hash = first value → `IndexError` for an empty numeric item, equality = value list); `CEID.get()` / `RPTID.get()` are
`int`/`str` for single-valued items and `list` otherwise (`TypeError: unhashable` when used as a dict key).
An exception anywhere in a callback makes `SecsHandler._handle_stream_function` answer `SxF0` (`Ack.abort`).

The state *is* the declarative configuration of `Spec.EventReports` plus the current values of the variables.
-/
namespace SecsModel.Model.Gem.Ev
open SecsModel SecsModel.Model.Gem SecsModel.Spec.EventReports

/-- where a status variable's value comes from (`_get_sv_value`) -/
inductive SvSrc
  | cell            -- `value_type(status_variable.value)` (directly or through the default callback)
  | eventsEnabled   -- SVID 1003: the enabled CEIDs in dict order
deriving DecidableEq, Repr

/-- static tables of the handler -/
structure Cfg where
  ceids : List Id            -- keys of `_collection_events`
  svs : List (Id × SvSrc)    -- keys of `_status_variables`
  dvs : List Id              -- keys of `_data_values`
deriving Repr

structure St where
  conf : Config
  svVals : AList Val
  dvVals : AList Val
deriving DecidableEq, Repr

def St.init : St := ⟨⟨[], []⟩, [], []⟩

def Cfg.isSv (cfg : Cfg) (v : Id) : Bool := cfg.svs.any (fun e => e.1 = v)
def Cfg.isDv (cfg : Cfg) (v : Id) : Bool := cfg.dvs.any (fun e => e = v)
/-- `(vid in self._data_values) or (vid in self._status_variables)` -/
def Cfg.known (cfg : Cfg) (v : Id) : Bool := cfg.isDv v || cfg.isSv v

/-- `_get_events_enabled` -/
def eventsEnabled (c : Config) : List Id := (c.links.filter (fun e => e.2.2)).map (·.1)

/-- the value a `V` item of a report carries for `var`: status variable first, then data value, else nothing is appended -/
def value? (cfg : Cfg) (s : St) (v : Id) : Option Val :=
  match cfg.svs.find? (fun e => e.1 = v) with
  | some (_, .eventsEnabled) => some (.ids (eventsEnabled s.conf))
  | some (_, .cell) => some ((s.svVals.lookup v).getD (.nums [0]))
  | none => if cfg.isDv v then some ((s.dvVals.lookup v).getD (.nums [0])) else none

/-! ## S2F33 -/

/-- inner loop of the pre-check: `for vid in report.VID: if (vid not in dvs) and (vid not in svs): drack = 4` -/
def pre33Vids (cfg : Cfg) : Nat → List Id → Except Err Nat
  | acc, [] => .ok acc
  | acc, v :: vs =>
    if v.hashable then pre33Vids cfg (if cfg.known v then acc else 4) vs
    else .error .indexError

/-- pre-check loop of `_on_s02f33`; the accumulator is `drack` -/
def pre33 (cfg : Cfg) (c : Config) : Nat → List RptReq → Except Err Nat
  | acc, [] => .ok acc
  | acc, r :: rs =>
    if r.rptid.hashable then
      if c.reports.contains r.rptid && !r.vids.isEmpty then pre33 cfg c 3 rs
      else match pre33Vids cfg acc r.vids with
        | .error e => .error e
        | .ok acc' => pre33 cfg c acc' rs
    else .error .indexError

/-- `while x in l: l.remove(x)` (fuel = length, never exhausted) -/
def removeAllGo (x : Id) : Nat → List Id → List Id
  | 0, l => l
  | n + 1, l => if x ∈ l then removeAllGo x n (l.erase x) else l

def removeAll (x : Id) (l : List Id) : List Id := removeAllGo x l.length l

/-- the delete branch for one link entry of the dict -/
def unlinkReport (r : Id) (e : Id × (List Id × Bool)) : Option (Id × (List Id × Bool)) :=
  if r ∈ e.2.1 then
    let rs' := removeAll r e.2.1
    if rs'.isEmpty then none else some (e.1, (rs', e.2.2))
  else some e

/-- one entry of the apply loop -/
def apply33 (c : Config) (r : RptReq) : Config :=
  if r.vids.isEmpty then
    { links := c.links.filterMap (unlinkReport r.rptid),
      reports := if c.reports.contains r.rptid then c.reports.erase r.rptid else c.reports }
  else { c with reports := c.reports.set r.rptid r.vids }

def s2f33 (cfg : Cfg) (s : St) (data : List RptReq) : St × Ack :=
  match pre33 cfg s.conf 0 data with
  | .error _ => (s, .abort)
  | .ok drack =>
    if drack ≠ 0 then (s, .code drack)
    else if data.isEmpty then ({ s with conf := { reports := [], links := [] } }, .code 0)
    else ({ s with conf := data.foldl apply33 s.conf }, .code 0)

/-! ## S2F35 -/

/-- inner loop: `for rptid in event.RPTID` with `c = event.CEID.get()` -/
def pre35Rpts (cf : Config) (c : Id) : Nat → List Id → Except Err Nat
  | acc, [] => .ok acc
  | acc, r :: rs =>
    let acc1 := match cf.links.lookup c with
      | some (linked, _) => if r ∈ linked then 3 else acc
      | none => acc
    if r.scalar then pre35Rpts cf c (if cf.reports.contains r then acc1 else 5) rs
    else .error .typeError

def pre35 (cfg : Cfg) (cf : Config) : Nat → List LinkReq → Except Err Nat
  | acc, [] => .ok acc
  | acc, e :: es =>
    if e.ceid.scalar then
      match pre35Rpts cf e.ceid (if e.ceid ∈ cfg.ceids then acc else 4) e.rptids with
      | .error x => .error x
      | .ok acc' => pre35 cfg cf acc' es
    else .error .typeError

def apply35 (c : Config) (e : LinkReq) : Config :=
  if e.rptids.isEmpty then
    if c.links.contains e.ceid then { c with links := c.links.erase e.ceid } else c
  else match c.links.lookup e.ceid with
    | some (linked, en) => { c with links := c.links.set e.ceid (e.rptids.foldl (fun l r => l ++ [r]) linked, en) }
    | none => { c with links := c.links.set e.ceid (e.rptids, false) }

def s2f35 (cfg : Cfg) (s : St) (data : List LinkReq) : St × Ack :=
  match pre35 cfg s.conf 0 data with
  | .error _ => (s, .abort)
  | .ok lrack =>
    if lrack ≠ 0 then (s, .code lrack)
    else ({ s with conf := data.foldl apply35 s.conf }, .code 0)

/-! ## S2F37 -/

def setEnabled (links : AList (List Id × Bool)) (c : Id) (ceed : Bool) : AList (List Id × Bool) :=
  links.map (fun e => if e.1 = c then (e.1, (e.2.1, ceed)) else e)

/-- the `for ceid in ceids` loop of `_set_ce_state`; `.error` carries the links as they are when the exception escapes -/
def setCeLoop (ceed : Bool) : AList (List Id × Bool) → Bool → List Id → AList (List Id × Bool) × Option Bool
  | links, res, [] => (links, some res)
  | links, res, c :: cs =>
    if c.scalar then
      if links.contains c then setCeLoop ceed (setEnabled links c ceed) res cs
      else setCeLoop ceed links false cs
    else (links, none)

def s2f37 (s : St) (ceed : Bool) (ceids : List Id) : St × Ack :=
  if ceids.isEmpty then
    ({ s with conf := { s.conf with links := s.conf.links.map (fun e => (e.1, (e.2.1, ceed))) } }, .code 0)
  else
    let (links, r) := setCeLoop ceed s.conf.links true ceids
    ({ s with conf := { s.conf with links := links } },
      match r with | some true => .code 0 | some false => .code 1 | none => .abort)

/-! ## S6F15 / trigger -/

/-- `_build_collection_event`: `KeyError` when a linked report is not registered -/
def buildReports (cfg : Cfg) (s : St) : List Id → Except Err (List (Id × List Val))
  | [] => .ok []
  | r :: rs =>
    match s.conf.reports.lookup r with
    | none => .error .keyError
    | some vars =>
      match buildReports cfg s rs with
      | .error e => .error e
      | .ok rest => .ok ((r, vars.filterMap (value? cfg s)) :: rest)

inductive Out
  | ack (a : Ack)
  | report (ceid : Id) (rpts : List (Id × List Val))   -- S6F16 / S6F11 body (DATAID is the constant 1)
  | nothing                                             -- nothing is sent
  | sent (msgs : List (Id × List (Id × List Val))) (crashed : Bool)   -- the S6F11 bodies a trigger call sent, in order
deriving DecidableEq, Repr

def s6f15 (cfg : Cfg) (s : St) (c : Id) : Out :=
  if c.scalar then
    match s.conf.links.lookup c with
    | some (rs, true) =>
      match buildReports cfg s rs with
      | .ok rpts => .report c rpts
      | .error _ => .ack .abort
    | _ => .report c []
  else .ack .abort

/-- is the event linked and enabled (`ceid in links and links[ceid].enabled`) -/
def reportable (s : St) (c : Id) : Bool :=
  match s.conf.links.lookup c with
  | some (_, true) => true
  | _ => false

/-- the sender thread of `trigger_collection_events(ceids)` (Python `int`/`str` ids): one S6F11 per linked and enabled CEID,
in list order; the other CEIDs are skipped and the loop goes on.  Second component: the thread died with an exception
(dangling link), what was sent before stays sent. -/
def trigger (cfg : Cfg) (s : St) : List Id → List (Id × List (Id × List Val)) × Bool
  | [] => ([], false)
  | c :: cs =>
    match s.conf.links.lookup c with
    | some (rs, true) =>
      match buildReports cfg s rs with
      | .ok rpts => let r := trigger cfg s cs; ((c, rpts) :: r.1, r.2)
      | .error _ => ([], true)
    | _ => trigger cfg s cs

/-! ## histories -/

inductive Op
  | s2f33 (data : List RptReq)
  | s2f35 (data : List LinkReq)
  | s2f37 (ceed : Bool) (ceids : List Id)
  | s6f15 (ceid : Id)
  | trigger (ceids : List Id)
  | setSv (v : Id) (x : Val)
  | setDv (v : Id) (x : Val)
deriving DecidableEq, Repr

def step (cfg : Cfg) (s : St) : Op → St × Out
  | .s2f33 d => let (s', a) := s2f33 cfg s d; (s', .ack a)
  | .s2f35 d => let (s', a) := s2f35 cfg s d; (s', .ack a)
  | .s2f37 ceed cs => let (s', a) := s2f37 s ceed cs; (s', .ack a)
  | .s6f15 c => (s, s6f15 cfg s c)
  | .trigger cs => let r := trigger cfg s cs; (s, .sent r.1 r.2)
  | .setSv v x => ({ s with svVals := s.svVals.set v x }, .nothing)
  | .setDv v x => ({ s with dvVals := s.dvVals.set v x }, .nothing)

def run (cfg : Cfg) (s : St) : List Op → St
  | [] => s
  | op :: ops => run cfg (step cfg s op).1 ops

/-- the outputs along a history (for the driver) -/
def trace (cfg : Cfg) (s : St) : List Op → List (Out × St)
  | [] => []
  | op :: ops => let r := step cfg s op; (r.2, r.1) :: trace cfg r.1 ops

end SecsModel.Model.Gem.Ev
