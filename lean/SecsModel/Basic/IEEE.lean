import SecsModel.Basic.Py
/-!
# Basic.IEEE — IEEE-754 binary64 / binary32 at bit level (executable, no Mathlib)

A Python `float` is its binary64 bit pattern, a `Nat < 2^64` (`B64`); a binary32 pattern is a `Nat < 2^32`.
* `round32` is `struct.pack('>f', x)`: round to nearest, ties to even, subnormal results, `OverflowError`
  when a finite double rounds to infinity.  NaN: sign kept, payload truncated, quiet bit set (what `(float)x` does on x86-64/aarch64).
* `widen` is `struct.unpack('>f', …)`: exact; a signalling NaN comes back quiet.
* `flt` is Python's `<` on floats: false whenever a NaN is involved; `-0.0 < 0.0` is false.
-/
namespace SecsModel.IEEE

/-- `x / 2^k` rounded to nearest, ties to even -/
def rne (x k : Nat) : Nat :=
  if 2^k < 2 * (x % 2^k) ∨ (2 * (x % 2^k) = 2^k ∧ x / 2^k % 2 = 1) then x / 2^k + 1 else x / 2^k

def sign64 (b : Nat) : Nat := b / 2^63 % 2
def expo64 (b : Nat) : Nat := b / 2^52 % 2048
def frac64 (b : Nat) : Nat := b % 2^52

def sign32 (f : Nat) : Nat := f / 2^31 % 2
def expo32 (f : Nat) : Nat := f / 2^23 % 256
def frac32 (f : Nat) : Nat := f % 2^23

/-- magnitude bits (binary32, sign stripped) of a *finite* double's nearest binary32; may be `≥ 0x7F800000` = overflow -/
def mag32 (e m : Nat) : Nat :=
  if 897 ≤ e then (e - 897) * 2^23 + rne (if e = 0 then m else 2^52 + m) 29
  else rne (if e = 0 then m else 2^52 + m) (926 - max e 1)

/-- `struct.pack('>f', x)` on the binary64 pattern `b` -/
def round32F (s e m : Nat) : Except Err Nat :=
  if e = 2047 then
    if m = 0 then .ok (s * 2^31 + 0x7F800000)
    else .ok (s * 2^31 + 0x7FC00000 + m / 2^29 % 2^22)
  else
    if 0x7F800000 ≤ mag32 e m then .error .overflow else .ok (s * 2^31 + mag32 e m)

def round32 (b : Nat) : Except Err Nat := round32F (sign64 b) (expo64 b) (frac64 b)

/-- `struct.unpack('>f', …)[0]` as a binary64 pattern -/
def widenF (s e m : Nat) : Nat :=
  if e = 255 then
    if m = 0 then s * 2^63 + 2047 * 2^52
    else s * 2^63 + 2047 * 2^52 + 2^51 + (m % 2^22) * 2^29
  else if e = 0 then
    if m = 0 then s * 2^63
    else s * 2^63 + (Nat.log2 m + 874) * 2^52 + (m - 2^(Nat.log2 m)) * 2^(52 - Nat.log2 m)
  else s * 2^63 + (e + 896) * 2^52 + m * 2^29

def widen (f : Nat) : Nat := widenF (sign32 f) (expo32 f) (frac32 f)

def isNaN64 (b : Nat) : Bool := decide (2047 * 2^52 < b % 2^63)
def isInf64 (b : Nat) : Bool := decide (b % 2^63 = 2047 * 2^52)
def isFinite64 (b : Nat) : Bool := decide (b % 2^63 < 2047 * 2^52)
def isFinite32 (f : Nat) : Bool := decide (expo32 f ≠ 255)

/-- order key of a non-NaN double: sign-magnitude to integer (`-0.0` and `0.0` both 0) -/
def key64 (b : Nat) : Int := if sign64 b = 1 then -((b % 2^63 : Nat) : Int) else ((b % 2^63 : Nat) : Int)

/-- Python `a < b` on floats -/
def flt (a b : Nat) : Bool := !isNaN64 a && !isNaN64 b && decide (key64 a < key64 b)

/-- Python `a <= b` on floats -/
def fle (a b : Nat) : Bool := !isNaN64 a && !isNaN64 b && decide (key64 a ≤ key64 b)

/-- the largest finite binary32, as a double -/
def fltMax64 : Nat := 0x47EFFFFFE0000000
/-- the largest finite binary64 -/
def dblMax64 : Nat := 0x7FEFFFFFFFFFFFFF

example : widen 0x7F7FFFFF = fltMax64 := by decide
example : round32 0x3FB999999999999A = .ok 0x3DCCCCCD := by rfl   -- 0.1
example : round32 0x47EFFFFFF0000000 = .error .overflow := by rfl   -- FLT_MAX + half an ulp: tie to even overflows
example : round32 0x47EFFFFFEFFFFFFF = .ok 0x7F7FFFFF := by rfl
example : round32 0x36A0000000000000 = .ok 1 := by rfl              -- 2^-149
example : round32 0x3690000000000000 = .ok 0 := by rfl              -- 2^-150: tie to even, down
example : round32 0x3690000000000001 = .ok 1 := by rfl
example : widen 1 = 0x36A0000000000000 := by decide
example : widen 0x007FFFFF = 0x380FFFFFC0000000 := by decide           -- largest subnormal
example : round32 0x380FFFFFC0000000 = .ok 0x007FFFFF := by rfl
example : round32 0x380FFFFFF0000000 = .ok 0x00800000 := by rfl     -- rounds up into the smallest normal

/-! ## laws -/

theorem rne_exact (q k : Nat) : rne (q * 2^k) k = q := by
  have hp : 0 < 2^k := Nat.two_pow_pos k
  have c : ¬ (2^k < 2 * 0 ∨ (2 * 0 = 2^k ∧ q % 2 = 1)) := by omega
  simp only [rne, Nat.mul_div_cancel _ hp, Nat.mul_mod_left]
  rw [if_neg c]

theorem rne_mono_bound (x k B : Nat) (h : x ≤ B * 2^k) : rne x k ≤ B := by
  have hp : 0 < 2^k := Nat.two_pow_pos k
  rcases Nat.lt_or_ge x (B * 2^k) with hlt | hge
  · have hq : x / 2^k < B := (Nat.div_lt_iff_lt_mul hp).mpr hlt
    simp only [rne]
    split <;> omega
  · have he : x = B * 2^k := by omega
    subst he
    rw [rne_exact]; exact Nat.le_refl _

/-- field decomposition of a binary32 pattern -/
theorem decomp32 (f : Nat) (hf : f < 2^32) : f = sign32 f * 2^31 + expo32 f * 2^23 + frac32 f := by
  simp only [sign32, expo32, frac32]; omega

theorem sign32_lt (f : Nat) : sign32 f < 2 := by simp only [sign32]; omega
theorem expo32_lt (f : Nat) : expo32 f < 256 := by simp only [expo32]; omega
theorem frac32_lt (f : Nat) : frac32 f < 2^23 := by simp only [frac32]; omega

/-- fields of an assembled binary64 pattern -/
theorem fields64 (s e m : Nat) (hs : s < 2) (he : e < 2048) (hm : m < 2^52) :
    sign64 (s * 2^63 + e * 2^52 + m) = s ∧ expo64 (s * 2^63 + e * 2^52 + m) = e ∧ frac64 (s * 2^63 + e * 2^52 + m) = m := by
  simp only [sign64, expo64, frac64]; omega

theorem sub_pow_mul (m k : Nat) (hk : 2^k ≤ m) (hk2 : k ≤ 52) :
    2^52 + (m - 2^k) * 2^(52 - k) = m * 2^(52 - k) := by
  have h : 2^(52 - k) * 2^k = 2^52 := Nat.pow_sub_mul_pow 2 hk2
  have h1 : 2^k * 2^(52-k) ≤ m * 2^(52-k) := Nat.mul_le_mul_right _ hk
  rw [Nat.sub_mul]
  rw [Nat.mul_comm] at h
  omega

theorem subnormal_frac_lt (m k : Nat) (hk2 : k ≤ 52) (hk3 : m < 2^(k+1)) : (m - 2^k) * 2^(52 - k) < 2^52 := by
  have hpk : 2^(52 - k) * 2^k = 2^52 := Nat.pow_sub_mul_pow 2 hk2
  have : m - 2^k < 2^k := by rw [Nat.pow_succ] at hk3; omega
  calc (m - 2^k) * 2^(52-k) < 2^k * 2^(52-k) := Nat.mul_lt_mul_of_pos_right this (Nat.two_pow_pos _)
    _ = 2^52 := by rw [Nat.mul_comm]; exact hpk

/-- the three finite shapes of `widenF`, as assembled patterns `s·2^63 + e·2^52 + m` -/
theorem widenF_shape (s e m : Nat) (he : e < 255) (hm : m < 2^23) :
    ∃ e' m', widenF s e m = s * 2^63 + e' * 2^52 + m' ∧ e' ≤ 1150 ∧ m' < 2^52 ∧ (e' = 1150 → m' ≤ 0xFFFFFE0000000)
      ∧ mag32 e' m' = e * 2^23 + m := by
  have hne : ¬ (e = 255) := by omega
  simp only [widenF, hne, if_false]
  by_cases he0 : e = 0
  · simp only [he0, if_true]
    by_cases hm0 : m = 0
    · subst hm0
      have hz : mag32 0 0 = 0 := by
        have c : ¬ (897 ≤ 0) := by omega
        simp only [mag32]
        rw [if_neg c, if_pos trivial]
        generalize 926 - max 0 1 = k
        have z : (0 : Nat) = 0 * 2^k := by rw [Nat.zero_mul]
        conv => lhs; rw [z]
        exact rne_exact 0 k
      refine ⟨0, 0, by simp, by omega, by omega, by omega, by rw [hz]⟩
    · simp only [hm0, if_false]
      have hk1 : 2 ^ Nat.log2 m ≤ m := Nat.log2_self_le hm0
      have hk2 : Nat.log2 m < 23 := (Nat.log2_lt hm0).mpr hm
      have hk3 : m < 2 ^ (Nat.log2 m + 1) := Nat.lt_log2_self
      generalize Nat.log2 m = k at *
      have hfr := subnormal_frac_lt m k (by omega) hk3
      refine ⟨k + 874, (m - 2^k) * 2^(52 - k), rfl, by omega, hfr, by omega, ?_⟩
      simp only [mag32]
      have c1 : ¬ (k + 874 = 0) := by omega
      have c2 : ¬ (897 ≤ k + 874) := by omega
      have c3 : 926 - max (k + 874) 1 = 52 - k := by omega
      rw [if_neg c2, if_neg c1, c3, sub_pow_mul m k hk1 (by omega), rne_exact]
      omega
  · simp only [he0, if_false]
    refine ⟨e + 896, m * 2^29, rfl, by omega, by omega, by omega, ?_⟩
    simp only [mag32]
    have c1 : ¬ (e + 896 = 0) := by omega
    have c2 : 897 ≤ e + 896 := by omega
    have e1 : 2^52 + m * 2^29 = (2^23 + m) * 2^29 := by omega
    rw [if_pos c2, if_neg c1, e1, rne_exact]
    omega

/-- **widening then rounding is the identity on every finite binary32 (normal, subnormal, zero)** -/
theorem round32_widen (f : Nat) (hf : f < 2^32) (hfin : expo32 f ≠ 255) : round32 (widen f) = .ok f := by
  have hd := decomp32 f hf
  have hs := sign32_lt f
  have he := expo32_lt f
  have hm := frac32_lt f
  obtain ⟨e', m', hw, he', hm', _, hmag⟩ := widenF_shape (sign32 f) (expo32 f) (frac32 f) (by omega) hm
  obtain ⟨h1, h2, h3⟩ := fields64 (sign32 f) e' m' hs (by omega) hm'
  have hne : ¬ (e' = 2047) := by omega
  have hno : ¬ (0x7F800000 ≤ expo32 f * 2^23 + frac32 f) := by omega
  simp only [round32, widen, hw, h1, h2, h3, round32F]
  rw [if_neg hne, hmag, if_neg hno]
  congr 1; omega

/-- every finite binary32 widens to a finite double of magnitude at most FLT_MAX -/
theorem widen_le_max (f : Nat) (hfin : expo32 f ≠ 255) :
    widen f < 2^64 ∧ widen f % 2^63 ≤ fltMax64 := by
  have hs := sign32_lt f
  have he := expo32_lt f
  have hm := frac32_lt f
  obtain ⟨e', m', hw, he', hm', hmx, _⟩ := widenF_shape (sign32 f) (expo32 f) (frac32 f) (by omega) hm
  simp only [widen, hw, fltMax64]
  generalize sign32 f = s at *
  omega

theorem mag32_le (e m : Nat) (he : e ≤ 1150) (hm : m < 2^52) (hm2 : e = 1150 → m ≤ 0xFFFFFE0000000) :
    mag32 e m ≤ 0x7F7FFFFF := by
  simp only [mag32]
  by_cases c : 897 ≤ e
  · have c1 : ¬ (e = 0) := by omega
    rw [if_pos c, if_neg c1]
    by_cases c2 : e = 1150
    · have := hm2 c2
      have hb : rne (2^52 + m) 29 ≤ 2^24 - 1 := rne_mono_bound _ _ _ (by omega)
      omega
    · have hb : rne (2^52 + m) 29 ≤ 2^24 := rne_mono_bound _ _ _ (by omega)
      omega
  · rw [if_neg c]
    have hsig : (if e = 0 then m else 2^52 + m) < 2^53 := by split <;> omega
    generalize (if e = 0 then m else 2^52 + m) = sig at *
    have hk : 30 ≤ 926 - max e 1 := by omega
    generalize 926 - max e 1 = k at *
    have h30 : 2^30 ≤ 2^k := Nat.pow_le_pow_right (by decide) hk
    have h2 : sig ≤ 2^23 * 2^k := by
      calc sig ≤ 2^23 * 2^30 := by omega
        _ ≤ 2^23 * 2^k := Nat.mul_le_mul_left _ h30
    have := rne_mono_bound sig k (2^23) h2
    omega

/-- a double of magnitude at most FLT_MAX packs without overflow into a finite binary32 -/
theorem round32_of_le_max (b : Nat) (h : b % 2^63 ≤ fltMax64) :
    ∃ f, round32 b = .ok f ∧ f < 2^32 ∧ expo32 f ≠ 255 := by
  simp only [fltMax64] at h
  have hs : sign64 b < 2 := by simp only [sign64]; omega
  have he : expo64 b ≤ 1150 := by simp only [expo64]; omega
  have hm : frac64 b < 2^52 := by simp only [frac64]; omega
  have hm2 : expo64 b = 1150 → frac64 b ≤ 0xFFFFFE0000000 := by simp only [expo64, frac64]; omega
  have hmag := mag32_le _ _ he hm hm2
  have hne : ¬ (expo64 b = 2047) := by omega
  have hno : ¬ (0x7F800000 ≤ mag32 (expo64 b) (frac64 b)) := by omega
  refine ⟨sign64 b * 2^31 + mag32 (expo64 b) (frac64 b), ?_, by omega, ?_⟩
  · simp only [round32, round32F]; rw [if_neg hne, if_neg hno]
  · simp only [expo32]; omega

theorem isNaN64_false_iff (x : Nat) : isNaN64 x = false ↔ x % 2^63 ≤ 2047 * 2^52 := by
  simp only [isNaN64, decide_eq_false_iff_not]; omega

/-- a non-NaN double passes `not (x < -mx or x > mx)` exactly when its magnitude is at most `mx` (`mx` finite, positive pattern) -/
theorem range_check (x mx : Nat) (hmx : mx < 2047 * 2^52) (hnan : isNaN64 x = false) :
    (flt x (2^63 + mx) || flt mx x) = false ↔ x % 2^63 ≤ mx := by
  have n1 : isNaN64 (2^63 + mx) = false := by rw [isNaN64_false_iff]; omega
  have n2 : isNaN64 mx = false := by rw [isNaN64_false_iff]; omega
  have k1 : key64 (2^63 + mx) = -(mx : Int) := by
    have a : sign64 (2^63 + mx) = 1 := by simp only [sign64]; omega
    have b : (2^63 + mx) % 2^63 = mx := by omega
    simp only [key64, a, b, if_true]
  have k2 : key64 mx = (mx : Int) := by
    have a : ¬ (sign64 mx = 1) := by simp only [sign64]; omega
    have b : mx % 2^63 = mx := by omega
    simp only [key64, b]; rw [if_neg a]
  simp only [flt, n1, n2, hnan, k1, k2, Bool.not_false, Bool.true_and, Bool.or_eq_false_iff, decide_eq_false_iff_not]
  simp only [key64]
  have hs : sign64 x = 0 ∨ sign64 x = 1 := by simp only [sign64]; omega
  rcases hs with hs | hs
  · have a : ¬ (sign64 x = 1) := by omega
    rw [if_neg a]; omega
  · rw [if_pos hs]; omega

/-- a non-NaN double passes `-mx <= x <= mx` exactly when its magnitude is at most `mx` (`mx` finite, positive pattern) -/
theorem bounds_check (x mx : Nat) (hmx : mx < 2047 * 2^52) (hnan : isNaN64 x = false) :
    (fle (2^63 + mx) x && fle x mx) = true ↔ x % 2^63 ≤ mx := by
  have n1 : isNaN64 (2^63 + mx) = false := by rw [isNaN64_false_iff]; omega
  have n2 : isNaN64 mx = false := by rw [isNaN64_false_iff]; omega
  have k1 : key64 (2^63 + mx) = -(mx : Int) := by
    have a : sign64 (2^63 + mx) = 1 := by simp only [sign64]; omega
    have b : (2^63 + mx) % 2^63 = mx := by omega
    simp only [key64, a, b, if_true]
  have k2 : key64 mx = (mx : Int) := by
    have a : ¬ (sign64 mx = 1) := by simp only [sign64]; omega
    have b : mx % 2^63 = mx := by omega
    simp only [key64, b]; rw [if_neg a]
  simp only [fle, n1, n2, hnan, k1, k2, Bool.not_false, Bool.true_and, Bool.and_eq_true, decide_eq_true_eq]
  simp only [key64]
  have hs : sign64 x = 0 ∨ sign64 x = 1 := by simp only [sign64]; omega
  rcases hs with hs | hs
  · have a : ¬ (sign64 x = 1) := by omega
    rw [if_neg a]; omega
  · rw [if_pos hs]; omega

/-- a NaN passes every `x < lo or x > hi` range check -/
theorem range_check_nan (x lo hi : Nat) (hnan : isNaN64 x = true) : (flt x lo || flt hi x) = false := by
  simp [flt, hnan]

end SecsModel.IEEE
