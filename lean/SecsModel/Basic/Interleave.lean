/-!
# Basic.Interleave — labelled transition systems, runs over schedules, inductive invariants

A `Sys σ ι` is a deterministic labelled transition system: `step s i = none` means that label `i`
(a thread's atomic step, or an input event) is not enabled in `s`.  A *schedule* / *history* is a
list of labels; `run` executes it from `init` and fails (`none`) as soon as a label is not enabled.
Every "for all schedules" theorem is an instance of `inv_of_step`.  No Mathlib.
-/
namespace SecsModel

structure Sys (σ ι : Type) where
  init : σ
  step : σ → ι → Option σ

namespace Sys
variable {σ ι : Type}

/-- execute a schedule from an arbitrary state -/
def runFrom (S : Sys σ ι) : σ → List ι → Option σ
  | s, [] => some s
  | s, i :: is => match S.step s i with
    | some s' => runFrom S s' is
    | none => none

/-- execute a schedule from the initial state -/
def run (S : Sys σ ι) (is : List ι) : Option σ := S.runFrom S.init is

@[simp] theorem runFrom_nil (S : Sys σ ι) (s : σ) : S.runFrom s [] = some s := rfl

theorem runFrom_cons (S : Sys σ ι) (s : σ) (i : ι) (is : List ι) :
    S.runFrom s (i :: is) = (S.step s i).bind (fun s' => S.runFrom s' is) := by
  simp only [runFrom]; cases S.step s i <;> rfl

theorem runFrom_append (S : Sys σ ι) : ∀ (is js : List ι) (s : σ),
    S.runFrom s (is ++ js) = (S.runFrom s is).bind (fun s' => S.runFrom s' js)
  | [], _, _ => rfl
  | i :: is, js, s => by
    simp only [List.cons_append, runFrom]
    cases S.step s i with
    | none => rfl
    | some s' => exact runFrom_append S is js s'

/-- an invariant that holds initially and is preserved by every enabled step holds after every schedule -/
theorem inv_from (S : Sys σ ι) (Inv : σ → Prop)
    (hs : ∀ s i s', Inv s → S.step s i = some s' → Inv s') :
    ∀ (is : List ι) (s s' : σ), Inv s → S.runFrom s is = some s' → Inv s'
  | [], s, s', h, hr => by
    simp only [runFrom, Option.some.injEq] at hr; exact hr ▸ h
  | i :: is, s, s', h, hr => by
    simp only [runFrom] at hr
    cases hst : S.step s i with
    | none => rw [hst] at hr; cases hr
    | some s1 => rw [hst] at hr; exact inv_from S Inv hs is s1 s' (hs s i s1 h hst) hr

theorem inv_of_step (S : Sys σ ι) (Inv : σ → Prop) (h0 : Inv S.init)
    (hs : ∀ s i s', Inv s → S.step s i = some s' → Inv s') :
    ∀ (is : List ι) (s : σ), S.run is = some s → Inv s :=
  fun is s hr => inv_from S Inv hs is S.init s h0 hr

/-- **bounded runs**: if every enabled step from a state satisfying `Inv` keeps `Inv` and strictly decreases the measure `M`,
then a schedule of length `n` lowers `M` by at least `n` — no schedule is longer than `M init` -/
theorem bound_from (S : Sys σ ι) (Inv : σ → Prop) (M : σ → Nat)
    (hs : ∀ s i s', Inv s → S.step s i = some s' → Inv s' ∧ M s' < M s) :
    ∀ (is : List ι) (s s' : σ), Inv s → S.runFrom s is = some s' → is.length + M s' ≤ M s
  | [], s, s', _, hr => by
    simp only [runFrom, Option.some.injEq] at hr; subst hr; simp
  | i :: is, s, s', h, hr => by
    simp only [runFrom] at hr
    cases hst : S.step s i with
    | none => rw [hst] at hr; cases hr
    | some s1 =>
      rw [hst] at hr
      obtain ⟨h1, hlt⟩ := hs s i s1 h hst
      have := bound_from S Inv M hs is s1 s' h1 hr
      simp only [List.length_cons]; omega

theorem bound_of_measure (S : Sys σ ι) (Inv : σ → Prop) (M : σ → Nat) (h0 : Inv S.init)
    (hs : ∀ s i s', Inv s → S.step s i = some s' → Inv s' ∧ M s' < M s) (is : List ι) (s : σ) (hr : S.run is = some s) :
    is.length + M s ≤ M S.init := bound_from S Inv M hs is S.init s h0 hr

/-- the same system with a guard on (state, label): labels failing the guard are not enabled -/
def pre (S : Sys σ ι) (g : σ → ι → Bool) : Sys σ ι where
  init := S.init
  step := fun s i => if g s i then S.step s i else none

theorem pre_step {S : Sys σ ι} {g : σ → ι → Bool} {s : σ} {i : ι} {s' : σ}
    (h : (S.pre g).step s i = some s') : g s i = true ∧ S.step s i = some s' := by
  simp only [pre] at h
  cases hg : g s i with
  | false => rw [hg] at h; simp at h
  | true => rw [hg] at h; exact ⟨rfl, by simpa using h⟩

/-- a run of the guarded system is a run of the system -/
theorem pre_runFrom (S : Sys σ ι) (g : σ → ι → Bool) : ∀ (is : List ι) (s s' : σ),
    (S.pre g).runFrom s is = some s' → S.runFrom s is = some s'
  | [], _, _, h => h
  | i :: is, s, s', h => by
    simp only [runFrom] at h ⊢
    cases hst : (S.pre g).step s i with
    | none => rw [hst] at h; cases h
    | some s1 =>
      rw [hst] at h
      rw [(pre_step hst).2]
      exact pre_runFrom S g is s1 s' h

theorem pre_run (S : Sys σ ι) (g : σ → ι → Bool) (is : List ι) (s : σ)
    (h : (S.pre g).run is = some s) : S.run is = some s := pre_runFrom S g is S.init s h

end Sys
end SecsModel
