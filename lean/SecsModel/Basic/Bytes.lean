/-!
# Basic.Bytes — big-endian byte strings over `Nat`

Bytes are `Nat`s carrying an explicit bound (`AllBytes`) in theorems; the driver converts at the
boundary.  No Mathlib imports: this file is part of the executable model.
-/
namespace SecsModel

abbrev Bytes := List Nat

/-- every element is a byte -/
def AllBytes (bs : Bytes) : Prop := ∀ b ∈ bs, b < 256

instance (bs : Bytes) : Decidable (AllBytes bs) := by unfold AllBytes; infer_instance

/-- `k`-byte big-endian rendering of `n mod 256^k` -/
def be : Nat → Nat → Bytes
  | 0, _ => []
  | k+1, n => (n / 256^k % 256) :: be k n

/-- value of a big-endian byte string -/
def ofBe : Bytes → Nat
  | [] => 0
  | b :: bs => b * 256 ^ bs.length + ofBe bs

@[simp] theorem be_length (k n : Nat) : (be k n).length = k := by
  induction k with
  | zero => rfl
  | succ k ih => simp [be, ih]

theorem be_allBytes (k n : Nat) : AllBytes (be k n) := by
  induction k with
  | zero => intro b hb; simp [be] at hb
  | succ k ih =>
    intro b hb
    simp only [be, List.mem_cons] at hb
    rcases hb with h | h
    · subst h; exact Nat.mod_lt _ (by decide)
    · exact ih b h

theorem ofBe_be (k n : Nat) : ofBe (be k n) = n % 256^k := by
  induction k with
  | zero => simp [be, ofBe, Nat.mod_one]
  | succ k ih =>
    simp only [be, ofBe, be_length, ih]
    have h : 256^(k+1) = 256^k * 256 := by rw [Nat.pow_succ]
    rw [h, Nat.mod_mul, Nat.add_comm, Nat.mul_comm]

theorem ofBe_be_of_lt (k n : Nat) (h : n < 256^k) : ofBe (be k n) = n := by
  rw [ofBe_be, Nat.mod_eq_of_lt h]

theorem ofBe_lt (bs : Bytes) (h : AllBytes bs) : ofBe bs < 256 ^ bs.length := by
  induction bs with
  | nil => simp [ofBe]
  | cons b bs ih =>
    have hb : b < 256 := h b (by simp)
    have ih' := ih (fun x hx => h x (by simp [hx]))
    simp only [ofBe, List.length_cons, Nat.pow_succ]
    have : b * 256 ^ bs.length ≤ 255 * 256 ^ bs.length := Nat.mul_le_mul_right _ (by omega)
    omega

/-- `be` is the inverse of `ofBe` on byte strings -/
theorem be_ofBe (bs : Bytes) (h : AllBytes bs) : be bs.length (ofBe bs) = bs := by
  induction bs with
  | nil => rfl
  | cons b bs ih =>
    have hb : b < 256 := h b (by simp)
    have hbs : AllBytes bs := fun x hx => h x (by simp [hx])
    have hlt := ofBe_lt bs hbs
    have ih' := ih hbs
    simp only [List.length_cons, be, ofBe]
    have hpos : 0 < 256 ^ bs.length := Nat.pow_pos (by decide)
    have h1 : (b * 256 ^ bs.length + ofBe bs) / 256 ^ bs.length = b := by
      rw [Nat.add_comm, Nat.add_mul_div_right _ _ hpos, Nat.div_eq_of_lt hlt]; simp
    rw [h1, Nat.mod_eq_of_lt hb]
    congr 1
    -- be k (b*256^k + r) = be k r
    have key : ∀ k, k ≤ bs.length → be k (b * 256 ^ bs.length + ofBe bs) = be k (ofBe bs) := by
      intro k
      induction k with
      | zero => intro _; rfl
      | succ k ihk =>
        intro hk
        simp only [be]
        rw [ihk (by omega)]
        congr 1
        -- (b*256^L + r) / 256^k % 256 = r / 256^k % 256  since 256^(k+1) ∣ b*256^L
        have hL : bs.length = (k + 1) + (bs.length - (k+1)) := by omega
        have : b * 256 ^ bs.length = 256 ^ k * (256 * (b * 256 ^ (bs.length - (k+1)))) := by
          conv => lhs; rw [hL, Nat.pow_add, Nat.pow_succ]
          simp [Nat.mul_comm, Nat.mul_left_comm, Nat.mul_assoc]
        rw [this, Nat.mul_add_div (Nat.pow_pos (by decide)), Nat.mul_add_mod]
    rw [key _ (Nat.le_refl _)]
    exact ih'

end SecsModel
