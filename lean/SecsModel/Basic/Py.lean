import SecsModel.Basic.Bytes
/-!
# Basic.Py — the fragment of Python semantics the translator (`tools/gen.py`) targets

Python `int` is `Int`; the bit operators are total and follow Python's two's-complement reading of
negative numbers; `struct.pack/unpack` with a literal big-endian format of unsigned fields; and
`bytes(bytearray((…)))`.  Exceptions become `Except Err`.
-/
namespace SecsModel

/-- the exception classes the models distinguish -/
inductive Err
  | valueError | structError | typeError | indexError | keyError | overflow
  | parseError | wrongSource | unknownTransition | other
deriving DecidableEq, Repr, Inhabited

def Err.name : Err → String
  | .valueError => "ValueError" | .structError => "StructError" | .typeError => "TypeError"
  | .indexError => "IndexError" | .keyError => "KeyError" | .overflow => "Overflow"
  | .parseError => "ParseError" | .wrongSource => "WrongSource"
  | .unknownTransition => "UnknownTransition" | .other => "Other"

namespace Py

/-- Python `~x` -/
def bnot (a : Int) : Int := -a - 1

/-- Python `a & b` (two's complement for negatives, via De Morgan on the non-negative complements) -/
def band (a b : Int) : Int :=
  if 0 ≤ a then
    if 0 ≤ b then ((a.toNat &&& b.toNat : Nat) : Int)
    else -- a & b = a & ~(~b) = a - (a & ~b)   with ~b ≥ 0
      a - ((a.toNat &&& (bnot b).toNat : Nat) : Int)
  else
    if 0 ≤ b then b - ((b.toNat &&& (bnot a).toNat : Nat) : Int)
    else bnot (((bnot a).toNat ||| (bnot b).toNat : Nat) : Int)

/-- Python `a | b` -/
def bor (a b : Int) : Int :=
  if 0 ≤ a ∧ 0 ≤ b then ((a.toNat ||| b.toNat : Nat) : Int)
  else bnot (band (bnot a) (bnot b))

/-- Python `a ^ b` -/
def bxor (a b : Int) : Int := bor a b - band a b

/-- Python `a << n` (n ≥ 0; a negative count raises in Python and is not produced by the translator) -/
def shl (a : Int) (n : Int) : Int := a * 2 ^ n.toNat

/-- Python `a >> n` (floor) -/
def shr (a : Int) (n : Int) : Int := a / 2 ^ n.toNat

theorem band_nat (a b : Nat) : band (a : Int) (b : Int) = ((a &&& b : Nat) : Int) := by
  simp [band]

theorem bor_nat (a b : Nat) : bor (a : Int) (b : Int) = ((a ||| b : Nat) : Int) := by
  simp [bor]

theorem shl_nat (a n : Nat) : shl (a : Int) (n : Int) = ((a <<< n : Nat) : Int) := by
  simp [shl, Nat.shiftLeft_eq]

theorem shr_nat (a n : Nat) : shr (a : Int) (n : Int) = ((a >>> n : Nat) : Int) := by
  simp [shr, Nat.shiftRight_eq_div_pow]

/-- `bytes(bytearray((a, b, …)))`: every element must be in `range(256)` -/
def bytesOf : List Int → Except Err Bytes
  | [] => .ok []
  | x :: xs =>
    if 0 ≤ x ∧ x < 256 then
      match bytesOf xs with
      | .ok r => .ok (x.toNat :: r)
      | .error e => .error e
    else .error .valueError

/-- `struct.pack('>…', …)` for unsigned fields given as `(width, value)`; out-of-range raises `struct.error` -/
def packBE : List (Nat × Int) → Except Err Bytes
  | [] => .ok []
  | (w, v) :: rest =>
    if 0 ≤ v ∧ v < 256 ^ w then
      match packBE rest with
      | .ok r => .ok (be w v.toNat ++ r)
      | .error e => .error e
    else .error .structError

/-- field extraction of `struct.unpack('>…', data)` once the length is known to match -/
def unpackFields : List Nat → Bytes → List Int
  | [], _ => []
  | w :: ws, data => (ofBe (data.take w) : Int) :: unpackFields ws (data.drop w)

/-- `struct.unpack('>…', data)` for unsigned fields of the given widths; a length mismatch raises `struct.error` -/
def unpackBE (ws : List Nat) (data : Bytes) : Except Err (List Int) :=
  if data.length = ws.sum then .ok (unpackFields ws data) else .error .structError

end Py
end SecsModel
