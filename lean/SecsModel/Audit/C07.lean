import SecsModel.Props.C07
#print axioms SecsModel.Props.C07.table_refines
#print axioms SecsModel.Props.C07.table_step
#print axioms SecsModel.Props.C07.established_only_after_exchange_all
#print axioms SecsModel.Props.C07.established_only_after_exchange
#print axioms SecsModel.Props.C07.established_only_after_exchange_partial
#print axioms SecsModel.Props.C07.witness_s1f14_system_unchecked
#print axioms SecsModel.Props.C07.witness_commack_denied
#print axioms SecsModel.Props.C07.event_only_on_entering
#print axioms SecsModel.Props.C07.timers_pending
#print axioms SecsModel.Props.C07.retry_on_timeout
#print axioms SecsModel.Props.C07.retry_on_refusal
#print axioms SecsModel.Props.C07.retry_after_delay
#print axioms SecsModel.Props.C07.leave_on_loss
#print axioms SecsModel.Props.C07.link_loss_reaches_handler
#print axioms SecsModel.Props.C07.reported_only_after_exchange
#print axioms SecsModel.Props.C07.not_reported_after_loss
#print axioms SecsModel.Props.C07.no_callback_unless_established
