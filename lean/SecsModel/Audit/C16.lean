import SecsModel.Props.C16
#print axioms SecsModel.Props.C16.header_roundtrip
