import SecsModel.Props.C16
#print axioms SecsModel.Props.C16.header_roundtrip
#print axioms SecsModel.Props.C16.split_correct
#print axioms SecsModel.Props.C16.split_eq
#print axioms SecsModel.Props.C16.block_roundtrip
#print axioms SecsModel.Props.C16.corruption_rejected
#print axioms SecsModel.Props.C16.decode_canonical
#print axioms SecsModel.Props.C16.decode_injective
#print axioms SecsModel.Proofs.SecsIHdr.encode_decode
#print axioms SecsModel.Proofs.SecsI.decode_eq
#print axioms SecsModel.Proofs.SecsI.encode_eq
#print axioms SecsModel.Props.C16.reassembly
#print axioms SecsModel.Proofs.SecsIReasm.reassemble_local
#print axioms SecsModel.Proofs.SecsIReasm.runK_split
#print axioms SecsModel.Props.C16.reassembly_key_is_system_bytes
#print axioms SecsModel.Props.C16.reassembly_statements
