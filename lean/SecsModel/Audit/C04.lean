import SecsModel.Props.C04
#print axioms SecsModel.Props.C04.stype_table
#print axioms SecsModel.Props.C04.block_format
#print axioms SecsModel.Props.C04.header_roundtrip
#print axioms SecsModel.Props.C04.header_spec_roundtrip
#print axioms SecsModel.Props.C04.header_invalid_stype
#print axioms SecsModel.Props.C04.frame_exact
#print axioms SecsModel.Props.C04.frame_roundtrip
#print axioms SecsModel.Props.C04.segmentation
#print axioms SecsModel.Props.C04.prefix_monotone
#print axioms SecsModel.Props.C04.prefix_monotone_chunks
#print axioms SecsModel.Props.C04.segmentation_independent
#print axioms SecsModel.Props.C04.on_data_no_lost_wakeup
#print axioms SecsModel.Props.C04.dispatch_no_lost_wakeup
#print axioms SecsModel.Props.C04.reordered_handover_loses_wakeup
#print axioms SecsModel.Props.C04.byte_queue_locked
#print axioms SecsModel.Props.C04.dispatch_queue_unbounded
