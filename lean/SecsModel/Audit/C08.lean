import SecsModel.Props.C08
#print axioms SecsModel.Props.C08.exactly_one
#print axioms SecsModel.Props.C08.callback_table
#print axioms SecsModel.Props.C08.reply_handed_over
#print axioms SecsModel.Props.C08.registered_callback_wins
#print axioms SecsModel.Props.C08.catalogue_has_replies
#print axioms SecsModel.Props.C08.exactly_one_builtin
#print axioms SecsModel.Props.C08.exactly_one_in_sequence
#print axioms SecsModel.Props.C08.no_reply_without_W
#print axioms SecsModel.Props.C08.no_reply_without_W_partial
#print axioms SecsModel.Props.C08.witness_reply_without_w
#print axioms SecsModel.Props.C08.witness_abort_uncatalogued
#print axioms SecsModel.Props.C08.callback_none
#print axioms SecsModel.Props.C08.callback_reply_then_raise
#print axioms SecsModel.Props.C08.nothing_unless_established
