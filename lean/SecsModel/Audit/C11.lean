import SecsModel.Props.C11
#print axioms SecsModel.Props.C11.table_refines_E30
#print axioms SecsModel.Props.C11.methods_wellformed
#print axioms SecsModel.Props.C11.step_refines_E30
#print axioms SecsModel.Props.C11.ack_codes
#print axioms SecsModel.Props.C11.events_exactly_on_transitions
#print axioms SecsModel.Props.C11.sv1002_correct
#print axioms SecsModel.Props.C11.start_reaches_stable
#print axioms SecsModel.Props.C11.history
#print axioms SecsModel.Props.C11.history_from_start
#print axioms SecsModel.Props.C11.link_loss_effect
#print axioms SecsModel.Props.C11.switch_online_split
