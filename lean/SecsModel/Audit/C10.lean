import SecsModel.Props.C10
#print axioms SecsModel.Props.C10.packet_size_pos
#print axioms SecsModel.Props.C10.socket_options
#print axioms SecsModel.Props.C10.single_writer
#print axioms SecsModel.Props.C10.send_message_truthful
#print axioms SecsModel.Props.C10.send_all_or_false
#print axioms SecsModel.Props.C10.send_completes
#print axioms SecsModel.Props.C10.short_write_witness
#print axioms SecsModel.Props.C10.packets_concat
#print axioms SecsModel.Props.C10.block_resolve
#print axioms SecsModel.Props.C10.queue_blocks
#print axioms SecsModel.Props.C10.queue_in_order
#print axioms SecsModel.Props.C10.returning_loop_strands_queue
#print axioms SecsModel.Props.C10.compose_with_framing
