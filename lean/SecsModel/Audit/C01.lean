import SecsModel.Props.C01
#print axioms SecsModel.Props.C01.header_exact
#print axioms SecsModel.Props.C01.types_match_E5
#print axioms SecsModel.Props.C01.struct_codes_match_E5
#print axioms SecsModel.Props.C01.jis8_bijective
#print axioms SecsModel.Props.C01.dynamic_table
#print axioms SecsModel.Props.C01.encode_exact
#print axioms SecsModel.Props.C01.roundtrip
#print axioms SecsModel.Props.C01.roundtrip_exact
#print axioms SecsModel.Props.C01.reencode_idempotent
#print axioms SecsModel.Props.C01.f4_accepts_implies_decodes
