import SecsModel.Props.C17
#print axioms SecsModel.Props.C17.handshake_bytes
#print axioms SecsModel.Props.C17.send_message_waits
#print axioms SecsModel.Props.C17.reach
#print axioms SecsModel.Props.C17.bounded
#print axioms SecsModel.Props.C17.delivery
#print axioms SecsModel.Props.C17.delivery_returns
#print axioms SecsModel.Props.C17.chunking_irrelevant
#print axioms SecsModel.Props.C17.delivery_message
#print axioms SecsModel.Props.C17.nak
#print axioms SecsModel.Props.C17.nak_returns
#print axioms SecsModel.Props.C17.nak_message
#print axioms SecsModel.Props.C17.framed1
#print axioms SecsModel.Props.C17.framed2
