import SecsModel.Props.C06
#print axioms SecsModel.Props.C06.counter_atomic
#print axioms SecsModel.Props.C06.counter_spec
#print axioms SecsModel.Props.C06.ids_distinct
#print axioms SecsModel.Props.C06.routing
#print axioms SecsModel.Props.C06.never_anothers_reply
#print axioms SecsModel.Props.C06.no_steal
#print axioms SecsModel.Props.C06.once_in_order
#print axioms SecsModel.Props.C06.single_connection
#print axioms SecsModel.Props.C06.fresh_link_framing
#print axioms SecsModel.Props.C06.reconnect_patched_partial
#print axioms SecsModel.Props.C06.reconnect_in_order_partial
#print axioms SecsModel.Props.C06.witness_counter
#print axioms SecsModel.Props.C06.witness_counter_lost_reply
#print axioms SecsModel.Props.C06.witness_two_dispatchers
#print axioms SecsModel.Props.C06.witness_two_dispatchers_patched
