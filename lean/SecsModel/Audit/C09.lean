import SecsModel.Props.C09
#print axioms SecsModel.Props.C09.never_wedged_partial
#print axioms SecsModel.Props.C09.close_completes_partial
#print axioms SecsModel.Props.C09.close_reachable
#print axioms SecsModel.Props.C09.blocking_read_wedges
#print axioms SecsModel.Props.C09.no_stale_received_bytes
#print axioms SecsModel.Props.C09.no_stale_received_bytes_valid
#print axioms SecsModel.Props.C09.closed_is_clean
#print axioms SecsModel.Props.C09.reconnect_segmentation
#print axioms SecsModel.Props.C09.send_failure_strands_separate
#print axioms SecsModel.Props.C09.stale_reply_into_next_connection
#print axioms SecsModel.Props.C09.client_disable_hang
#print axioms SecsModel.Props.C09.client_stuck_forever
#print axioms SecsModel.Props.C09.server_disable_hang
#print axioms SecsModel.Props.C09.server_disable_hang_first_select
#print axioms SecsModel.Props.C09.server_stuck_forever
#print axioms SecsModel.Props.C09.patched_client_no_hang
#print axioms SecsModel.Props.C09.patched_server_no_hang
