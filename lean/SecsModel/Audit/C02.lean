import SecsModel.Props.C02
#print axioms SecsModel.Props.C02.spec_sound
#print axioms SecsModel.Props.C02.spec_canonical
#print axioms SecsModel.Props.C02.decode_complete
#print axioms SecsModel.Props.C02.decode_complete_any
#print axioms SecsModel.Props.C02.reencode_canonical
#print axioms SecsModel.Props.C02.no_item_allows_jis8
#print axioms SecsModel.Props.C02.witness_zero_length_bytes
#print axioms SecsModel.Props.C02.witness_dynamic_no_jis8
#print axioms SecsModel.Props.C02.witness_infinity_refused
