import SecsModel.Props.C19
#print axioms SecsModel.Props.C19.tokenize_render
#print axioms SecsModel.Props.C19.tokenize_render_typed
#print axioms SecsModel.Props.C19.shape_partial
#print axioms SecsModel.Props.C19.witness_named_single_member
#print axioms SecsModel.Props.C19.reject_unknown_item
#print axioms SecsModel.Props.C19.reject_truncated
#print axioms SecsModel.Props.C19.reject_missing_close
#print axioms SecsModel.Props.C19.reject_open_brackets
#print axioms SecsModel.Proofs.Sfdl.gen_chars
#print axioms SecsModel.Proofs.Sfdl.class_facts
#print axioms SecsModel.Proofs.Sfdl.gen_def
#print axioms SecsModel.Proofs.Sfdl.genFrom_toks
#print axioms SecsModel.Proofs.Sfdl.gen_keys
