import SecsModel.Props.C18
import SecsModel.Props.C18b
import SecsModel.Props.C18c
#print axioms SecsModel.Props.C18.rejected_noop
#print axioms SecsModel.Props.C18.moves_to_destination
#print axioms SecsModel.Props.C18.active_is_ancestors_forest
#print axioms SecsModel.Props.C18.active_is_ancestors_flat_nested
#print axioms SecsModel.Props.C18.active_is_ancestors_shipped
#print axioms SecsModel.Props.C18.shipped_wellformed
#print axioms SecsModel.Props.C18.events_exactly_once
#print axioms SecsModel.Props.C18.events_unequal_depth
#print axioms SecsModel.Props.C18.witness_nested_hier
#print axioms SecsModel.Props.C18.witness_nested_hier_parent
#print axioms SecsModel.Props.C18.witness_handler_raises
#print axioms SecsModel.Props.C18.witness_handler_raises_leave
#print axioms SecsModel.Props.C18.witness_leave_handler
#print axioms SecsModel.Props.C18.witness_race
#print axioms SecsModel.Props.C18.serialised_generic
#print axioms SecsModel.Props.C18.serialised
#print axioms SecsModel.Props.C18b.conn_bridge
#print axioms SecsModel.Props.C18b.conn_bridge_wired
#print axioms SecsModel.Props.C18b.conn_smCall_bridge
#print axioms SecsModel.Props.C18b.comm_bridge
#print axioms SecsModel.Props.C18b.comm_bridge_wired
#print axioms SecsModel.Props.C18b.pair_connOk_is_table
#print axioms SecsModel.Props.C18b.pair_commOk_in_table
#print axioms SecsModel.Props.C18c.conn_definition
#print axioms SecsModel.Props.C18c.comm_definition
#print axioms SecsModel.Props.C18c.ctrl_definition
#print axioms SecsModel.Props.C18c.hierarchy
#print axioms SecsModel.Props.C18c.comm_reference_is_E30Comm
#print axioms SecsModel.Props.C18c.reference_wellformed
