import SecsModel.Props.C20
import SecsModel.Props.C20b
import SecsModel.Props.C20c
import SecsModel.Props.C20d
#print axioms SecsModel.Props.C20.tables_match_source
#print axioms SecsModel.Props.C20.safety_all_histories
#print axioms SecsModel.Props.C20.established_only_by_exchange
#print axioms SecsModel.Props.C20.startup_converges
#print axioms SecsModel.Props.C20.established_reachable
#print axioms SecsModel.Props.C20.reenable_converges
#print axioms SecsModel.Props.C20.linkloss_converges
#print axioms SecsModel.Props.C20.lockstep_cycle
#print axioms SecsModel.Props.C20.timing_windows_overlap
#print axioms SecsModel.Props.C20.timing_windows_can_miss
#print axioms SecsModel.Props.C20.overlap_completes
#print axioms SecsModel.Props.C20.service_agreement
#print axioms SecsModel.Props.C20.events_exactly_once
#print axioms SecsModel.Props.C20b.sim_deliver
#print axioms SecsModel.Props.C20b.sim_linkUp
#print axioms SecsModel.Props.C20b.sim_linkDown
#print axioms SecsModel.Props.C20b.sim_t3
#print axioms SecsModel.Props.C20b.sim_delay
#print axioms SecsModel.Props.C20b.pair_delay_frames
#print axioms SecsModel.Props.C20b.sim_enable
#print axioms SecsModel.Props.C20b.sim_disable
#print axioms SecsModel.Proofs.PairBridge.never_entered
#print axioms SecsModel.Props.C20b.delay_not_selected_agrees
#print axioms SecsModel.Props.C20b.delay_not_connected_flushed_at_linkUp
#print axioms SecsModel.Props.C20c.s2f41_behaviour
#print axioms SecsModel.Props.C20c.callback_once
#print axioms SecsModel.Props.C20c.s2f41_not_text
#print axioms SecsModel.Props.C20c.send_remote_command_result
#print axioms SecsModel.Props.C20c.host_events
#print axioms SecsModel.Props.C20c.witness_explicit_report_id
#print axioms SecsModel.Props.C20c.alarms_reach_host
#print axioms SecsModel.Props.C20d.hsms_end_to_end
#print axioms SecsModel.Props.C20d.split_block_ok
#print axioms SecsModel.Props.C20d.secsi_end_to_end
