import SecsModel.Props.C20
#print axioms SecsModel.Props.C20.tables_match_source
#print axioms SecsModel.Props.C20.safety_all_histories
#print axioms SecsModel.Props.C20.established_only_by_exchange
#print axioms SecsModel.Props.C20.startup_converges
#print axioms SecsModel.Props.C20.established_reachable
#print axioms SecsModel.Props.C20.reenable_converges
#print axioms SecsModel.Props.C20.linkloss_converges
#print axioms SecsModel.Props.C20.lockstep_cycle
#print axioms SecsModel.Props.C20.timing_windows_overlap
#print axioms SecsModel.Props.C20.timing_windows_can_miss
#print axioms SecsModel.Props.C20.overlap_completes
#print axioms SecsModel.Props.C20.service_agreement
#print axioms SecsModel.Props.C20.events_exactly_once
