import SecsModel.Props.C03
import SecsModel.Props.C03b
#print axioms SecsModel.Props.C03.keys_unique
#print axioms SecsModel.Props.C03.lookup_total
#print axioms SecsModel.Props.C03.all_parse
#print axioms SecsModel.Props.C03.pairing_partial
#print axioms SecsModel.Props.C03.witness_s2f49_reply_flags
#print axioms SecsModel.Props.C03.yaml_agrees
#print axioms SecsModel.Props.C03.data_items_wellformed
#print axioms SecsModel.Props.C03.rows_ok
#print axioms SecsModel.Props.C03b.struct_defined
#print axioms SecsModel.Props.C03b.function_roundtrip
#print axioms SecsModel.Props.C03b.function_roundtrip_exact
#print axioms SecsModel.Props.C03b.header_only
#print axioms SecsModel.Props.C03b.unknown_function
#print axioms SecsModel.Props.C03b.matchType_first_fit
#print axioms SecsModel.Props.C03b.plain_value_readback
#print axioms SecsModel.Props.C03b.witness_int_becomes_text
#print axioms SecsModel.Props.C03b.witness_array_in_pass2
#print axioms SecsModel.Props.C03.containers_isolated
