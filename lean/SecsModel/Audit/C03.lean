import SecsModel.Props.C03
#print axioms SecsModel.Props.C03.keys_unique
#print axioms SecsModel.Props.C03.lookup_total
#print axioms SecsModel.Props.C03.all_parse
#print axioms SecsModel.Props.C03.pairing_partial
#print axioms SecsModel.Props.C03.witness_s2f49_reply_flags
#print axioms SecsModel.Props.C03.yaml_agrees
#print axioms SecsModel.Props.C03.data_items_wellformed
#print axioms SecsModel.Props.C03.rows_ok
