import SecsModel.Props.C14
#print axioms SecsModel.Props.C14.header_exact
#print axioms SecsModel.Props.C14.types_match_E5
#print axioms SecsModel.Props.C14.apis_agree
#print axioms SecsModel.Props.C14.encode_exact
#print axioms SecsModel.Props.C14.decode_reencode
#print axioms SecsModel.Props.C14.holds_value
#print axioms SecsModel.Props.C14.from_value_narrowest
#print axioms SecsModel.Props.C14.narrowest_is_narrowest
#print axioms SecsModel.Props.C14.from_value_other
#print axioms SecsModel.Props.C14.witness_nan_refused
