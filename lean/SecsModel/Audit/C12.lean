import SecsModel.Props.C12
#print axioms SecsModel.Props.C12.integrity
#print axioms SecsModel.Props.C12.s6f15_wellformed
#print axioms SecsModel.Props.C12.trigger_wellformed
#print axioms SecsModel.Props.C12.s2f33_refused_unchanged
#print axioms SecsModel.Props.C12.s2f35_refused_unchanged
#print axioms SecsModel.Props.C12.s2f33_accepted_effect
#print axioms SecsModel.Props.C12.s2f35_accepted_effect
#print axioms SecsModel.Props.C12.drack_codes
#print axioms SecsModel.Props.C12.lrack_codes
#print axioms SecsModel.Props.C12.witness_single_remove_dangles
