import SecsModel.Props.C13
#print axioms SecsModel.Props.C13.s1f3_spec
#print axioms SecsModel.Props.C13.s1f11_spec
#print axioms SecsModel.Props.C13.s2f29_spec
#print axioms SecsModel.Props.C13.s2f13_spec
#print axioms SecsModel.Props.C13.typeok_invariant
#print axioms SecsModel.Props.C13.witness_float_on_int_constant
#print axioms SecsModel.Props.C13.s2f15_all_or_none
#print axioms SecsModel.Props.C13.eac_codes
#print axioms SecsModel.Props.C13.ec_in_range
#print axioms SecsModel.Props.C13.builtin_ints_in_range
#print axioms SecsModel.Props.C13.set_alarm_reports
#print axioms SecsModel.Props.C13.clear_alarm_reports
#print axioms SecsModel.Props.C13.alarm_unknown
#print axioms SecsModel.Props.C13.s5f5_lists
#print axioms SecsModel.Props.C13.s5f5_answers
#print axioms SecsModel.Props.C13.s5f7_exact
#print axioms SecsModel.Props.C13.s5f3_effect
