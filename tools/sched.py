"""Deterministic thread schedules on the REAL code (DESIGN §3.3): a `sys.settrace` baton scheduler.

The functions under test run in real threads, but every traced *line* of a small, named set of code objects is a
switch point: before executing such a line the thread waits for the scheduler's grant.  A schedule is a list of
thread indices; entry `t` means "thread t executes the line it is stopped at and runs on to its next switch point".

* Switch points are selected per code object, either all lines or the lines whose stripped source text is in a given
  set (`points_by_text`): the mapping model step <-> source line is by *text*, so unrelated edits do not disturb it;
  a text that is gone raises `TieBroken`.
* A granted thread that does not reach its next switch point within `stall` seconds is blocked (lock held by another
  thread, queue.get waiting for somebody else's step ...): the scheduler goes on with the schedule; the thread keeps
  running and stops at its next switch point whenever it gets there.  A grant to a thread that is still blocked is a
  no-op (recorded in `Outcome.noops`).
* After the schedule is used up the remaining threads are granted round-robin until all have finished (bounded by
  `deadline`).
* `Outcome.trace` is the list of `(thread, function name, line number, stripped line text)` in the order the lines
  were actually executed - this, not the schedule, is what is mapped to model steps.

A schedule under `settrace` is one the language permits (a thread switch between two lines) even where CPython's own
scheduler happens not to take it.
"""
from __future__ import annotations

import inspect
import itertools
import sys
import threading
import time


class TieBroken(Exception):
    """a source line the model step mapping relies on is gone"""


def code_of(func):
    func = getattr(func, "__func__", func)
    return func.__code__


def lines_of(func) -> dict[int, str]:
    """line number -> stripped source text of the function's body lines"""
    src, first = inspect.getsourcelines(func)
    return {first + i: text.strip() for i, text in enumerate(src)}


def points_by_text(func, texts, multi=()) -> dict[str, list[int]]:
    """text -> line numbers for each wanted text (prefix match on the stripped line).
    TieBroken if a text is missing, or occurs more than once without being listed in `multi`."""
    table = lines_of(func)
    out = {}
    for want in texts:
        hits = [no for no, text in table.items() if text.startswith(want)]
        if not hits or (len(hits) != 1 and want not in multi):
            raise TieBroken(f"{getattr(func, '__qualname__', func)}: line starting with {want!r} found {len(hits)} times")
        out[want] = hits
    return out


class Outcome:
    def __init__(self):
        self.results: dict[int, object] = {}
        self.errors: dict[int, BaseException] = {}
        self.trace: list[tuple[int, str, int, str]] = []
        self.noops = 0
        self.hung: list[int] = []


class BatonLock:
    """stands in for a `threading.Lock` of the code under test: a thread that has to wait for it tells the scheduler so
    (no stall timeout needed to find out that it is blocked)"""

    def __init__(self, baton, real):
        self.baton, self.real = baton, real

    def acquire(self, blocking=True, timeout=-1):
        if self.real.acquire(False):
            return True
        if not blocking:
            return False
        tid = self.baton.tid_of.get(threading.get_ident())
        if tid is not None:
            with self.baton.cv:
                self.baton.state[tid] = "blocked"
                self.baton.cv.notify_all()
        got = self.real.acquire(True, timeout)
        if tid is not None:
            with self.baton.cv:
                self.baton.state[tid] = "running"
                self.baton.cv.notify_all()
        return got

    def release(self):
        self.real.release()

    def locked(self):
        return self.real.locked()

    __enter__ = acquire

    def __exit__(self, *_exc):
        self.release()


class Baton:
    """points: {code object: None (every line) | set of line numbers}"""

    def __init__(self, points: dict, stall: float = 0.03, deadline: float = 10.0):
        self.config = dict(points)
        self.points = dict(points)
        self.stall = stall
        self.deadline = deadline
        self.text = {}
        self.cv = threading.Condition()
        self.tid_of: dict[int, int] = {}
        self.state: list[str] = []

    def lock(self, real):
        return BatonLock(self, real)

    def describe(self, func):
        """remember the line texts of a traced function for the trace"""
        code = code_of(func)
        self.text[code] = lines_of(func)
        return code

    # ------------------------------------------------------------------ thread side
    def _tracer(self, tid):
        def local(frame, event, _arg):
            if event == "line":
                allowed = self.points.get(frame.f_code)
                if allowed is None or frame.f_lineno in allowed:
                    self._yield(tid, frame)
            return local

        def glob(frame, _event, _arg):
            if frame.f_code in self.points:
                return local
            return None

        return glob

    def _yield(self, tid, frame):
        with self.cv:
            self.state[tid] = "waiting"
            self.cv.notify_all()
            while self.grant != tid and not self.free:
                self.cv.wait()
            if self.grant == tid:
                self.grant = None
            self.state[tid] = "running"
            code = frame.f_code
            self.out.trace.append((tid, code.co_name, frame.f_lineno, self.text.get(code, {}).get(frame.f_lineno, "")))
            self.cv.notify_all()

    # ------------------------------------------------------------------ scheduler side
    def run(self, fns, schedule) -> Outcome:
        n = len(fns)
        self.out = Outcome()
        self.points = dict(self.config)
        self.state = ["running"] * n
        self.grant = None
        self.free = False
        self.tid_of = {}

        def wrap(tid, fn):
            self.tid_of[threading.get_ident()] = tid
            sys.settrace(self._tracer(tid))
            try:
                self.out.results[tid] = fn()
            except BaseException as exc:  # noqa: BLE001
                self.out.errors[tid] = exc
            finally:
                sys.settrace(None)
                with self.cv:
                    self.state[tid] = "done"
                    self.cv.notify_all()

        threads = [threading.Thread(target=wrap, args=(i, f), daemon=True, name=f"baton-{i}") for i, f in enumerate(fns)]
        for t in threads:
            t.start()
        t_end = time.time() + self.deadline

        def settle(tid):
            """wait until thread tid is at a switch point or done; False if it stays running (blocked)"""
            limit = time.time() + self.stall
            while self.state[tid] in ("running", "blocked"):
                if self.state[tid] == "blocked":
                    return False
                left = limit - time.time()
                if left <= 0:
                    return False
                self.cv.wait(left)
            return True

        def step(tid):
            with self.cv:
                if not settle(tid):
                    self.out.noops += 1
                    return
                if self.state[tid] == "done":
                    return
                self.grant = tid
                self.cv.notify_all()
                while self.grant == tid:
                    self.cv.wait()
                settle(tid)

        for tid in schedule:
            if 0 <= tid < n:
                step(tid)
        while time.time() < t_end:
            with self.cv:
                alive = [i for i in range(n) if self.state[i] != "done"]
            if not alive:
                break
            for tid in alive:
                step(tid)
        with self.cv:
            self.out.hung = [i for i in range(n) if self.state[i] != "done"]
            # let hung threads run free so that they do not stay parked on the condition forever
            self.points = {}
            self.free = True
            self.cv.notify_all()
        for t in threads:
            t.join(0.2 if self.out.hung else 2.0)
        return self.out


def interleavings(counts):
    """all sequences over thread indices with counts[i] occurrences of i (lexicographic)"""
    total = sum(counts)

    def rec(prefix, left):
        if len(prefix) == total:
            yield tuple(prefix)
            return
        for i, c in enumerate(left):
            if c:
                left[i] -= 1
                prefix.append(i)
                yield from rec(prefix, left)
                prefix.pop()
                left[i] += 1

    yield from rec([], list(counts))


def count_interleavings(counts) -> int:
    from math import factorial
    r = factorial(sum(counts))
    for c in counts:
        r //= factorial(c)
    return r


__all__ = ["Baton", "Outcome", "TieBroken", "points_by_text", "lines_of", "code_of", "interleavings", "count_interleavings", "itertools"]
