"""Shared build helpers: regenerate Driver.lean, build the native model driver, leaving out domains whose model does not build."""
import os
import re
import subprocess
import sys

ROOT = os.path.dirname(os.path.dirname(os.path.abspath(__file__)))
LEAN = os.path.join(ROOT, "lean")


def sh(cmd, cwd=None, timeout=None, env=None):
    p = subprocess.run(cmd, cwd=cwd, stdout=subprocess.PIPE, stderr=subprocess.STDOUT, timeout=timeout, env=env, check=False)
    return p.returncode, p.stdout.decode(errors="replace")


def mkdriver(exclude=()):
    _, out = sh([sys.executable, os.path.join(ROOT, "tools", "mkdriver.py")] + list(exclude), timeout=60)
    return dict(x.split(":") for x in out.split() if ":" in x)


def build_driver():
    """Returns (ok, domains_included: dict word->module, excluded: list of words, error_text)."""
    domains = mkdriver()
    rc, out = sh(["lake", "build", "driver"], cwd=LEAN, timeout=3000)
    if rc == 0:
        return True, domains, [], ""
    bad = [w for w, mod in domains.items() if sh(["lake", "build", f"SecsModel.Drv.{mod}"], cwd=LEAN, timeout=3000)[0] != 0]
    domains2 = mkdriver(bad)
    rc2, out2 = sh(["lake", "build", "driver"], cwd=LEAN, timeout=3000)
    errs = "; ".join(e[:160] for e in re.findall(r"error: (\S+\.lean:\d+:\d+: .*)", out)[:4])
    return rc2 == 0, domains2, bad, errs
