"""Gen.Machines: the three shipped state machines, extracted from their constructors by AST pattern matching.

For each of ConnectionStateMachine (hsms/connection_state_machine.py), CommunicationStateMachine
(gem/communication_state_machine.py) and ControlStateMachine (gem/control_state_machine.py):
  * states      : `self.<attr> = secsgem.common.State(<Enum>.<MEMBER>, "<NAME>", parent=self.<p>, initial=True)`
  * transitions : the list assigned to `self._transitions` of `secsgem.common.Transition("<name>", <src|[srcs]>, <dst>)`
  * initial     : `self._current_state = self.<attr>`
  * wiring      : `self.<state>.events.<enter|leave>.register(self.<method>)` inside the class
  * methods     : public methods whose body is exactly `self._perform_transition("<name>")` (+ trailing assignments)
States are referred to by their NAME string and numbered in declaration order.
"""
import ast

G = None  # set by gen.py (its module object: parse, find_class, write, HEADER, FACTS, P ...)

MACHINES = [
    ("ConnSM", "hsms/connection_state_machine.py", "ConnectionStateMachine", "ConnectionState"),
    ("CommSM", "gem/communication_state_machine.py", "CommunicationStateMachine", "CommunicationState"),
    ("CtrlSM", "gem/control_state_machine.py", "ControlStateMachine", "ControlState"),
]


def self_attr(node):
    if isinstance(node, ast.Attribute) and isinstance(node.value, ast.Name) and node.value.id == "self":
        return node.attr
    return None


def extract(rel, cls_name, enum_name):
    tree = G.parse(rel)
    cls = G.find_class(tree, cls_name)
    enum_vals = dict(G.enum_members(G.find_class(tree, enum_name)))
    init = next(i for i in cls.body if isinstance(i, ast.FunctionDef) and i.name == "__init__")
    states = {}  # attr -> dict
    order = []
    transitions = []
    initial = None
    wiring = []
    for st in ast.walk(init):
        if isinstance(st, (ast.Assign, ast.AnnAssign)):
            tgt = st.targets[0] if isinstance(st, ast.Assign) else st.target
            val = st.value
            attr = self_attr(tgt)
            if attr is None or val is None:
                continue
            if isinstance(val, ast.Call) and G.P.dotted(val.func) in ("secsgem.common.State", "State"):
                args = val.args
                member = G.P.dotted(args[0])
                if not member or not member.startswith(enum_name + "."):
                    raise G.P.Untranslatable(f"{cls_name}.{attr}: state enum argument {ast.unparse(args[0])}")
                name = ast.literal_eval(args[1])
                parent, is_initial = None, False
                extra = list(args[2:])
                if extra:
                    parent = self_attr(extra[0]) if not (isinstance(extra[0], ast.Constant) and extra[0].value is None) else None
                if len(extra) > 1:
                    is_initial = bool(ast.literal_eval(extra[1]))
                for kw in val.keywords:
                    if kw.arg == "parent":
                        parent = self_attr(kw.value)
                    elif kw.arg == "initial":
                        is_initial = bool(ast.literal_eval(kw.value))
                    else:
                        raise G.P.Untranslatable(f"State keyword {kw.arg}")
                states[attr] = {"name": name, "value": enum_vals[member.split(".")[1]], "parent": parent, "initial": is_initial}
                order.append(attr)
            elif attr == "_current_state":
                initial = self_attr(val)
            elif attr == "_transitions":
                if not isinstance(val, ast.List):
                    raise G.P.Untranslatable("_transitions is not a list literal")
                for el in val.elts:
                    if not (isinstance(el, ast.Call) and G.P.dotted(el.func) in ("secsgem.common.Transition", "Transition")):
                        raise G.P.Untranslatable(f"_transitions element {ast.unparse(el)[:60]}")
                    a = el.args
                    tname = ast.literal_eval(a[0])
                    srcs = [self_attr(x) for x in a[1].elts] if isinstance(a[1], ast.List) else [self_attr(a[1])]
                    dst = self_attr(a[2])
                    if None in srcs or dst is None:
                        raise G.P.Untranslatable(f"transition {tname}: non self.<state> endpoint")
                    transitions.append((tname, srcs, dst))
    # event wiring anywhere in __init__
    for st in ast.walk(init):
        if isinstance(st, ast.Call) and isinstance(st.func, ast.Attribute) and st.func.attr == "register":
            chain = G.P.dotted(st.func.value)  # self.<state>.events.<ev>
            if chain and chain.startswith("self.") and ".events." in chain and len(st.args) == 1:
                parts = chain.split(".")
                handler = self_attr(st.args[0])
                if len(parts) == 4 and handler:
                    wiring.append((parts[1], parts[3], handler))
    if initial is None or initial not in states:
        raise G.P.Untranslatable(f"{cls_name}: initial state not found")
    methods = []
    for item in cls.body:
        if isinstance(item, ast.FunctionDef) and not item.name.startswith("_"):
            for st in item.body:
                if isinstance(st, ast.Expr) and isinstance(st.value, ast.Call) and G.P.dotted(st.value.func) == "self._perform_transition":
                    methods.append((item.name, ast.literal_eval(st.value.args[0])))
    return states, order, transitions, initial, wiring, methods, enum_vals


def lean_opt(s):
    return "none" if s is None else f'(some "{s}")'


def unit_Machines():
    out = [G.HEADER.format(src="hsms/connection_state_machine.py, gem/communication_state_machine.py, gem/control_state_machine.py"),
           "namespace SecsModel.Gen\n",
           "/-- a shipped state machine as data: states are (name, enum value, parent name, `initial=` flag) in declaration order -/",
           "structure MachineTable where",
           "  states : List (String × Int × Option String × Bool)",
           "  transitions : List (String × List String × String)",
           "  initial : String",
           "  wiring : List (String × String × String)   -- (state name, event, handler method)",
           "  methods : List (String × String)           -- (public method, transition it performs)",
           "deriving Repr, DecidableEq\n"]
    facts = {}
    for unit, rel, cls, enum in MACHINES:
        states, order, transitions, initial, wiring, methods, _ = extract(rel, cls, enum)
        nm = {a: states[a]["name"] for a in order}
        srows = ",\n    ".join(f'("{states[a]["name"]}", {states[a]["value"]}, {lean_opt(nm.get(states[a]["parent"]))}, {"true" if states[a]["initial"] else "false"})' for a in order)
        trows = ",\n    ".join(f'("{t}", [{", ".join(chr(34) + nm[s] + chr(34) for s in srcs)}], "{nm[d]}")' for t, srcs, d in transitions)
        wrows = ", ".join(f'("{nm[s]}", "{e}", "{h}")' for s, e, h in wiring if s in nm)
        mrows = ", ".join(f'("{m}", "{t}")' for m, t in methods)
        out.append(f"/-- `{cls}` ({rel}) -/\ndef {unit} : MachineTable where\n  states := [\n    {srows}]\n  transitions := [\n    {trows}]\n"
                   f'  initial := "{nm[initial]}"\n  wiring := [{wrows}]\n  methods := [{mrows}]\n')
        facts[unit] = {"states": [states[a] for a in order], "transitions": [(t, [nm[s] for s in srcs], nm[d]) for t, srcs, d in transitions],
                       "initial": nm[initial], "wiring": wiring, "methods": methods}
    # the control-state forwarders: which transition each `_on_control_state_*` handler requests, keyed by the configuration string
    tree = G.parse("gem/control_state_machine.py")
    cls = G.find_class(tree, "ControlStateMachine")
    fw = []
    for item in cls.body:
        if isinstance(item, ast.FunctionDef) and item.name.startswith("_on_control_state_"):
            def walk_if(node, attr_seen=None):
                rows = []
                if isinstance(node, ast.If):
                    t = node.test
                    if isinstance(t, ast.Compare) and len(t.ops) == 1 and isinstance(t.ops[0], ast.Eq):
                        attr = self_attr(t.left)
                        val = ast.literal_eval(t.comparators[0])
                        tr = [ast.literal_eval(s.value.args[0]) for s in node.body if isinstance(s, ast.Expr) and isinstance(s.value, ast.Call)
                              and G.P.dotted(s.value.func) == "self._perform_transition"]
                        rows.append((attr, val, tr[0] if tr else ""))
                        for o in node.orelse:
                            if isinstance(o, ast.If):
                                rows += walk_if(o)
                            elif isinstance(o, ast.Expr) and isinstance(o.value, ast.Call) and G.P.dotted(o.value.func) == "self._perform_transition":
                                rows.append((attr, "*", ast.literal_eval(o.value.args[0])))
                    else:
                        raise G.P.Untranslatable(f"{item.name}: condition {ast.unparse(t)}")
                return rows
            rows = []
            for st in item.body:
                rows += walk_if(st)
            fw.append((item.name, rows))
    frows = ",\n    ".join(f'("{n}", [{", ".join(f"({chr(34)}{a}{chr(34)}, {chr(34)}{v}{chr(34)}, {chr(34)}{t}{chr(34)})" for a, v, t in rows)}])' for n, rows in fw)
    out.append("/-- `ControlStateMachine._on_control_state_*`: (handler, [(configuration attribute, value or \"*\" for else, transition requested)]) -/")
    out.append(f"def CtrlSM.forwarders : List (String × List (String × String × String)) := [\n    {frows}]\n")
    facts["CtrlSM.forwarders"] = fw
    out.append("end SecsModel.Gen\n")
    G.write("Machines", "\n".join(out))
    G.FACTS["Machines"] = facts


UNITS = {"Machines": unit_Machines}
