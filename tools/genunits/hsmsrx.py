"""Gen.RxOrder: the statement order of `Protocol._on_connection_data_received` (common/protocol.py).

The handler runs on the connection's thread; the protocol's receiver thread is woken by `trigger_receiver()` and then looks at the receive
buffer.  Whether the bytes are in the buffer BEFORE the wake-up is what decides if a wake-up can be lost, so the order is extracted as a
list of statement tags, in source order.  Recognised statements (anything else is a broken tie):
    self._receive_buffer.append(data["data"])     -> "append"
    self._thread.trigger_receiver()               -> "trigger"
Consumed by Model/Rx.lean (`OnData`: the connection thread executes this list one statement per step) and Props/C04.lean
(`on_data_no_lost_wakeup`): swapping the two statements re-opens the obligation.
"""
import ast

G = None  # set by gen.py


def _tag(st):
    if isinstance(st, ast.Expr) and isinstance(st.value, ast.Constant) and isinstance(st.value.value, str):
        return None  # docstring
    if isinstance(st, ast.Expr) and isinstance(st.value, ast.Call):
        call = st.value
        fn = G.P.dotted(call.func)
        if fn == "self._receive_buffer.append" and len(call.args) == 1 and not call.keywords \
                and ast.unparse(call.args[0]) in ("data['data']", 'data["data"]'):
            return "append"
        if fn == "self._thread.trigger_receiver" and not call.args and not call.keywords:
            return "trigger"
    raise G.P.Untranslatable(f"_on_connection_data_received: unrecognised statement `{ast.unparse(st)[:80]}`")


def _loop_tags(cls, name, trig):
    """statement order of a `while not self._stop_…:` thread loop of ProtocolDispatcher: wait / clear / stoptest / target / drain"""
    fn = next((i for i in cls.body if isinstance(i, ast.FunctionDef) and i.name == name), None)
    if fn is None or not fn.body or not isinstance(fn.body[0], ast.While):
        raise G.P.Untranslatable(f"ProtocolDispatcher.{name}: no leading while loop")
    tags = []
    for st in fn.body[0].body:
        src = ast.unparse(st)
        if isinstance(st, ast.Expr) and isinstance(st.value, ast.Call) and G.P.dotted(st.value.func) == f"self.{trig}.wait" and not st.value.args:
            tags.append("wait")
        elif isinstance(st, ast.Expr) and isinstance(st.value, ast.Call) and G.P.dotted(st.value.func) == f"self.{trig}.clear":
            tags.append("clear")
        elif isinstance(st, ast.If) and src.startswith("if self._stop_") and isinstance(st.body[0], ast.Continue):
            tags.append("stoptest")
        elif isinstance(st, ast.Try) and "self._receiver_target()" in src:
            tags.append("target")
        elif isinstance(st, ast.While) and ast.unparse(st.test) == "self._dispatch_queue.qsize() > 0" and "self._dispatch_queue.get()" in src:
            tags.append("drain")
        else:
            raise G.P.Untranslatable(f"ProtocolDispatcher.{name}: unrecognised loop statement `{src[:80]}`")
    return tags


def _uses_buffer(node):
    return any(isinstance(n, ast.Attribute) and n.attr == "_buffer" and isinstance(n.value, ast.Name) and n.value.id == "self" for n in ast.walk(node))


def unit_RxOrder():
    """Gen.RxOrder: statement orders of the thread hand-overs on the receive path and the locking discipline of `ByteQueue`.
      * onData        : `Protocol._on_connection_data_received`            (append / trigger)
      * queueBlock    : `ProtocolDispatcher.queue_block`                   (append = `_dispatch_queue.put`, trigger = `_dispatcher_thread_trigger.set`)
      * receiverLoop / dispatcherLoop : the loop bodies of the two thread functions (wait / clear / stoptest / target|drain)
      * byteQueueLocked : for `append`, `pop`, `pop_byte`, `clear`: does every statement that touches `self._buffer` sit inside
                          `with self._buffer_lock:` ?
      * dispatchQueueCtor : the constructor expression of the dispatch queue (the model's queue is unbounded: `queue.Queue()`; with a bound
                            `queue_block`'s blocking `put` stops the receiver thread, which is also the only thread that sends)
      * popTakesExactlySize : the body of `ByteQueue.pop` is exactly `with lock: data = self._buffer[:size]; del self._buffer[:size]; return data`
    """
    tree = G.parse("common/protocol.py")
    cls = G.find_class(tree, "Protocol")
    fn = next((i for i in cls.body if isinstance(i, ast.FunctionDef) and i.name == "_on_connection_data_received"), None)
    if fn is None:
        raise G.P.Untranslatable("Protocol._on_connection_data_received not found")
    tags = [t for t in (_tag(st) for st in fn.body) if t is not None]

    dcls = G.find_class(G.parse("common/protocol_dispatcher.py"), "ProtocolDispatcher")
    qb = next((i for i in dcls.body if isinstance(i, ast.FunctionDef) and i.name == "queue_block"), None)
    if qb is None:
        raise G.P.Untranslatable("ProtocolDispatcher.queue_block not found")
    qtags = []
    for st in qb.body:
        if isinstance(st, ast.Expr) and isinstance(st.value, ast.Constant):
            continue
        fnname = G.P.dotted(st.value.func) if isinstance(st, ast.Expr) and isinstance(st.value, ast.Call) else None
        if fnname == "self._dispatch_queue.put":
            qtags.append("append")
        elif fnname == "self._dispatcher_thread_trigger.set":
            qtags.append("trigger")
        else:
            raise G.P.Untranslatable(f"queue_block: unrecognised statement `{ast.unparse(st)[:80]}`")
    rloop = _loop_tags(dcls, "_receiver_thread_function", "_receiver_thread_trigger")
    dloop = _loop_tags(dcls, "_dispatcher_thread_function", "_dispatcher_thread_trigger")

    dinit = next((i for i in dcls.body if isinstance(i, ast.FunctionDef) and i.name == "__init__"), None)
    qctor = None
    for n in ast.walk(dinit) if dinit else []:
        if isinstance(n, (ast.Assign, ast.AnnAssign)):
            tgt = n.targets[0] if isinstance(n, ast.Assign) else n.target
            if G.P.dotted(tgt) == "self._dispatch_queue" and n.value is not None:
                qctor = ast.unparse(n.value)
    if qctor is None:
        raise G.P.Untranslatable("ProtocolDispatcher.__init__: no assignment to self._dispatch_queue")

    bcls = G.find_class(G.parse("common/byte_queue.py"), "ByteQueue")
    locked = []
    pop_exact = False
    for name in ("append", "pop", "pop_byte", "clear"):
        m = next((i for i in bcls.body if isinstance(i, ast.FunctionDef) and i.name == name), None)
        if m is None:
            raise G.P.Untranslatable(f"ByteQueue.{name} not found")
        body = [st for st in m.body if not (isinstance(st, ast.Expr) and isinstance(st.value, ast.Constant))]
        ok = True
        for st in body:
            is_lock = isinstance(st, ast.With) and len(st.items) == 1 and ast.unparse(st.items[0].context_expr) == "self._buffer_lock"
            if _uses_buffer(st) and not is_lock:
                ok = False
        locked.append((name, ok))
        if name == "pop":
            pop_exact = (len(body) == 1 and isinstance(body[0], ast.With)
                         and ast.unparse(body[0].items[0].context_expr) == "self._buffer_lock"
                         and [ast.unparse(x) for x in body[0].body] == ["data = self._buffer[:size]", "del self._buffer[:size]", "return data"])

    def lst(xs):
        return "[" + ", ".join('"' + x + '"' for x in xs) + "]"
    out = [G.HEADER.format(src="secsgem/common/protocol.py (_on_connection_data_received), protocol_dispatcher.py (queue_block, thread loops), byte_queue.py"),
           "namespace SecsModel.Gen.RxOrder\n",
           "/-- statements of `Protocol._on_connection_data_received`, in source order -/",
           f"def onData : List String := {lst(tags)}\n",
           "/-- statements of `ProtocolDispatcher.queue_block`, in source order -/",
           f"def queueBlock : List String := {lst(qtags)}\n",
           "/-- loop body of `ProtocolDispatcher._receiver_thread_function`, in source order -/",
           f"def receiverLoop : List String := {lst(rloop)}\n",
           "/-- loop body of `ProtocolDispatcher._dispatcher_thread_function`, in source order -/",
           f"def dispatcherLoop : List String := {lst(dloop)}\n",
           "/-- `ByteQueue` mutators: every statement touching `self._buffer` is inside `with self._buffer_lock:` -/",
           "def byteQueueLocked : List (String × Bool) := [" + ", ".join(f'("{n}", {"true" if b else "false"})' for n, b in locked) + "]\n",
           "/-- `ByteQueue.pop` is exactly: under the lock, `data = self._buffer[:size]; del self._buffer[:size]; return data` -/",
           f"def popTakesExactlySize : Bool := {'true' if pop_exact else 'false'}\n",
           "/-- the expression `ProtocolDispatcher.__init__` assigns to `self._dispatch_queue` -/",
           'def dispatchQueueCtor : String := "' + qctor.replace("\\", "\\\\").replace('"', '\\"') + '"\n',
           "end SecsModel.Gen.RxOrder\n"]
    G.write("RxOrder", "\n".join(out))
    G.FACTS["RxOrder"] = {"onData": tags, "queueBlock": qtags, "receiverLoop": rloop, "dispatcherLoop": dloop,
                          "byteQueueLocked": locked, "popTakesExactlySize": pop_exact, "dispatchQueueCtor": qctor}


def unit_HsmsGuards():
    """Gen.HsmsGuards:
      * selectGuard : the condition under which `HsmsProtocol._on_state_connect` starts the Select thread (source text of the `if` test);
        E37: the active entity sends Select.req on EVERY connection, so the condition has to be `self._settings.is_active` and nothing else.
      * sockOpts : every `setsockopt` call in common/tcp_connection.py, tcp_client_connection.py, tcp_server_connection.py as
        (file, receiver expression, level, option), in source order.  An option that changes what `close()` does to bytes `send()` has
        accepted (SO_LINGER) would make "send_data returned True" mean less than the property says.
      * receiverThreadLast / ownDisconnectedListeners / closedHooks : the next listen/connect cycle is started by the `_connection_closed()`
        hook, which is the LAST statement of `TcpConnection.__receiver_thread`, and by no `on_disconnected` listener of the TCP classes:
        a new connection can only be set up after the old one's teardown (protocol handlers, flag reset) is complete.
    """
    tree = G.parse("hsms/protocol.py")
    cls = G.find_class(tree, "HsmsProtocol")
    fn = next((i for i in cls.body if isinstance(i, ast.FunctionDef) and i.name == "_on_state_connect"), None)
    if fn is None:
        raise G.P.Untranslatable("HsmsProtocol._on_state_connect not found")
    guards = []
    for st in fn.body:
        if isinstance(st, ast.If) and any(isinstance(n, ast.Call) and G.P.dotted(n.func) == "threading.Thread" for n in ast.walk(st)):
            guards.append(ast.unparse(st.test))
    if len(guards) != 1:
        raise G.P.Untranslatable(f"_on_state_connect: expected exactly one `if` that starts the Select thread, found {len(guards)}")
    opts = []
    for rel in ("common/tcp_connection.py", "common/tcp_client_connection.py", "common/tcp_server_connection.py"):
        found = []
        for n in ast.walk(G.parse(rel)):
            if isinstance(n, ast.Call) and isinstance(n.func, ast.Attribute) and n.func.attr == "setsockopt":
                if len(n.args) < 2:
                    raise G.P.Untranslatable(f"{rel}: setsockopt with {len(n.args)} arguments")
                found.append((n.lineno, rel.split("/")[-1], ast.unparse(n.func.value), ast.unparse(n.args[0]), ast.unparse(n.args[1])))
        opts += [f[1:] for f in sorted(found)]

    # the transport's hand-over between two connections: where the next listen/connect cycle is started
    ttree = G.parse("common/tcp_connection.py")
    tcls = G.find_class(ttree, "TcpConnection")
    rt = next((i for i in tcls.body if isinstance(i, ast.FunctionDef) and i.name == "__receiver_thread"), None)
    if rt is None:
        raise G.P.Untranslatable("TcpConnection.__receiver_thread not found")
    last = ast.unparse(rt.body[-1])
    regs = []
    for rel in ("common/tcp_connection.py", "common/tcp_client_connection.py", "common/tcp_server_connection.py"):
        for n in ast.walk(G.parse(rel)):
            if isinstance(n, ast.Call) and G.P.dotted(n.func) == "self.on_disconnected.register":
                regs.append(rel.split("/")[-1] + ": " + ast.unparse(n))
    hooks = []
    for rel, cname in (("common/tcp_client_connection.py", "TcpClientConnection"), ("common/tcp_server_connection.py", "TcpServerConnection")):
        c = G.find_class(G.parse(rel), cname)
        if any(isinstance(i, ast.FunctionDef) and i.name == "_connection_closed" for i in c.body):
            hooks.append(cname)

    # who writes to the connection: every `self._connection.send_data(...)` call of the protocol classes, by enclosing method
    senders = []
    for rel, cname in (("hsms/protocol.py", "HsmsProtocol"), ("common/protocol.py", "Protocol")):
        c = G.find_class(G.parse(rel), cname)
        for m in c.body:
            if isinstance(m, ast.FunctionDef):
                for n in ast.walk(m):
                    if isinstance(n, ast.Call) and G.P.dotted(n.func) in ("self._connection.send_data", "self.__connection.send_data"):
                        senders.append(f"{cname}.{m.name}")
    senders = sorted(set(senders))

    # the server's restart hook: does it wait for the thread that accepted the closed connection before it starts a new listener?
    scls = G.find_class(G.parse("common/tcp_server_connection.py"), "TcpServerConnection")
    hook = next((i for i in scls.body if isinstance(i, ast.FunctionDef) and i.name == "_connection_closed"), None)
    calls = []
    if hook is not None:
        for n in ast.walk(hook):
            if isinstance(n, ast.Call):
                d = G.P.dotted(n.func)
                if d in ("self._server_thread.join", "self.__start_server_thread", "self._TcpServerConnection__start_server_thread"):
                    calls.append((n.lineno, n.col_offset, "join" if d.endswith("join") else "start"))
    hook_calls = [c[2] for c in sorted(calls)]

    def q(x):
        return '"' + x.replace("\\", "\\\\").replace('"', '\\"') + '"'
    out = [G.HEADER.format(src="secsgem/hsms/protocol.py (_on_state_connect), secsgem/common/tcp_*connection.py (setsockopt calls)"),
           "namespace SecsModel.Gen.HsmsGuards\n",
           "/-- source text of the condition under which `_on_state_connect` starts the Select thread -/",
           "def selectGuard : String := " + q(guards[0]) + "\n",
           "/-- every `setsockopt` call of the TCP connection classes: (file, receiver, level, option) -/",
           "def sockOpts : List (String × String × String × String) := ["
           + ", ".join("(" + ", ".join(q(x) for x in o) + ")" for o in opts) + "]\n",
           "/-- last statement of `TcpConnection.__receiver_thread` (after `on_disconnected` and the reset of the flags) -/",
           "def receiverThreadLast : String := " + q(last) + "\n",
           "/-- `self.on_disconnected.register(...)` calls inside the TCP connection classes themselves -/",
           "def ownDisconnectedListeners : List String := [" + ", ".join(q(x) for x in regs) + "]\n",
           "/-- TCP connection classes that implement the `_connection_closed` hook -/",
           "def closedHooks : List String := [" + ", ".join(q(x) for x in hooks) + "]\n",
           "/-- methods of `Protocol` / `HsmsProtocol` that call `self._connection.send_data` -/",
           "def sendDataCallers : List String := [" + ", ".join(q(x) for x in senders) + "]\n",
           "/-- `TcpServerConnection._connection_closed`: its calls of `self._server_thread.join()` / `self.__start_server_thread()`, in source order -/",
           "def serverRestartHook : List String := [" + ", ".join(q(x) for x in hook_calls) + "]\n",
           "end SecsModel.Gen.HsmsGuards\n"]
    G.write("HsmsGuards", "\n".join(out))
    G.FACTS["HsmsGuards"] = {"selectGuard": guards[0], "sockOpts": [list(o) for o in opts], "receiverThreadLast": last,
                             "ownDisconnectedListeners": regs, "closedHooks": hooks, "serverRestartHook": hook_calls, "sendDataCallers": senders}


UNITS = {"RxOrder": unit_RxOrder, "HsmsGuards": unit_HsmsGuards}
