"""Gen.RxOrder: the statement order of `Protocol._on_connection_data_received` (common/protocol.py).

The handler runs on the connection's thread; the protocol's receiver thread is woken by `trigger_receiver()` and then looks at the receive
buffer.  Whether the bytes are in the buffer BEFORE the wake-up is what decides if a wake-up can be lost, so the order is extracted as a
list of statement tags, in source order.  Recognised statements (anything else is a broken tie):
    self._receive_buffer.append(data["data"])     -> "append"
    self._thread.trigger_receiver()               -> "trigger"
Consumed by Model/Rx.lean (`OnData`: the connection thread executes this list one statement per step) and Props/C04.lean
(`on_data_no_lost_wakeup`): swapping the two statements re-opens the obligation.
"""
import ast

G = None  # set by gen.py


def _tag(st):
    if isinstance(st, ast.Expr) and isinstance(st.value, ast.Constant) and isinstance(st.value.value, str):
        return None  # docstring
    if isinstance(st, ast.Expr) and isinstance(st.value, ast.Call):
        call = st.value
        fn = G.P.dotted(call.func)
        if fn == "self._receive_buffer.append" and len(call.args) == 1 and not call.keywords \
                and ast.unparse(call.args[0]) in ("data['data']", 'data["data"]'):
            return "append"
        if fn == "self._thread.trigger_receiver" and not call.args and not call.keywords:
            return "trigger"
    raise G.P.Untranslatable(f"_on_connection_data_received: unrecognised statement `{ast.unparse(st)[:80]}`")


def unit_RxOrder():
    tree = G.parse("common/protocol.py")
    cls = G.find_class(tree, "Protocol")
    fn = next((i for i in cls.body if isinstance(i, ast.FunctionDef) and i.name == "_on_connection_data_received"), None)
    if fn is None:
        raise G.P.Untranslatable("Protocol._on_connection_data_received not found")
    tags = [t for t in (_tag(st) for st in fn.body) if t is not None]
    out = [G.HEADER.format(src="secsgem/common/protocol.py (Protocol._on_connection_data_received)"),
           "namespace SecsModel.Gen.RxOrder\n",
           "/-- statements of `Protocol._on_connection_data_received`, in source order -/",
           "def onData : List String := [" + ", ".join('"' + t + '"' for t in tags) + "]\n",
           "end SecsModel.Gen.RxOrder\n"]
    G.write("RxOrder", "\n".join(out))
    G.FACTS["RxOrder"] = {"onData": tags}


def unit_HsmsGuards():
    """Gen.HsmsGuards:
      * selectGuard : the condition under which `HsmsProtocol._on_state_connect` starts the Select thread (source text of the `if` test);
        E37: the active entity sends Select.req on EVERY connection, so the condition has to be `self._settings.is_active` and nothing else.
      * sockOpts : every `setsockopt` call in common/tcp_connection.py, tcp_client_connection.py, tcp_server_connection.py as
        (file, receiver expression, level, option), in source order.  An option that changes what `close()` does to bytes `send()` has
        accepted (SO_LINGER) would make "send_data returned True" mean less than the property says.
    """
    tree = G.parse("hsms/protocol.py")
    cls = G.find_class(tree, "HsmsProtocol")
    fn = next((i for i in cls.body if isinstance(i, ast.FunctionDef) and i.name == "_on_state_connect"), None)
    if fn is None:
        raise G.P.Untranslatable("HsmsProtocol._on_state_connect not found")
    guards = []
    for st in fn.body:
        if isinstance(st, ast.If) and any(isinstance(n, ast.Call) and G.P.dotted(n.func) == "threading.Thread" for n in ast.walk(st)):
            guards.append(ast.unparse(st.test))
    if len(guards) != 1:
        raise G.P.Untranslatable(f"_on_state_connect: expected exactly one `if` that starts the Select thread, found {len(guards)}")
    opts = []
    for rel in ("common/tcp_connection.py", "common/tcp_client_connection.py", "common/tcp_server_connection.py"):
        found = []
        for n in ast.walk(G.parse(rel)):
            if isinstance(n, ast.Call) and isinstance(n.func, ast.Attribute) and n.func.attr == "setsockopt":
                if len(n.args) < 2:
                    raise G.P.Untranslatable(f"{rel}: setsockopt with {len(n.args)} arguments")
                found.append((n.lineno, rel.split("/")[-1], ast.unparse(n.func.value), ast.unparse(n.args[0]), ast.unparse(n.args[1])))
        opts += [f[1:] for f in sorted(found)]

    def q(x):
        return '"' + x.replace("\\", "\\\\").replace('"', '\\"') + '"'
    out = [G.HEADER.format(src="secsgem/hsms/protocol.py (_on_state_connect), secsgem/common/tcp_*connection.py (setsockopt calls)"),
           "namespace SecsModel.Gen.HsmsGuards\n",
           "/-- source text of the condition under which `_on_state_connect` starts the Select thread -/",
           "def selectGuard : String := " + q(guards[0]) + "\n",
           "/-- every `setsockopt` call of the TCP connection classes: (file, receiver, level, option) -/",
           "def sockOpts : List (String × String × String × String) := ["
           + ", ".join("(" + ", ".join(q(x) for x in o) + ")" for o in opts) + "]\n",
           "end SecsModel.Gen.HsmsGuards\n"]
    G.write("HsmsGuards", "\n".join(out))
    G.FACTS["HsmsGuards"] = {"selectGuard": guards[0], "sockOpts": [list(o) for o in opts]}


UNITS = {"RxOrder": unit_RxOrder, "HsmsGuards": unit_HsmsGuards}
