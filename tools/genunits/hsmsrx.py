"""Gen.RxOrder: the statement order of `Protocol._on_connection_data_received` (common/protocol.py).

The handler runs on the connection's thread; the protocol's receiver thread is woken by `trigger_receiver()` and then looks at the receive
buffer.  Whether the bytes are in the buffer BEFORE the wake-up is what decides if a wake-up can be lost, so the order is extracted as a
list of statement tags, in source order.  Recognised statements (anything else is a broken tie):
    self._receive_buffer.append(data["data"])     -> "append"
    self._thread.trigger_receiver()               -> "trigger"
Consumed by Model/Rx.lean (`OnData`: the connection thread executes this list one statement per step) and Props/C04.lean
(`on_data_no_lost_wakeup`): swapping the two statements re-opens the obligation.
"""
import ast

G = None  # set by gen.py


def _tag(st):
    if isinstance(st, ast.Expr) and isinstance(st.value, ast.Constant) and isinstance(st.value.value, str):
        return None  # docstring
    if isinstance(st, ast.Expr) and isinstance(st.value, ast.Call):
        call = st.value
        fn = G.P.dotted(call.func)
        if fn == "self._receive_buffer.append" and len(call.args) == 1 and not call.keywords \
                and ast.unparse(call.args[0]) in ("data['data']", 'data["data"]'):
            return "append"
        if fn == "self._thread.trigger_receiver" and not call.args and not call.keywords:
            return "trigger"
    raise G.P.Untranslatable(f"_on_connection_data_received: unrecognised statement `{ast.unparse(st)[:80]}`")


def unit_RxOrder():
    tree = G.parse("common/protocol.py")
    cls = G.find_class(tree, "Protocol")
    fn = next((i for i in cls.body if isinstance(i, ast.FunctionDef) and i.name == "_on_connection_data_received"), None)
    if fn is None:
        raise G.P.Untranslatable("Protocol._on_connection_data_received not found")
    tags = [t for t in (_tag(st) for st in fn.body) if t is not None]
    out = [G.HEADER.format(src="secsgem/common/protocol.py (Protocol._on_connection_data_received)"),
           "namespace SecsModel.Gen.RxOrder\n",
           "/-- statements of `Protocol._on_connection_data_received`, in source order -/",
           "def onData : List String := [" + ", ".join('"' + t + '"' for t in tags) + "]\n",
           "end SecsModel.Gen.RxOrder\n"]
    G.write("RxOrder", "\n".join(out))
    G.FACTS["RxOrder"] = {"onData": tags}


UNITS = {"RxOrder": unit_RxOrder}
