"""Gen.CtrlMethods: the public methods of `ControlStateMachine` (gem/control_state_machine.py) as ordered statement lists, and the
bodies of the callbacks its constructor registers on state events.

Registered handlers (`handlers`): for every `self.<state>.events.<enter|leave>.register(self.<method>)` in `__init__`, in registration
order, the *body* of the registered method as branch rows `(attribute, value | "*", transition)`:
    if self.<attr> == "<v1>": self._perform_transition("<t1>")  elif self.<attr> == "<v2>": ...  else: self._perform_transition("<tn>")
(an unconditional `self._perform_transition("<t>")` is the row `("", "*", "<t>")`; a branch that requests nothing has transition `""`).  The entry is keyed by the state's display name,
the event and its position; the method's *name* is carried only as a label — renaming a private callback changes nothing.
Anything else in such a body is a broken tie (T-BREAK).

Each public method (name not starting with `_`, not a property) must consist, after its docstring, only of
  * `self._perform_transition("<name>")`                      -> ("perform", "<name>", "")
  * `self.<attr> = "<string literal>"`                        -> ("assign", "<attr>", "<literal>")
in source order.  Anything else is a broken tie (T-BREAK): the model `Model.Gem.Ctrl.runMethod` interprets exactly these.
The order matters: `switch_online_local/remote` update the remembered ON-LINE sub-state only AFTER the transition was performed,
so that a rejected request changes nothing (C18) and the sub-state on the next ON-LINE entry is the operator's last accepted switch (C11).
"""
import ast

G = None  # set by gen.py


def self_attr(node):
    if isinstance(node, ast.Attribute) and isinstance(node.value, ast.Name) and node.value.id == "self":
        return node.attr
    return None


def unit_CtrlMethods():
    rel = "gem/control_state_machine.py"
    tree = G.parse(rel)
    cls = G.find_class(tree, "ControlStateMachine")
    rows = []
    for item in cls.body:
        if not isinstance(item, ast.FunctionDef) or item.name.startswith("_"):
            continue
        if any(isinstance(d, ast.Name) and d.id == "property" for d in item.decorator_list):
            continue
        stmts = []
        body = list(item.body)
        if body and isinstance(body[0], ast.Expr) and isinstance(body[0].value, ast.Constant) and isinstance(body[0].value.value, str):
            body = body[1:]
        for st in body:
            if isinstance(st, ast.Expr) and isinstance(st.value, ast.Call) and G.P.dotted(st.value.func) == "self._perform_transition" \
                    and len(st.value.args) == 1 and isinstance(st.value.args[0], ast.Constant) and isinstance(st.value.args[0].value, str):
                stmts.append(("perform", st.value.args[0].value, ""))
            elif isinstance(st, ast.Assign) and len(st.targets) == 1 and self_attr(st.targets[0]) \
                    and isinstance(st.value, ast.Constant) and isinstance(st.value.value, str):
                stmts.append(("assign", self_attr(st.targets[0]), st.value.value))
            else:
                raise G.P.Untranslatable(f"ControlStateMachine.{item.name}: statement {ast.unparse(st)[:80]!r}")
        rows.append((item.name, stmts))
    if not rows:
        raise G.P.Untranslatable("ControlStateMachine: no public methods found")

    # ---- callbacks registered on state events in __init__: (state display name, event, label, rows)
    init = next(i for i in cls.body if isinstance(i, ast.FunctionDef) and i.name == "__init__")
    funcs = {i.name: i for i in cls.body if isinstance(i, ast.FunctionDef)}
    state_names = {}
    for st in ast.walk(init):
        if isinstance(st, (ast.Assign, ast.AnnAssign)):
            tgt = st.targets[0] if isinstance(st, ast.Assign) else st.target
            val = st.value
            if self_attr(tgt) and isinstance(val, ast.Call) and G.P.dotted(val.func) in ("secsgem.common.State", "State") and len(val.args) >= 2:
                state_names[self_attr(tgt)] = ast.literal_eval(val.args[1])

    def perform_of(stmts, where):
        out = []
        for st in stmts:
            if isinstance(st, ast.Expr) and isinstance(st.value, ast.Call) and G.P.dotted(st.value.func) == "self._perform_transition" \
                    and len(st.value.args) == 1 and isinstance(st.value.args[0], ast.Constant):
                out.append(st.value.args[0].value)
            elif isinstance(st, ast.Pass):
                continue
            else:
                raise G.P.Untranslatable(f"{where}: statement {ast.unparse(st)[:80]!r}")
        return out

    def one(trs, where):
        if len(trs) > 1:
            raise G.P.Untranslatable(f"{where}: more than one _perform_transition in a branch")
        return trs[0] if trs else ""   # "" = the branch requests nothing

    def body_rows(fn):
        rows_ = []
        body = list(fn.body)
        if body and isinstance(body[0], ast.Expr) and isinstance(body[0].value, ast.Constant) and isinstance(body[0].value.value, str):
            body = body[1:]
        if len(body) != 1:
            raise G.P.Untranslatable(f"{fn.name}: a registered handler must be one if/elif/else chain or one _perform_transition call")
        for st in body:
            node = st
            # `self._perform_transition(X if c else Y)` is the branch form `if c: self._perform_transition(X) else: self._perform_transition(Y)`
            if isinstance(st, ast.Expr) and isinstance(st.value, ast.Call) and G.P.dotted(st.value.func) == "self._perform_transition" \
                    and len(st.value.args) == 1 and isinstance(st.value.args[0], ast.IfExp):
                e = st.value.args[0]
                attr = ""
                while isinstance(e, ast.IfExp):
                    t = e.test
                    if not (isinstance(t, ast.Compare) and len(t.ops) == 1 and isinstance(t.ops[0], ast.Eq) and self_attr(t.left)
                            and isinstance(t.comparators[0], ast.Constant) and isinstance(t.comparators[0].value, str)
                            and isinstance(e.body, ast.Constant) and isinstance(e.body.value, str)):
                        raise G.P.Untranslatable(f"{fn.name}: conditional argument {ast.unparse(e)[:80]!r}")
                    attr = self_attr(t.left)
                    rows_.append((attr, t.comparators[0].value, e.body.value))
                    e = e.orelse
                if not (isinstance(e, ast.Constant) and isinstance(e.value, str)):
                    raise G.P.Untranslatable(f"{fn.name}: conditional argument {ast.unparse(e)[:80]!r}")
                rows_.append((attr, "*", e.value))
                continue
            if isinstance(node, ast.If):
                while isinstance(node, ast.If):
                    t = node.test
                    if not (isinstance(t, ast.Compare) and len(t.ops) == 1 and isinstance(t.ops[0], ast.Eq) and self_attr(t.left)
                            and isinstance(t.comparators[0], ast.Constant) and isinstance(t.comparators[0].value, str)):
                        raise G.P.Untranslatable(f"{fn.name}: condition {ast.unparse(t)[:80]!r}")
                    attr = self_attr(t.left)
                    rows_.append((attr, t.comparators[0].value, one(perform_of(node.body, fn.name), fn.name)))
                    if len(node.orelse) == 1 and isinstance(node.orelse[0], ast.If):
                        node = node.orelse[0]
                    else:
                        if node.orelse:
                            rows_.append((attr, "*", one(perform_of(node.orelse, fn.name), fn.name)))
                        node = None
            else:
                for tr in perform_of([st], fn.name):
                    rows_.append(("", "*", tr))
        return rows_

    handlers = []
    for st in init.body:
        for call in ast.walk(st):
            if isinstance(call, ast.Call) and isinstance(call.func, ast.Attribute) and call.func.attr == "register" and len(call.args) == 1:
                chain = G.P.dotted(call.func.value) or ""
                parts = chain.split(".")
                if len(parts) == 4 and parts[0] == "self" and parts[2] == "events":
                    meth = self_attr(call.args[0])
                    if parts[1] not in state_names:
                        raise G.P.Untranslatable(f"register on unknown state attribute {parts[1]}")
                    if meth is None or meth not in funcs:
                        raise G.P.Untranslatable(f"{chain}.register({ast.unparse(call.args[0])[:60]}): not a method of the class")
                    handlers.append((state_names[parts[1]], parts[3], meth, body_rows(funcs[meth])))

    def q(s):
        return '"' + s.replace("\\", "\\\\").replace('"', '\\"') + '"'
    body = ",\n    ".join(f"({q(n)}, [{', '.join(f'({q(k)}, {q(a)}, {q(b)})' for k, a, b in st)}])" for n, st in rows)
    hbody = ",\n    ".join(f"({q(sn)}, {q(ev)}, {q(lab)}, [{', '.join(f'({q(a)}, {q(v)}, {q(t)})' for a, v, t in rws)}])" for sn, ev, lab, rws in handlers)
    text = G.HEADER.format(src=rel) + f"""
namespace SecsModel.Gen.CtrlMethods

/-- `ControlStateMachine` public methods: (method, statements in source order); a statement is
`("perform", transition, "")` for `self._perform_transition("transition")` or `("assign", attribute, value)` for `self.attribute = "value"` -/
def methods : List (String × List (String × String × String)) := [
    {body}]

/-- callbacks registered on state events by `ControlStateMachine.__init__`, in registration order:
(state display name, event, label = the method's name (not used by the model), body as branch rows
`(attribute, value or "*" for else / unconditional, transition requested)`) -/
def handlers : List (String × String × String × List (String × String × String)) := [
    {hbody}]

end SecsModel.Gen.CtrlMethods
"""
    G.write("CtrlMethods", text)
    G.FACTS["CtrlMethods"] = {"methods": [(n, st) for n, st in rows], "handlers": handlers}


UNITS = {"CtrlMethods": unit_CtrlMethods}
