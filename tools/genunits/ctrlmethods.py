"""Gen.CtrlMethods: the public methods of `ControlStateMachine` (gem/control_state_machine.py) as ordered statement lists.

Each public method (name not starting with `_`, not a property) must consist, after its docstring, only of
  * `self._perform_transition("<name>")`                      -> ("perform", "<name>", "")
  * `self.<attr> = "<string literal>"`                        -> ("assign", "<attr>", "<literal>")
in source order.  Anything else is a broken tie (T-BREAK): the model `Model.Gem.Ctrl.runMethod` interprets exactly these.
The order matters: `switch_online_local/remote` update the remembered ON-LINE sub-state only AFTER the transition was performed,
so that a rejected request changes nothing (C18) and the sub-state on the next ON-LINE entry is the operator's last accepted switch (C11).
"""
import ast

G = None  # set by gen.py


def self_attr(node):
    if isinstance(node, ast.Attribute) and isinstance(node.value, ast.Name) and node.value.id == "self":
        return node.attr
    return None


def unit_CtrlMethods():
    rel = "gem/control_state_machine.py"
    tree = G.parse(rel)
    cls = G.find_class(tree, "ControlStateMachine")
    rows = []
    for item in cls.body:
        if not isinstance(item, ast.FunctionDef) or item.name.startswith("_"):
            continue
        if any(isinstance(d, ast.Name) and d.id == "property" for d in item.decorator_list):
            continue
        stmts = []
        body = list(item.body)
        if body and isinstance(body[0], ast.Expr) and isinstance(body[0].value, ast.Constant) and isinstance(body[0].value.value, str):
            body = body[1:]
        for st in body:
            if isinstance(st, ast.Expr) and isinstance(st.value, ast.Call) and G.P.dotted(st.value.func) == "self._perform_transition" \
                    and len(st.value.args) == 1 and isinstance(st.value.args[0], ast.Constant) and isinstance(st.value.args[0].value, str):
                stmts.append(("perform", st.value.args[0].value, ""))
            elif isinstance(st, ast.Assign) and len(st.targets) == 1 and self_attr(st.targets[0]) \
                    and isinstance(st.value, ast.Constant) and isinstance(st.value.value, str):
                stmts.append(("assign", self_attr(st.targets[0]), st.value.value))
            else:
                raise G.P.Untranslatable(f"ControlStateMachine.{item.name}: statement {ast.unparse(st)[:80]!r}")
        rows.append((item.name, stmts))
    if not rows:
        raise G.P.Untranslatable("ControlStateMachine: no public methods found")

    def q(s):
        return '"' + s.replace("\\", "\\\\").replace('"', '\\"') + '"'
    body = ",\n    ".join(f"({q(n)}, [{', '.join(f'({q(k)}, {q(a)}, {q(b)})' for k, a, b in st)}])" for n, st in rows)
    text = G.HEADER.format(src=rel) + f"""
namespace SecsModel.Gen.CtrlMethods

/-- `ControlStateMachine` public methods: (method, statements in source order); a statement is
`("perform", transition, "")` for `self._perform_transition("transition")` or `("assign", attribute, value)` for `self.attribute = "value"` -/
def methods : List (String × List (String × String × String)) := [
    {body}]

end SecsModel.Gen.CtrlMethods
"""
    G.write("CtrlMethods", text)
    G.FACTS["CtrlMethods"] = [(n, st) for n, st in rows]


UNITS = {"CtrlMethods": unit_CtrlMethods}
