"""Gen.DispatchGuard: what the two thread loops of `ProtocolDispatcher` catch around their callbacks (C06).

`_receiver_thread_function` runs `self._receiver_target()` and `_dispatcher_thread_function` runs `self._dispatcher_target(*data)` inside a
`try`; the class named in the `except` clause decides whether a callback that raises (an undecodable frame, a failing application handler)
ends the thread - after which nothing is received or dispatched any more.  Extracted by AST: the dotted name(s) of the except clause that
guards exactly that call, "" if the call is not inside a try at all.
"""
import ast

G = None


def _guard(cls, fn_name, call_text):
    fn = next(i for i in cls.body if isinstance(i, ast.FunctionDef) and i.name == fn_name)
    for node in ast.walk(fn):
        if isinstance(node, ast.Try) and any(isinstance(s, ast.Expr) and ast.unparse(s.value) == call_text for s in node.body):
            names = []
            for h in node.handlers:
                if h.type is None:
                    names.append("BaseException")
                elif isinstance(h.type, ast.Tuple):
                    names += [ast.unparse(e) for e in h.type.elts]
                else:
                    names.append(ast.unparse(h.type))
            reraises = any(isinstance(x, ast.Raise) for h in node.handlers for x in ast.walk(h))
            return names, reraises
    return [], False


def unit_DispatchGuard():
    tree = G.parse("common/protocol_dispatcher.py")
    cls = G.find_class(tree, "ProtocolDispatcher")
    rc, rr = _guard(cls, "_receiver_thread_function", "self._receiver_target()")
    dc, dr = _guard(cls, "_dispatcher_thread_function", "self._dispatcher_target(*data)")

    def lst(xs):
        return "[" + ", ".join('"' + x + '"' for x in xs) + "]"

    text = (G.HEADER.format(src="secsgem/common/protocol_dispatcher.py")
            + "namespace SecsModel.Gen.DispatchGuard\n\n"
            + "/-- exception classes caught around `self._receiver_target()` in the receiver thread loop -/\n"
            + f"def receiverCatches : List String := {lst(rc)}\n"
            + "/-- exception classes caught around `self._dispatcher_target(*data)` in the dispatcher thread loop -/\n"
            + f"def dispatcherCatches : List String := {lst(dc)}\n"
            + "/-- a handler re-raises -/\n"
            + f"def receiverReraises : Bool := {'true' if rr else 'false'}\n"
            + f"def dispatcherReraises : Bool := {'true' if dr else 'false'}\n\n"
            + "end SecsModel.Gen.DispatchGuard\n")
    G.write("DispatchGuard", text)
    G.FACTS["DispatchGuard"] = {"receiverCatches": rc, "dispatcherCatches": dc}


UNITS = {"DispatchGuard": unit_DispatchGuard}
