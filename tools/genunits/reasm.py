"""Gen.Reasm: how received blocks are collected into messages (C16, also the HSMS path of C04/C06).

Extracted by AST from `secsgem/common/protocol.py` (`Protocol._add_message_block`) and `secsgem/secsi/message.py`
(`SecsIMessage.header/data/complete`), `secsgem/common/message.py` (`Message.from_block`):

  * `key system device_id stream function block` : the *translated* expression that indexes `self._incomplete_messages` — every
    subscript and membership test of the table in the method must use the same expression (simple local assignments are inlined first);
  * `skeleton`    : the statements of `_add_message_block` with the key written `K` and the table written `T`;
  * `msgHeader`, `msgData`, `msgComplete`, `fromBlock` : the return expressions of the three `SecsIMessage` properties and of `from_block`.

`Model.SecsI.addBlock/extend/reassemble` is the hand model of exactly this; `Props.C16.reassembly_key_is_system_bytes` and
`reassembly_statements` tie the two (a table keyed by anything coarser than the full system bytes merges messages, see `reassembly`'s
`Nodup` hypothesis)."""
import ast
import copy

G = None


def _body(fn):
    return [s for s in fn.body if not (isinstance(s, ast.Expr) and isinstance(s.value, ast.Constant))]


class _Subst(ast.NodeTransformer):
    def __init__(self, env):
        self.env = env

    def visit_Name(self, node):
        if isinstance(node.ctx, ast.Load) and node.id in self.env:
            return copy.deepcopy(self.env[node.id])
        return node


def _canon_membership(stmt, table):
    """`if K in T: A else: B` and `if not K not in T` etc. are written in the one form `if K not in T: B else: A` (a polarity swap of the test
    with swapped branches is the same statement)"""
    if not (isinstance(stmt, ast.If) and stmt.orelse):
        return stmt
    test, neg = stmt.test, False
    while isinstance(test, ast.UnaryOp) and isinstance(test.op, ast.Not):
        test, neg = test.operand, not neg
    if not (isinstance(test, ast.Compare) and len(test.ops) == 1 and isinstance(test.ops[0], (ast.In, ast.NotIn))
            and ast.unparse(test.comparators[0]) == table):
        return stmt
    absent_first = isinstance(test.ops[0], ast.NotIn) != neg
    canon_test = ast.Compare(left=test.left, ops=[ast.NotIn()], comparators=test.comparators)
    body, orelse = (stmt.body, stmt.orelse) if absent_first else (stmt.orelse, stmt.body)
    return ast.fix_missing_locations(ast.If(test=canon_test, body=body, orelse=orelse))


def _prop_return(cls, name):
    fn = next(i for i in cls.body if isinstance(i, ast.FunctionDef) and i.name == name)
    body = _body(fn)
    if len(body) != 1 or not isinstance(body[0], ast.Return):
        raise G.P.Untranslatable(f"{cls.name}.{name}: body is not a single return")
    return ast.unparse(body[0].value)


def unit_Reasm():
    P = G.P
    tree = G.parse("common/protocol.py")
    fn = P.find_function(tree, "Protocol", "_add_message_block")
    table = "self._incomplete_messages"
    # inline simple local assignments `name = <expr>` that happen before the first use of the table
    env, stmts = {}, []
    for s in _body(fn):
        if (isinstance(s, ast.Assign) and len(s.targets) == 1 and isinstance(s.targets[0], ast.Name) and table not in ast.unparse(s.value)):
            env[s.targets[0].id] = _Subst(env).visit(copy.deepcopy(s.value))
        else:
            stmts.append(_Subst(env).visit(copy.deepcopy(s)))
    keys = []
    for s in stmts:
        for n in ast.walk(s):
            if isinstance(n, ast.Subscript) and ast.unparse(n.value) == table:
                keys.append(n.slice)
            if isinstance(n, ast.Compare) and len(n.comparators) == 1 and ast.unparse(n.comparators[0]) == table \
                    and isinstance(n.ops[0], (ast.In, ast.NotIn)):
                keys.append(n.left)
    texts = sorted({ast.unparse(k) for k in keys})
    if len(texts) != 1:
        raise P.Untranslatable(f"_add_message_block indexes the table of incomplete messages with {len(texts)} different expressions: {texts}")
    key = keys[0]
    fields = ["system", "device_id", "stream", "function", "block"]
    ctx = P.Ctx(names={f"block.header.{f}": f for f in fields}, bools=set(), records={}, enums={}, state=[])
    key_lean = P.FnTranslator(ctx).expr(key)
    skeleton = []
    for s in stmts:
        s = _canon_membership(s, table)
        t = ast.unparse(s).replace(texts[0], "K").replace(table, "T")
        skeleton.append(" ; ".join(x.strip() for x in t.splitlines()))

    mtree = G.parse("secsi/message.py")
    mcls = G.find_class(mtree, "SecsIMessage")
    base = G.find_class(G.parse("common/message.py"), "Message")
    props = {"msgHeader": _prop_return(mcls, "header"), "msgData": _prop_return(mcls, "data"), "msgComplete": _prop_return(mcls, "complete"),
             "fromBlock": _prop_return(base, "from_block")}

    def lit(s):
        return '"' + s.replace("\\", "\\\\").replace('"', '\\"') + '"'

    text = (G.HEADER.format(src="secsgem/common/protocol.py (Protocol._add_message_block), secsgem/secsi/message.py, secsgem/common/message.py")
            + "import SecsModel.Basic.Py\nnamespace SecsModel.Gen.Reasm\n\n"
            + f"/-- the expression that indexes `self._incomplete_messages` (python: `{texts[0]}`) -/\n"
            + "def key (" + " ".join(fields) + " : Int) : Int :=\n  " + key_lean + "\n\n"
            + "/-- the statements of `_add_message_block`, `K` = the key expression, `T` = the table -/\n"
            + "def skeleton : List String := [\n  " + ",\n  ".join(lit(s) for s in skeleton) + "]\n\n"
            + "".join(f"def {k} : String := {lit(v)}\n" for k, v in props.items())
            + "\nend SecsModel.Gen.Reasm\n")
    G.write("Reasm", text)
    G.FACTS["Reasm"] = {"key": texts[0], "skeleton": skeleton, **props}


UNITS = {"Reasm": unit_Reasm}
