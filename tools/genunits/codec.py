"""Gen.VarTypes, Gen.ItemTypes, Gen.Jis8: the class-attribute tables of the two SECS-II item APIs and the JIS-8 code table.

* VarTypes : every concrete class of `secs/variables/*.py` (Array, List, Binary, Boolean, String, JIS8, I8…U4, F8, F4):
  `format_code`, `text_code`, `_bytes`, `_struct_code`, `_base_type is float`, `_min`, `_max`, `coding`, resolved through the
  in-package base classes.  Float bounds are written as the IEEE-754 binary64 bit pattern of the literal
  (`struct.pack('>d', literal)`), never as decimal text.  Plus the key order of the `format_codes` dict in `Dynamic.decode`,
  the type list of `ANYVALUE` and the default order of `Dynamic._match_type`.
* ItemTypes: every concrete `Item` subclass of `secs/item_*.py`: `_hsms_type`, `_sml_type`, `_bytes`, `_struct_code`,
  `_type is float`, `_minimum_value`, `_maximum_value`, `_encoding`; plus the type-name lists and the isinstance chain of
  `Item.from_value/_from_value_int/_from_value_float`.
* Jis8     : `jis8_decoding_map` of `common/codec_jis_x_0201.py`, evaluated symbolically (identity dict, `.update({…})`,
  `for i in range(a, b): map[i] = i + c`).
"""
import ast
import struct

G = None  # set by gen.py

VAR_FILES = ["array", "list_type", "binary", "boolean", "string", "jis8", "i8", "i1", "i2", "i4", "f8", "f4", "u8", "u1", "u2", "u4"]
VAR_BASES = ["base", "base_number", "base_text"]
ITEM_FILES = ["item_l", "item_b", "item_boolean", "item_str", "item_number"]


def lit(node):
    """literal value of a class attribute: int/str/bool/float, negative numbers, foldable int arithmetic; else None"""
    try:
        return ast.literal_eval(node)
    except Exception:  # noqa: BLE001
        v = G.const_fold(node)
        return v if isinstance(v, int) else None


def class_table(files, pkg):
    """{class name: (first base name, {attr: literal or ('name', id)})} for every class in the given modules"""
    out = {}
    order = []
    for f in files:
        tree = G.parse(f"{pkg}/{f}.py")
        for node in tree.body:
            if not isinstance(node, ast.ClassDef):
                continue
            base = None
            if node.bases:
                base = G.P.dotted(node.bases[0])
                if base:
                    base = base.split(".")[-1]
            attrs = {}
            for item in node.body:
                tgt = val = None
                if isinstance(item, ast.Assign) and len(item.targets) == 1 and isinstance(item.targets[0], ast.Name):
                    tgt, val = item.targets[0].id, item.value
                elif isinstance(item, ast.AnnAssign) and isinstance(item.target, ast.Name) and item.value is not None:
                    tgt, val = item.target.id, item.value
                if tgt is None:
                    continue
                if isinstance(val, ast.Name):
                    attrs[tgt] = ("name", val.id)
                else:
                    v = lit(val)
                    if v is not None or (isinstance(val, ast.Constant) and val.value is None):
                        attrs[tgt] = v
            out[node.name] = (base, attrs)
            order.append((f, node.name))
    return out, order


def resolve(table, cls, attr, default=None):
    seen = set()
    while cls in table and cls not in seen:
        seen.add(cls)
        base, attrs = table[cls]
        if attr in attrs:
            return attrs[attr]
        cls = base
    return default


def f64bits(x: float) -> int:
    return int.from_bytes(struct.pack(">d", x), "big")


def bound(v, is_float, what):
    if isinstance(v, bool) or v is None:
        raise G.P.Untranslatable(f"{what}: bound {v!r}")
    if is_float:
        if not isinstance(v, (int, float)):
            raise G.P.Untranslatable(f"{what}: float bound {v!r}")
        return f64bits(float(v))
    if isinstance(v, float):
        raise G.P.Untranslatable(f"{what}: float bound {v!r} on an integer class")
    if not isinstance(v, int):
        raise G.P.Untranslatable(f"{what}: bound {v!r}")
    return v


def assigned(st):
    """(dotted target, value) of a plain or annotated single assignment, else (None, None)"""
    if isinstance(st, ast.Assign) and len(st.targets) == 1:
        return G.P.dotted(st.targets[0]), st.value
    if isinstance(st, ast.AnnAssign) and st.value is not None:
        return G.P.dotted(st.target), st.value
    return None, None


def lint(n: int) -> str:
    return str(n) if n >= 0 else f"({n})"


def lstr(s) -> str:
    return '"' + str(s).replace("\\", "\\\\").replace('"', '\\"') + '"'


def resolve_const(node, tree, cls_name):
    """a Name (module-level constant) or cls./self./<Class>.attribute (class-level constant) that is assigned exactly once, to a list or
    tuple literal, in the same file: that literal; anything else: the node itself"""
    if tree is None:
        return node
    scope = None
    if isinstance(node, ast.Name):
        name, scope = node.id, tree.body
    elif isinstance(node, ast.Attribute) and isinstance(node.value, ast.Name) and node.value.id in ("cls", "self", cls_name):
        name = node.attr
        scope = next((c.body for c in tree.body if isinstance(c, ast.ClassDef) and c.name == cls_name), None)
    if scope is None:
        return node
    hits = [val for st in scope for tgt, val in [assigned(st)] if tgt == name]
    if len(hits) == 1 and isinstance(hits[0], (ast.List, ast.Tuple)):
        # the constant must not be rebound or mutated anywhere else in the file
        for n in ast.walk(tree):
            if isinstance(n, (ast.AugAssign, ast.Delete)) and name in ast.unparse(n):
                return node
            if isinstance(n, ast.Call) and isinstance(n.func, ast.Attribute) and G.P.dotted(n.func.value) in (name, f"cls.{name}", f"self.{name}", f"{cls_name}.{name}") \
                    and n.func.attr in ("append", "extend", "insert", "remove", "pop", "clear", "sort", "reverse"):
                return node
        return hits[0]
    return node


def name_list(node, what, tree=None, cls_name=None):
    """['U1', 'U2'] from a list / tuple literal of names or strings (or a once-assigned module / class constant holding one)"""
    node = resolve_const(node, tree, cls_name)
    if not isinstance(node, (ast.List, ast.Tuple)):
        raise G.P.Untranslatable(f"{what}: not a list literal")
    out = []
    for e in node.elts:
        if isinstance(e, ast.Constant) and isinstance(e.value, str):
            out.append(e.value)
        else:
            d = G.P.dotted(e)
            if d is None:
                raise G.P.Untranslatable(f"{what}: element {ast.unparse(e)}")
            out.append(d.split(".")[-1])
    return out


# ------------------------------------------------------------------------------------------- VarTypes
def unit_VarTypes():
    table, order = class_table(VAR_BASES + VAR_FILES, "secs/variables")
    rows = []
    for f, cls in order:
        if f in VAR_BASES:
            continue
        base = table[cls][0]
        bt = resolve(table, cls, "_base_type", ("name", "int"))
        is_float = bt == ("name", "float")
        if bt not in (("name", "int"), ("name", "float")):
            raise G.P.Untranslatable(f"{cls}._base_type = {bt}")
        numeric = False
        c = cls
        seen = set()
        while c in table and c not in seen:
            seen.add(c)
            if c == "BaseNumber":
                numeric = True
            c = table[c][0]
        fc = resolve(table, cls, "format_code")
        if not isinstance(fc, int):
            raise G.P.Untranslatable(f"{cls}.format_code = {fc!r}")
        row = {
            "cls": cls, "base": base or "", "format_code": fc, "text_code": resolve(table, cls, "text_code", ""),
            "bytes": resolve(table, cls, "_bytes", 0) if numeric else 0,
            "struct_code": resolve(table, cls, "_struct_code", "") if numeric else "",
            "is_float": bool(is_float and numeric),
            "min": bound(resolve(table, cls, "_min", 0), is_float, cls + "._min") if numeric else 0,
            "max": bound(resolve(table, cls, "_max", 0), is_float, cls + "._max") if numeric else 0,
            "coding": resolve(table, cls, "coding", "") or "",
        }
        if not isinstance(row["bytes"], int) or not isinstance(row["struct_code"], str):
            raise G.P.Untranslatable(f"{cls}: _bytes/_struct_code not literal")
        rows.append(row)
    # Dynamic.decode format_codes dict, ANYVALUE types, _match_type default order
    tree = G.parse("secs/variables/dynamic.py")
    dec = G.P.find_function(tree, "Dynamic", "decode")
    dyn_keys = None
    for st in ast.walk(dec):
        tgt, val = assigned(st)
        if tgt == "format_codes" and isinstance(val, ast.Dict):
            dyn_keys = []
            for k, v in zip(val.keys, val.values):
                kd, vd = G.P.dotted(k), G.P.dotted(v)
                if kd is None or vd is None or not kd.endswith(".format_code") or kd[: -len(".format_code")] != vd:
                    raise G.P.Untranslatable(f"Dynamic.decode format_codes entry {ast.unparse(k)}: {ast.unparse(v)}")
                dyn_keys.append(vd)
    if dyn_keys is None:
        raise G.P.Untranslatable("Dynamic.decode: format_codes dict literal not found")
    any_types = None
    init = G.P.find_function(tree, "ANYVALUE", "__init__")
    for st in ast.walk(init):
        if isinstance(st, ast.Call) and isinstance(st.func, ast.Attribute) and st.func.attr == "__init__" and st.args:
            any_types = name_list(st.args[0], "ANYVALUE types", tree, "ANYVALUE")
    if any_types is None:
        raise G.P.Untranslatable("ANYVALUE.__init__: type list not found")
    match_order = None
    mt = G.P.find_function(tree, "Dynamic", "_match_type")
    for st in ast.walk(mt):
        tgt, val = assigned(st)
        if tgt == "var_types" and isinstance(resolve_const(val, tree, "Dynamic"), (ast.List, ast.Tuple)):
            match_order = name_list(val, "_match_type order", tree, "Dynamic")
    if match_order is None:
        raise G.P.Untranslatable("Dynamic._match_type: default order not found")

    # data items whose Dynamic type list names JIS8 (Dynamic.decode has no JIS8 entry: harmless only while this list is empty)
    import glob
    import os
    jis_items = []
    n_items = 0
    for path in sorted(glob.glob(G.src("secs/data_items/*.py"))):
        t = ast.parse(open(path, encoding="utf-8").read())
        for node in t.body:
            if isinstance(node, ast.ClassDef):
                for item in node.body:
                    if isinstance(item, (ast.Assign, ast.AnnAssign)):
                        tgt = item.targets[0] if isinstance(item, ast.Assign) else item.target
                        if isinstance(tgt, ast.Name) and tgt.id == "__allowedtypes__" and item.value is not None:
                            n_items += 1
                            if not isinstance(item.value, (ast.List, ast.Tuple)):
                                if not (isinstance(item.value, ast.Constant) and item.value.value is None):
                                    raise G.P.Untranslatable(f"{os.path.basename(path)}: __allowedtypes__ is not a list literal")
                                continue
                            if any((G.P.dotted(e) or "").split(".")[-1] == "JIS8" for e in item.value.elts):
                                jis_items.append(node.name)

    out = [G.HEADER.format(src="secsgem/secs/variables/*.py (class attributes), dynamic.py (decode table, ANYVALUE, _match_type), data_items/*.py (__allowedtypes__)"),
           "namespace SecsModel.Gen.VarTypes\n",
           "/-- class attributes of one variable class; `min`/`max` of a float class are the binary64 bit patterns of the literals -/",
           "structure Row where", "  cls : String", "  base : String", "  format_code : Int", "  text_code : String", "  bytes : Int",
           "  struct_code : String", "  is_float : Bool", "  min : Int", "  max : Int", "  coding : String", "deriving DecidableEq, Repr, Inhabited\n"]
    for r in rows:
        out.append(f"def c{r['cls']} : Row := ⟨{lstr(r['cls'])}, {lstr(r['base'])}, {lint(r['format_code'])}, {lstr(r['text_code'])}, {lint(r['bytes'])}, "
                   f"{lstr(r['struct_code'])}, {'true' if r['is_float'] else 'false'}, {lint(r['min'])}, {lint(r['max'])}, {lstr(r['coding'])}⟩")
    out.append("\ndef table : List Row := [" + ", ".join("c" + r["cls"] for r in rows) + "]\n")
    out.append("/-- values of the `format_codes` dict literal in `Dynamic.decode` (each keyed by its own `format_code`), source order -/")
    out.append("def dynamicDecode : List String := [" + ", ".join(lstr(x) for x in dyn_keys) + "]\n")
    out.append("/-- the type list `ANYVALUE.__init__` passes to `Dynamic` -/")
    out.append("def anyvalueTypes : List String := [" + ", ".join(lstr(x) for x in any_types) + "]\n")
    out.append("/-- order in which `Dynamic._match_type` tries the types when none are configured -/")
    out.append("def matchOrder : List String := [" + ", ".join(lstr(x) for x in match_order) + "]\n")
    out.append(f"/-- data item classes (of {n_items} with an `__allowedtypes__` list) whose list names JIS8 -/")
    out.append("def dataItemsAllowingJIS8 : List String := [" + ", ".join(lstr(x) for x in jis_items) + "]\n")
    out.append("end SecsModel.Gen.VarTypes\n")
    G.write("VarTypes", "\n".join(out))
    G.FACTS["VarTypes"] = {"rows": rows, "dynamicDecode": dyn_keys, "anyvalueTypes": any_types, "matchOrder": match_order}


# ------------------------------------------------------------------------------------------- ItemTypes
def unit_ItemTypes():
    table, order = class_table(["item"] + ITEM_FILES, "secs")
    rows = []
    for f, cls in order:
        sml = resolve(table, cls, "_sml_type", "")
        if f == "item" or not sml:
            continue  # abstract helpers (Item, ItemNumber, ItemStr) register nothing
        ty = resolve(table, cls, "_type", ("name", "int"))
        if ty not in (("name", "int"), ("name", "float")):
            raise G.P.Untranslatable(f"{cls}._type = {ty}")
        is_float = ty == ("name", "float")
        hs = resolve(table, cls, "_hsms_type")
        if not isinstance(hs, int):
            raise G.P.Untranslatable(f"{cls}._hsms_type = {hs!r}")
        b = resolve(table, cls, "_bytes", 0)
        sc = resolve(table, cls, "_struct_code", "")
        row = {"cls": cls, "base": table[cls][0] or "", "hsms_type": hs, "sml_type": sml,
               "bytes": b if isinstance(b, int) else 0, "struct_code": sc if isinstance(sc, str) else "",
               "is_float": is_float,
               "min": bound(resolve(table, cls, "_minimum_value", 0), is_float, cls + "._minimum_value"),
               "max": bound(resolve(table, cls, "_maximum_value", 0), is_float, cls + "._maximum_value"),
               "encoding": resolve(table, cls, "_encoding", "") or ""}
        rows.append(row)
    # from_value machinery
    tree = G.parse("secs/item.py")
    fv_int = G.P.find_function(tree, "Item", "_from_value_int")
    uns = sig = fb_int = None
    for st in ast.walk(fv_int):
        tgt, val = assigned(st)
        if tgt == "types" and isinstance(val, ast.IfExp):
            t = val.test
            if not (isinstance(t, ast.Compare) and isinstance(t.ops[0], ast.GtE) and G.P.dotted(t.left) == "value"
                    and isinstance(t.comparators[0], ast.Constant) and t.comparators[0].value == 0):
                raise G.P.Untranslatable(f"_from_value_int: sign test {ast.unparse(t)}")
            uns, sig = name_list(val.body, "unsigned list", tree, "Item"), name_list(val.orelse, "signed list", tree, "Item")
    last = fv_int.body[-1]
    if isinstance(last, ast.Return) and isinstance(last.value, ast.Call) and isinstance(last.value.func, ast.Subscript):
        fb_int = ast.literal_eval(last.value.func.slice)
    fv_float = G.P.find_function(tree, "Item", "_from_value_float")
    flts = fb_float = None
    for st in ast.walk(fv_float):
        if isinstance(st, ast.For) and isinstance(resolve_const(st.iter, tree, "Item"), (ast.List, ast.Tuple)):
            flts = name_list(st.iter, "float list", tree, "Item")
    last = fv_float.body[-1]
    if isinstance(last, ast.Return) and isinstance(last.value, ast.Call) and isinstance(last.value.func, ast.Subscript):
        fb_float = ast.literal_eval(last.value.func.slice)
    for fn in (fv_int, fv_float):
        # the loop test must be `typ.minimum_value <= value <= typ.maximum_value`
        ok = False
        for st in ast.walk(fn):
            if isinstance(st, ast.If) and ast.unparse(st.test) == "typ.minimum_value <= value <= typ.maximum_value":
                ok = True
        if not ok:
            raise G.P.Untranslatable(f"{fn.name}: range test changed")
    if None in (uns, sig, fb_int, flts, fb_float):
        raise G.P.Untranslatable("Item._from_value_int/_from_value_float: shape not recognised")
    fv = G.P.find_function(tree, "Item", "from_value")
    chain = []
    node = next((st for st in fv.body if isinstance(st, ast.If)), None)
    while node is not None:
        t = node.test
        if not (isinstance(t, ast.Call) and G.P.dotted(t.func) == "isinstance" and G.P.dotted(t.args[0]) == "value"):
            raise G.P.Untranslatable(f"from_value: test {ast.unparse(t)}")
        pytype = G.P.dotted(t.args[1])
        rhs = assigned(node.body[0])[1] if len(node.body) == 1 else None
        if rhs is None:
            raise G.P.Untranslatable("from_value: branch body")
        if isinstance(rhs, ast.Name):
            target = "self"
        elif isinstance(rhs, ast.Call) and isinstance(rhs.func, ast.Subscript):
            target = "sml:" + ast.literal_eval(rhs.func.slice)
        elif isinstance(rhs, ast.Call) and G.P.dotted(rhs.func) in ("cls._from_value_float", "cls._from_value_int"):
            target = "fn:" + G.P.dotted(rhs.func).split(".")[1]
        else:
            raise G.P.Untranslatable(f"from_value: branch {ast.unparse(rhs)}")
        chain.append((pytype, target))
        nxt = node.orelse
        node = nxt[0] if len(nxt) == 1 and isinstance(nxt[0], ast.If) else None

    out = [G.HEADER.format(src="secsgem/secs/item_*.py (class attributes), item.py (from_value)"),
           "namespace SecsModel.Gen.ItemTypes\n",
           "/-- class attributes of one registered `Item` subclass; float bounds as binary64 bit patterns -/",
           "structure Row where", "  cls : String", "  base : String", "  hsms_type : Int", "  sml_type : String", "  bytes : Int",
           "  struct_code : String", "  is_float : Bool", "  min : Int", "  max : Int", "  encoding : String", "deriving DecidableEq, Repr, Inhabited\n"]
    for r in rows:
        out.append(f"def {r['cls']} : Row := ⟨{lstr(r['cls'])}, {lstr(r['base'])}, {lint(r['hsms_type'])}, {lstr(r['sml_type'])}, {lint(r['bytes'])}, "
                   f"{lstr(r['struct_code'])}, {'true' if r['is_float'] else 'false'}, {lint(r['min'])}, {lint(r['max'])}, {lstr(r['encoding'])}⟩")
    out.append("\n/-- registration order = definition order (`__init_subclass__` fills `_subclasses_by_sml/_by_hsms`) -/")
    out.append("def table : List Row := [" + ", ".join(r["cls"] for r in rows) + "]\n")
    out.append("/-- `_from_value_int`: SML types tried for `value >= 0`, for `value < 0`, and the fall-through type -/")
    out.append("def fromValueUnsigned : List String := [" + ", ".join(lstr(x) for x in uns) + "]")
    out.append("def fromValueSigned : List String := [" + ", ".join(lstr(x) for x in sig) + "]")
    out.append(f"def fromValueIntFallback : String := {lstr(fb_int)}")
    out.append("/-- `_from_value_float`: SML types tried in order, and the fall-through type -/")
    out.append("def fromValueFloat : List String := [" + ", ".join(lstr(x) for x in flts) + "]")
    out.append(f"def fromValueFloatFallback : String := {lstr(fb_float)}")
    out.append("/-- the `isinstance` chain of `Item.from_value` in source order: (python type, `self` | `sml` | `fn`, SML type or helper name) -/")
    out.append("def fromValueChain : List (String × String × String) := ["
               + ", ".join(f"({lstr(a)}, {lstr(b.split(':')[0])}, {lstr(b.split(':')[1] if ':' in b else '')})" for a, b in chain) + "]\n")
    out.append("end SecsModel.Gen.ItemTypes\n")
    G.write("ItemTypes", "\n".join(out))
    G.FACTS["ItemTypes"] = {"rows": rows, "fromValueUnsigned": uns, "fromValueSigned": sig, "fromValueIntFallback": fb_int,
                            "fromValueFloat": flts, "fromValueFloatFallback": fb_float, "fromValueChain": chain}


# ------------------------------------------------------------------------------------------- Jis8
def unit_Jis8():
    tree = G.parse("common/codec_jis_x_0201.py")
    name = "jis8_decoding_map"
    table = None

    def ev(node, env):
        v = G.const_fold(node)
        if isinstance(v, int):
            return v
        if isinstance(node, ast.Name) and node.id in env:
            return env[node.id]
        if isinstance(node, ast.BinOp):
            a, b = ev(node.left, env), ev(node.right, env)
            ops = {ast.Add: a + b, ast.Sub: a - b, ast.Mult: a * b}
            if type(node.op) in ops:
                return ops[type(node.op)]
        raise G.P.Untranslatable(f"jis8 map: expression {ast.unparse(node)}")

    def rng(node, env):
        if not (isinstance(node, ast.Call) and G.P.dotted(node.func) == "range" and 1 <= len(node.args) <= 2):
            raise G.P.Untranslatable(f"jis8 map: iterable {ast.unparse(node)}")
        a = [ev(x, env) for x in node.args]
        return range(*a)

    for st in tree.body:
        if isinstance(st, ast.Assign) and G.P.dotted(st.targets[0]) == name:
            call = st.value
            if not (isinstance(call, ast.Call) and G.P.dotted(call.func) == "codecs.make_identity_dict" and len(call.args) == 1):
                raise G.P.Untranslatable(f"jis8 map: initial value {ast.unparse(call)}")
            table = {i: i for i in rng(call.args[0], {})}
        elif isinstance(st, ast.Expr) and isinstance(st.value, ast.Call) and G.P.dotted(st.value.func) == name + ".update":
            d = st.value.args[0]
            if table is None or not isinstance(d, ast.Dict):
                raise G.P.Untranslatable("jis8 map: update argument")
            for k, v in zip(d.keys, d.values):
                table[ev(k, {})] = ev(v, {})
        elif isinstance(st, ast.For) and any(name in ast.unparse(x) for x in st.body):
            if table is None or not isinstance(st.target, ast.Name) or st.orelse:
                raise G.P.Untranslatable("jis8 map: loop shape")
            for i in rng(st.iter, {}):
                env = {st.target.id: i}
                for b in st.body:
                    if not (isinstance(b, ast.Assign) and isinstance(b.targets[0], ast.Subscript) and G.P.dotted(b.targets[0].value) == name):
                        raise G.P.Untranslatable(f"jis8 map: loop statement {ast.unparse(b)}")
                    table[ev(b.targets[0].slice, env)] = ev(b.value, env)
        elif name in ast.unparse(st) and not (isinstance(st, ast.Assign) and G.P.dotted(st.targets[0]) == "jis8_encoding_map") \
                and not isinstance(st, ast.FunctionDef):
            raise G.P.Untranslatable(f"jis8 map: unexpected statement {ast.unparse(st)[:60]}")
    # nothing but the one `make_encoding_map` assignment may touch the encoding map
    for st in tree.body:
        if isinstance(st, ast.FunctionDef):
            continue
        txt = ast.unparse(st)
        if "jis8_encoding_map" in txt and txt != "jis8_encoding_map = codecs.make_encoding_map(jis8_decoding_map)":
            raise G.P.Untranslatable(f"jis8 codec: the encoding map is modified after make_encoding_map: {txt[:60]}")
    if table is None:
        raise G.P.Untranslatable("jis8_decoding_map not found")
    # the encoding map must be the inverse built by codecs.make_encoding_map, and the codec functions plain charmap calls
    src = ast.unparse(tree)
    for needle in ("jis8_encoding_map = codecs.make_encoding_map(jis8_decoding_map)",
                   "codecs.charmap_encode(data, errors, jis8_encoding_map)", "codecs.charmap_decode(data, errors, jis8_decoding_map)"):
        if needle not in src:
            raise G.P.Untranslatable(f"jis8 codec: `{needle}` not found")
    keys = sorted(table)
    if keys != list(range(256)):
        raise G.P.Untranslatable(f"jis8 map: keys are not 0..255 ({len(keys)} keys)")
    rows = [table[i] for i in range(256)]
    body = ",\n  ".join(", ".join(str(x) for x in rows[i:i + 16]) for i in range(0, 256, 16))
    text = (G.HEADER.format(src="secsgem/common/codec_jis_x_0201.py (jis8_decoding_map)")
            + "namespace SecsModel.Gen.Jis8\n\n/-- `jis8_decoding_map`: entry `b` is the code point byte `b` decodes to -/\n"
            + "def table : List Nat := [\n  " + body + "]\n\nend SecsModel.Gen.Jis8\n")
    G.write("Jis8", text)
    G.FACTS["Jis8"] = {"overrides": {str(k): v for k, v in table.items() if k != v}}


UNITS = {"VarTypes": unit_VarTypes, "ItemTypes": unit_ItemTypes, "Jis8": unit_Jis8}
