"""Gen.BlockSend: how `Protocol.send_message` learns the fate of a queued block (C17).

Extracted by AST from `secsgem/common/block_send_info.py` (`BlockSendInfo.wait`, `BlockSendInfo.resolve`) and
`secsgem/common/protocol.py` (`Protocol.send_message`):
  * waitUnbounded        : `wait` calls `self._result_trigger.wait()` without a timeout and has no parameter besides `self`
  * waitReturnsSentOk    : `wait` returns exactly `self._result == BlockSendResult.SENT_OK`
  * resolveMapsBool      : `resolve(result)` stores SENT_OK if result else SENT_ERROR, then sets the trigger
  * sendWaitsEveryBlock  : `send_message` loops over `message.blocks`, queues a `BlockSendInfo`, and returns False iff
                           `not block_send_info.wait()` (no argument), True after the loop
The line model (`Model.SecsILine.appStep`) is exactly this: the application thread blocks until the slot is set and goes on only on `some true`.
"""
import ast

G = None


def _fn(cls, name):
    return next(i for i in cls.body if isinstance(i, ast.FunctionDef) and i.name == name)


def unit_BlockSend():
    tree = G.parse("common/block_send_info.py")
    cls = G.find_class(tree, "BlockSendInfo")
    wait = _fn(cls, "wait")
    body = [s for s in wait.body if not (isinstance(s, ast.Expr) and isinstance(s.value, ast.Constant))]
    wait_unbounded = (len(wait.args.args) == 1 and not wait.args.kwonlyargs and wait.args.vararg is None and wait.args.kwarg is None
                      and len(body) == 2 and ast.unparse(body[0]) == "self._result_trigger.wait()")
    returns_ok = len(body) >= 1 and isinstance(body[-1], ast.Return) and ast.unparse(body[-1].value) == "self._result == BlockSendResult.SENT_OK"
    resolve = _fn(cls, "resolve")
    rbody = [ast.unparse(s) for s in resolve.body if not (isinstance(s, ast.Expr) and isinstance(s.value, ast.Constant))]
    resolve_ok = rbody == ["self._result = BlockSendResult.SENT_OK if result else BlockSendResult.SENT_ERROR", "self._result_trigger.set()"]

    ptree = G.parse("common/protocol.py")
    pcls = G.find_class(ptree, "Protocol")
    send = _fn(pcls, "send_message")
    sbody = [s for s in send.body if not (isinstance(s, ast.Expr) and isinstance(s.value, ast.Constant))]
    send_ok = False
    if len(sbody) == 2 and isinstance(sbody[0], ast.For) and ast.unparse(sbody[0].iter) == "message.blocks" and ast.unparse(sbody[1]) == "return True":
        inner = [ast.unparse(s) for s in sbody[0].body]
        send_ok = inner == ["block_send_info = BlockSendInfo(block.encode())", "self._send_queue.put(block_send_info)",
                            "self._thread.trigger_receiver()", "if not block_send_info.wait():\n    return False"]

    def b(x):
        return "true" if x else "false"

    text = (G.HEADER.format(src="secsgem/common/block_send_info.py, secsgem/common/protocol.py")
            + "namespace SecsModel.Gen.BlockSend\n\n"
            + "/-- `BlockSendInfo.wait` waits on the result event without a timeout -/\n"
            + f"def waitUnbounded : Bool := {b(wait_unbounded)}\n"
            + "/-- `BlockSendInfo.wait` returns `self._result == BlockSendResult.SENT_OK` -/\n"
            + f"def waitReturnsSentOk : Bool := {b(returns_ok)}\n"
            + "/-- `BlockSendInfo.resolve(result)`: SENT_OK if result else SENT_ERROR, then the event is set -/\n"
            + f"def resolveMapsBool : Bool := {b(resolve_ok)}\n"
            + "/-- `Protocol.send_message`: per block queue + trigger + `if not block_send_info.wait(): return False`; `return True` after the loop -/\n"
            + f"def sendWaitsEveryBlock : Bool := {b(send_ok)}\n\n"
            + "end SecsModel.Gen.BlockSend\n")
    G.write("BlockSend", text)
    G.FACTS["BlockSend"] = {"waitUnbounded": wait_unbounded, "waitReturnsSentOk": returns_ok, "resolveMapsBool": resolve_ok, "sendWaitsEveryBlock": send_ok}


UNITS = {"BlockSend": unit_BlockSend}
