"""Gen.Catalogue and Gen.DataItems: the stream/function catalogue (both copies) and the data item table.

Gen.Catalogue
  * `py`   : one row per element of `secs_streams_functions` in `secs/functions/_all.py` (in list order), each resolved through
             the `from .sXXfYY import SecsSXXFYY` line to its class: `_stream`, `_function`, `_to_host`, `_to_equipment`,
             `_has_reply`, `_is_reply_required`, `_is_multi_block` (attributes a class does not set are taken from
             `SecsStreamFunction` in `base.py`, as Python would) and the `_data_format` text (`none` for `None`).
  * `yaml` : one row per top-level key `SxxFyy` of `secs/functions.yaml` (file order): `to_host`, `to_equipment`, `reply`,
             `reply_required`, `multi_block`, `structure`.  Parsed with PyYAML when the interpreter running gen.py has it,
             otherwise with the small line parser below (the file only uses `key: scalar`, `key: |`/`|-` blocks and
             `- key: value` lists); both give the same rows on the shipped file (checked once, see `_selftest`).
Gen.DataItems
  * `items` : one row per element of `secs_data_items` in `secs/data_items/_all.py`: class name, the `name` class attribute,
             `__type__`, `__allowedtypes__` (names of `variables.*` classes, in declared order), `__count__` (default from `DataItemBase`).
  * `moduleAttrs` : the names `getattr(secsgem.secs.data_items, n, None)` resolves: classes imported by `__init__.py`, the
             submodules those imports bind, and the module dunders CPython sets.

A class that is listed but cannot be found, or an attribute that is not a literal, is a broken tie (raise -> T-BREAK).
"""
import ast
import os
import re

G = None  # set by gen.py

FLAGS = ["_to_host", "_to_equipment", "_has_reply", "_is_reply_required", "_is_multi_block"]
YAML_FLAGS = ["to_host", "to_equipment", "reply", "reply_required", "multi_block"]


class Broken(Exception):
    pass


def lean_str(s: str) -> str:
    out = ['"']
    for ch in s:
        o = ord(ch)
        if ch == "\\":
            out.append("\\\\")
        elif ch == '"':
            out.append('\\"')
        elif ch == "\n":
            out.append("\\n")
        elif ch == "\r":
            out.append("\\r")
        elif ch == "\t":
            out.append("\\t")
        elif o < 32 or o == 127:
            out.append("\\x%02x" % o)
        elif o > 126:
            out.append("\\u{%x}" % o)
        else:
            out.append(ch)
    out.append('"')
    return "".join(out)


def lean_char(ch: str) -> str:
    o = ord(ch)
    if ch == "\\":
        return "'\\\\'"
    if ch == "'":
        return "'\\''"
    if ch == "\n":
        return "'\\n'"
    if ch == "\r":
        return "'\\r'"
    if ch == "\t":
        return "'\\t'"
    if o < 32 or o == 127:
        return "'\\x%02x'" % o
    if o > 126:
        return "'\\u{%x}'" % o
    return "'" + ch + "'"


def lean_cs(s: str) -> str:
    """a Python string as a Lean `List Char` literal (the kernel evaluates lists of characters quickly, `String` operations very slowly)"""
    return "[" + ", ".join(lean_char(c) for c in s) + "]"


def lean_bool(b) -> str:
    if b is True:
        return "true"
    if b is False:
        return "false"
    raise Broken(f"not a bool literal: {b!r}")


def imports_of(tree: ast.Module) -> dict:
    """name -> relative module, for `from .mod import Name` statements"""
    out = {}
    for node in tree.body:
        if isinstance(node, ast.ImportFrom) and node.level == 1 and node.module:
            for al in node.names:
                out[al.asname or al.name] = node.module
    return out


def list_assignment(tree: ast.Module, target: str) -> list:
    for node in tree.body:
        val = None
        if isinstance(node, ast.Assign) and len(node.targets) == 1 and isinstance(node.targets[0], ast.Name) and node.targets[0].id == target:
            val = node.value
        elif isinstance(node, ast.AnnAssign) and isinstance(node.target, ast.Name) and node.target.id == target:
            val = node.value
        if val is not None:
            if not isinstance(val, ast.List) or not all(isinstance(e, ast.Name) for e in val.elts):
                raise Broken(f"{target} is not a list of names")
            return [e.id for e in val.elts]
    raise Broken(f"{target} not found")


def raw_attrs(cls: ast.ClassDef) -> dict:
    """name -> value node of the class-level assignments"""
    out = {}
    for item in cls.body:
        if isinstance(item, ast.Assign) and len(item.targets) == 1 and isinstance(item.targets[0], ast.Name):
            out[item.targets[0].id] = item.value
        elif isinstance(item, ast.AnnAssign) and isinstance(item.target, ast.Name) and item.value is not None:
            out[item.target.id] = item.value
    return out


def literal(node, what):
    try:
        return ast.literal_eval(node)
    except Exception as exc:  # noqa: BLE001
        raise Broken(f"{what}: not a literal ({ast.unparse(node)[:60]})") from exc


# ------------------------------------------------------------------------------------------------ catalogue (python)
def py_rows():
    base = raw_attrs(G.find_class(G.parse("secs/functions/base.py"), "SecsStreamFunction"))
    tree = G.parse("secs/functions/_all.py")
    imps = imports_of(tree)
    rows = []
    for name in list_assignment(tree, "secs_streams_functions"):
        if name not in imps:
            raise Broken(f"{name}: listed in secs_streams_functions but not imported in _all.py")
        rel = f"secs/functions/{imps[name]}.py"
        if not os.path.exists(G.src(rel)):
            raise Broken(f"{name}: {rel} does not exist")
        cls = G.find_class(G.parse(rel), name)
        if [ast.unparse(b) for b in cls.bases] != ["SecsStreamFunction"]:
            raise Broken(f"{name}: bases {[ast.unparse(b) for b in cls.bases]} (only a direct SecsStreamFunction subclass is understood)")
        attrs = raw_attrs(cls)

        def get(attr, typ):
            node = attrs.get(attr, base.get(attr))
            if node is None:
                raise Broken(f"{name}.{attr}: not defined")
            v = literal(node, f"{name}.{attr}")
            if type(v) is not typ:
                raise Broken(f"{name}.{attr}: {v!r} is not {typ.__name__}")
            return v
        s, f = get("_stream", int), get("_function", int)
        if s < 0 or f < 0:
            raise Broken(f"{name}: negative stream/function")
        dfn = attrs.get("_data_format", base.get("_data_format"))
        df = literal(dfn, f"{name}._data_format")
        if df is not None and not isinstance(df, str):
            raise Broken(f"{name}._data_format: {type(df).__name__} (only SFDL text or None is understood)")
        rows.append({"cls": name, "stream": s, "function": f, "flags": [get(a, bool) for a in FLAGS], "data_format": df, "file": rel})
    return rows


# ------------------------------------------------------------------------------------------------ catalogue (yaml)
def yaml_scalar(text: str):
    t = text.strip()
    if t in ("True", "true"):
        return True
    if t in ("False", "false"):
        return False
    if len(t) >= 2 and t[0] == t[-1] and t[0] in "'\"":
        return t[1:-1]
    return t


def yaml_lines(text: str) -> dict:
    """Minimal parser for functions.yaml: top-level `KEY:` maps of `  key: scalar` / `  key: |` block scalars; anything else
    nested deeper (lists, sample data) is skipped.  Only the fields Gen.Catalogue needs are interpreted."""
    out = {}
    cur = None
    lines = text.split("\n")
    i = 0
    while i < len(lines):
        line = lines[i]
        i += 1
        if not line.strip() or line.lstrip().startswith("#"):
            continue
        m = re.match(r"^([A-Za-z0-9_]+):\s*$", line)
        if m:
            cur = out.setdefault(m.group(1), {})
            continue
        m = re.match(r"^  ([A-Za-z0-9_]+):(.*)$", line)
        if m and cur is not None:
            key, rest = m.group(1), m.group(2).strip()
            if rest in ("|", "|-", "|+", ">", ">-"):
                block = []
                while i < len(lines) and (not lines[i].strip() or lines[i].startswith("   ")):
                    block.append(lines[i])
                    i += 1
                while block and not block[-1].strip():
                    block.pop()
                ind = min((len(b) - len(b.lstrip()) for b in block if b.strip()), default=0)
                body = "\n".join(b[ind:] if b.strip() else "" for b in block)
                cur[key] = body + ("\n" if rest == "|" else "")
            elif rest == "":
                # nested collection: skip its lines
                while i < len(lines) and (not lines[i].strip() or lines[i].startswith("   ")):
                    i += 1
                cur[key] = None
            else:
                cur[key] = yaml_scalar(rest)
            continue
        if line.startswith(" "):
            continue  # continuation of something skipped
        raise Broken(f"functions.yaml line {i}: not understood: {line[:60]!r}")
    return out


def yaml_rows():
    path = G.src("secs/functions.yaml")
    with open(path, encoding="utf-8") as fh:
        text = fh.read()
    try:
        import yaml  # noqa: PLC0415
        data = yaml.safe_load(text)
        how = "PyYAML " + getattr(yaml, "__version__", "?")
    except ImportError:
        data = yaml_lines(text)
        how = "line parser"
    if not isinstance(data, dict):
        raise Broken("functions.yaml: top level is not a mapping")
    rows = []
    for key, val in data.items():
        m = re.fullmatch(r"S(\d+)F(\d+)", str(key))
        if not m or not isinstance(val, dict):
            raise Broken(f"functions.yaml: key {key!r}")
        flags = []
        for fl in YAML_FLAGS:
            if type(val.get(fl)) is not bool:
                raise Broken(f"functions.yaml {key}.{fl}: {val.get(fl)!r} is not a bool")
            flags.append(val[fl])
        st = val.get("structure")
        if st is not None and not isinstance(st, str):
            raise Broken(f"functions.yaml {key}.structure: {type(st).__name__}")
        rows.append({"cls": str(key), "stream": int(m.group(1)), "function": int(m.group(2)), "flags": flags, "data_format": st})
    return rows, how


def fn_row(r, prefix) -> str:
    df = "none" if r["data_format"] is None else f"some {prefix}_{r['cls']}"
    return (f'  ⟨{lean_cs(r["cls"])}, {r["stream"]}, {r["function"]}, ' + ", ".join(lean_bool(b) for b in r["flags"]) + f", {df}⟩")


def fmt_defs(rows, prefix) -> str:
    """one definition per structure text (a single list literal of all texts exceeds the elaborator's recursion depth)"""
    out = []
    for r in rows:
        if r["data_format"] is not None:
            out.append(f"def {prefix}_{r['cls']} : List Char := {lean_cs(r['data_format'])}")
    return "\n".join(out) + "\n"


def default_is_copy(rel: str, cls_name: str, param: str, source: str) -> bool:
    """In `cls_name.__init__` of `rel`: does the `if <param> is None:` branch bind `<param>` to a NEW list made from the module-level
    `source` (`source.copy()`, `list(source)`, `source[:]`, `[*source]`, a comprehension over it)?  False when it binds the list itself."""
    init = G.P.find_function(G.parse(rel), cls_name, "__init__")
    for node in ast.walk(init):
        if isinstance(node, ast.If) and isinstance(node.test, ast.Compare) and isinstance(node.test.left, ast.Name) and node.test.left.id == param \
                and len(node.test.ops) == 1 and isinstance(node.test.ops[0], ast.Is) and isinstance(node.test.comparators[0], ast.Constant) \
                and node.test.comparators[0].value is None:
            for st in node.body:
                if isinstance(st, ast.Assign) and len(st.targets) == 1 and isinstance(st.targets[0], ast.Name) and st.targets[0].id == param:
                    v = st.value
                    if isinstance(v, ast.Name):
                        if v.id == source:
                            return False
                        raise Broken(f"{cls_name}.__init__: default of {param} is {v.id}, not {source}")
                    txt = ast.unparse(v)
                    if txt in (f"{source}.copy()", f"list({source})", f"{source}[:]", f"[*{source}]", f"copy.copy({source})", f"copy({source})") \
                            or (isinstance(v, ast.ListComp) and len(v.generators) == 1 and ast.unparse(v.generators[0].iter) == source):
                        return True
                    raise Broken(f"{cls_name}.__init__: default of {param} not understood: {txt[:60]}")
    raise Broken(f"{cls_name}.__init__: no `if {param} is None:` default found")


CHUNKS = 4


def chunked(name: str, rows: list) -> str:
    """the table as CHUNKS pieces `name0 … name3` and their concatenation (obligations are proved per piece, in parallel modules)"""
    n = (len(rows) + CHUNKS - 1) // CHUNKS if rows else 1
    parts = [rows[i * n:(i + 1) * n] for i in range(CHUNKS)]
    out = [f"def {name}{i} : List Fn := [\n" + ",\n".join(p) + "]\n" for i, p in enumerate(parts)]
    out.append(f"def {name} : List Fn := " + " ++ ".join(f"{name}{i}" for i in range(CHUNKS)) + "\n")
    return "\n".join(out)


def unit_Catalogue():
    prow = py_rows()
    yrow, how = yaml_rows()
    copies_fn = default_is_copy("secs/functions/streams_functions.py", "StreamsFunctions", "functions", "secs_streams_functions")
    copies_di = default_is_copy("secs/data_items/data_items.py", "DataItems", "data_items", "secs_data_items")
    out = [G.HEADER.format(src="secsgem/secs/functions/_all.py, secsgem/secs/functions/sXXfYY.py, secsgem/secs/functions/base.py, secsgem/secs/functions.yaml"),
           "set_option maxRecDepth 100000\nnamespace SecsModel.Gen.Catalogue\n",
           "/-- one catalogued stream/function: the class attributes `_stream`, `_function`, `_to_host`, `_to_equipment`, `_has_reply`,",
           "`_is_reply_required`, `_is_multi_block`, `_data_format` (YAML: `to_host`, `to_equipment`, `reply`, `reply_required`, `multi_block`, `structure`) -/",
           "structure Fn where",
           "  cls : List Char",
           "  stream : Nat",
           "  function : Nat",
           "  toHost : Bool",
           "  toEquipment : Bool",
           "  hasReply : Bool",
           "  replyRequired : Bool",
           "  multiBlock : Bool",
           "  dataFormat : Option (List Char)",
           "deriving Repr, DecidableEq\n",
           fmt_defs(prow, "fmt"),
           "/-- `secs_streams_functions` (functions/_all.py), in list order -/",
           chunked("py", [fn_row(r, "fmt") for r in prow]),
           fmt_defs(yrow, "yfmt"),
           "/-- `functions.yaml`, in file order -/",
           chunked("yaml", [fn_row(r, "yfmt") for r in yrow]),
           "/-- `StreamsFunctions.__init__` gives every default container its OWN list (a copy of `secs_streams_functions`), so `update()`",
           "on one container cannot change the catalogue another container, or the module, sees -/",
           f"def containerCopiesCatalogue : Bool := {lean_bool(copies_fn)}\n",
           "/-- the same for `DataItems.__init__` and `secs_data_items` -/",
           f"def containerCopiesDataItems : Bool := {lean_bool(copies_di)}\n",
           "end SecsModel.Gen.Catalogue\n"]
    G.write("Catalogue", "\n".join(out))
    G.FACTS["Catalogue"] = {"py": [{k: v for k, v in r.items()} for r in prow], "yaml": yrow, "yaml_parser": how,
                            "container_copies": {"functions": copies_fn, "data_items": copies_di}}


# ------------------------------------------------------------------------------------------------ data items
MODULE_DUNDERS = ["__name__", "__package__", "__loader__", "__spec__", "__path__", "__file__", "__cached__", "__builtins__"]


def var_name(node, what) -> str:
    d = G.P.dotted(node)
    if not d or not d.startswith("variables."):
        raise Broken(f"{what}: {ast.unparse(node)[:60]} is not variables.<Class>")
    return d.split(".", 1)[1]


def unit_DataItems():
    base = raw_attrs(G.find_class(G.parse("secs/data_items/base.py"), "DataItemBase"))
    default_count = literal(base["__count__"], "DataItemBase.__count__")
    tree = G.parse("secs/data_items/_all.py")
    imps = imports_of(tree)
    rows = []
    for name in list_assignment(tree, "secs_data_items"):
        if name not in imps:
            raise Broken(f"{name}: listed in secs_data_items but not imported in _all.py")
        rel = f"secs/data_items/{imps[name]}.py"
        if not os.path.exists(G.src(rel)):
            raise Broken(f"{name}: {rel} does not exist")
        cls = G.find_class(G.parse(rel), name)
        if [ast.unparse(b) for b in cls.bases] != ["DataItemBase"]:
            raise Broken(f"{name}: bases {[ast.unparse(b) for b in cls.bases]}")
        attrs = raw_attrs(cls)
        if "__type__" not in attrs:
            raise Broken(f"{name}.__type__ not set")
        typ = var_name(attrs["__type__"], f"{name}.__type__")
        allowed = []
        if "__allowedtypes__" in attrs:
            node = attrs["__allowedtypes__"]
            if not isinstance(node, ast.List):
                raise Broken(f"{name}.__allowedtypes__ is not a list literal")
            allowed = [var_name(e, f"{name}.__allowedtypes__") for e in node.elts]
        if typ == "Dynamic" and "__allowedtypes__" not in attrs:
            raise Broken(f"{name}: Dynamic without __allowedtypes__")
        count = literal(attrs["__count__"], f"{name}.__count__") if "__count__" in attrs else default_count
        if type(count) is not int:
            raise Broken(f"{name}.__count__: {count!r}")
        nm = literal(attrs["name"], f"{name}.name") if "name" in attrs else name
        if not isinstance(nm, str):
            raise Broken(f"{name}.name: {nm!r}")
        rows.append({"cls": name, "name": nm, "type": typ, "allowed": allowed, "count": count, "file": rel})
    # what `getattr(secsgem.secs.data_items, n, None)` finds: names bound by the package __init__
    itree = G.parse("secs/data_items/__init__.py")
    classes, modules = [], []
    for node in itree.body:
        if isinstance(node, ast.ImportFrom):
            if node.level == 1 and node.module:
                if node.module not in modules:
                    modules.append(node.module)
                for al in node.names:
                    classes.append(al.asname or al.name)
            elif node.level == 1 and not node.module:
                for al in node.names:  # from . import x
                    modules.append(al.asname or al.name)
            elif node.module != "__future__":
                for al in node.names:
                    classes.append(al.asname or al.name)
        elif isinstance(node, ast.Import):
            for al in node.names:
                classes.append((al.asname or al.name).split(".")[0])
    # submodules imported indirectly (the imported modules' own relative imports bind further submodules on the package)
    seen = set(modules)
    todo = list(modules)
    while todo:
        m = todo.pop()
        p = G.src(f"secs/data_items/{m}.py")
        if not os.path.exists(p):
            raise Broken(f"data_items/__init__.py imports .{m} which does not exist")
        for node in G.parse(f"secs/data_items/{m}.py").body:
            if isinstance(node, ast.ImportFrom) and node.level == 1 and node.module and node.module not in seen:
                seen.add(node.module)
                modules.append(node.module)
                todo.append(node.module)
    # every other module file of the package: bound on the package as soon as anything imports it, and `import secsgem`
    # imports them all (`data_items.py` through functions/streams_functions.py, `_all.py` through that).  The harness
    # compares this list with the live `dir(secsgem.secs.data_items)`.
    for f in sorted(os.listdir(G.src("secs/data_items"))):
        if f.endswith(".py") and f != "__init__.py" and f[:-3] not in seen:
            seen.add(f[:-3])
            modules.append(f[:-3])
    dunders = list(MODULE_DUNDERS)
    if ast.get_docstring(itree) is not None:
        dunders.append("__doc__")
    for node in itree.body:
        if isinstance(node, ast.Assign):
            for t in node.targets:
                if isinstance(t, ast.Name):
                    dunders.append(t.id)
    attrs_all = []
    for n in classes + modules + dunders:
        if n not in attrs_all:
            attrs_all.append(n)

    def row(r):
        al = "[" + ", ".join(lean_cs(a) for a in r["allowed"]) + "]"
        return f'  ⟨{lean_cs(r["cls"])}, {lean_cs(r["name"])}, {lean_cs(r["type"])}, {al}, {r["count"]}⟩'
    out = [G.HEADER.format(src="secsgem/secs/data_items/_all.py, secsgem/secs/data_items/<item>.py, secsgem/secs/data_items/__init__.py, base.py"),
           "namespace SecsModel.Gen.DataItems\n",
           "/-- a data item class: `__name__`, its `name` attribute, `__type__`, `__allowedtypes__` (declared order), `__count__` -/",
           "structure Item where",
           "  cls : List Char",
           "  name : List Char",
           "  type : List Char",
           "  allowed : List (List Char)",
           "  count : Int",
           "deriving Repr, DecidableEq\n",
           "/-- `secs_data_items` (data_items/_all.py), in list order -/",
           "def items : List Item := [\n" + ",\n".join(row(r) for r in rows) + "]\n",
           "/-- every name `getattr(secsgem.secs.data_items, n, None)` resolves to something: the classes `__init__.py` imports,",
           "the submodules those imports bind on the package, the module dunders -/",
           "def moduleAttrs : List (List Char) := [" + ", ".join(lean_cs(a) for a in attrs_all) + "]\n",
           "/-- the names among `moduleAttrs` that are data item classes (imported by `__init__.py` and listed in `secs_data_items`) -/",
           "def moduleClasses : List (List Char) := [" + ", ".join(lean_cs(c) for c in classes if c in {r["cls"] for r in rows}) + "]\n",
           "end SecsModel.Gen.DataItems\n"]
    G.write("DataItems", "\n".join(out))
    G.FACTS["DataItems"] = {"items": rows, "module_attrs": attrs_all}


def _selftest():
    """both YAML readers give the same rows (run by hand: python3 tools/genunits/catalogue.py)"""
    import sys
    sys.path.insert(0, os.path.dirname(os.path.dirname(os.path.abspath(__file__))))
    import gen  # noqa: PLC0415
    global G
    G = gen
    import yaml  # noqa: PLC0415
    text = open(G.src("secs/functions.yaml"), encoding="utf-8").read()
    a = yaml.safe_load(text)
    b = yaml_lines(text)
    assert list(a) == list(b), "key order"
    for k in a:
        for fld in YAML_FLAGS + ["structure"]:
            assert a[k].get(fld) == b[k].get(fld), (k, fld, a[k].get(fld), b[k].get(fld))
    print("yaml readers agree on", len(a), "rows")


def lean_chars(s: str) -> str:
    return "[" + ", ".join("Char.ofNat %d" % ord(c) for c in s) + "]"


def unit_SfdlChars():
    """the four character classes of `SFDLTokenizer` (class attributes, string literals)"""
    attrs = raw_attrs(G.find_class(G.parse("secs/functions/sfdl_tokenizer.py"), "SFDLTokenizer"))
    vals = {}
    for a in ("whitespaces", "operators", "comment_start_chars", "comment_end_chars"):
        if a not in attrs:
            raise Broken(f"SFDLTokenizer.{a} not found")
        v = literal(attrs[a], f"SFDLTokenizer.{a}")
        if not isinstance(v, str):
            raise Broken(f"SFDLTokenizer.{a}: {v!r} is not a string")
        vals[a] = v
    out = [G.HEADER.format(src="secsgem/secs/functions/sfdl_tokenizer.py (SFDLTokenizer class attributes)"),
           "namespace SecsModel.Gen.SfdlChars\n",
           f"/-- `whitespaces = {vals['whitespaces']!r}` -/\ndef whitespaces : List Char := {lean_chars(vals['whitespaces'])}",
           f"/-- `operators = {vals['operators']!r}` -/\ndef operators : List Char := {lean_chars(vals['operators'])}",
           f"/-- `comment_start_chars = {vals['comment_start_chars']!r}` -/\ndef commentStart : List Char := {lean_chars(vals['comment_start_chars'])}",
           f"/-- `comment_end_chars = {vals['comment_end_chars']!r}` -/\ndef commentEnd : List Char := {lean_chars(vals['comment_end_chars'])}",
           "\nend SecsModel.Gen.SfdlChars\n"]
    G.write("SfdlChars", "\n".join(out))
    G.FACTS["SfdlChars"] = vals


def unit_SfdlKeys():
    """Which attribute the shape construction reads for a member's name/key (source text of the expressions):
    `Array.__init__` (`hasattr(data_format, X)` / `self.name = data_format.Y`), `DataItemBase.__init__` (`self.name = …`),
    `List._generate` (the key expression per `isinstance(item_value, Array|List|Base)` branch), `List.get_name_from_format`
    (what it returns for a leading string and otherwise), `List.__init__` (the default `self.name`)."""
    facts = {}
    # Array.__init__
    init = G.P.find_function(G.parse("secs/variables/array.py"), "Array", "__init__")
    found = None
    for node in ast.walk(init):
        if isinstance(node, ast.If):
            chain = node
            while chain is not None:
                t = chain.test
                if isinstance(t, ast.Call) and ast.unparse(t.func) == "hasattr" and len(t.args) == 2 and ast.unparse(t.args[0]) == "data_format":
                    tgt = [st for st in chain.body if isinstance(st, ast.Assign) and ast.unparse(st.targets[0]) == "self.name"]
                    if len(tgt) != 1:
                        raise Broken("Array.__init__: hasattr branch does not assign self.name once")
                    found = (literal(t.args[1], "Array.__init__ hasattr"), ast.unparse(tgt[0].value))
                nxt = chain.orelse
                chain = nxt[0] if len(nxt) == 1 and isinstance(nxt[0], ast.If) else None
    if found is None:
        raise Broken("Array.__init__: no `hasattr(data_format, …)` naming branch")
    facts["array_hasattr"], facts["array_name_expr"] = found
    # DataItemBase.__init__
    init = G.P.find_function(G.parse("secs/data_items/base.py"), "DataItemBase", "__init__")
    names = [ast.unparse(st.value) for st in init.body if isinstance(st, ast.Assign) and ast.unparse(st.targets[0]) == "self.name"]
    if len(names) != 1:
        raise Broken("DataItemBase.__init__: self.name is not assigned exactly once")
    facts["item_instance_name"] = names[0]
    # List._generate
    gen = G.P.find_function(G.parse("secs/variables/list_type.py"), "List", "_generate")
    keys = {}
    for node in ast.walk(gen):
        if isinstance(node, ast.If):
            chain = node
            while chain is not None:
                t = chain.test
                if isinstance(t, ast.Call) and ast.unparse(t.func) == "isinstance" and ast.unparse(t.args[0]) == "item_value":
                    subs = [st for st in chain.body if isinstance(st, ast.Assign) and isinstance(st.targets[0], ast.Subscript)
                            and ast.unparse(st.targets[0].value) == "result_data"]
                    if len(subs) != 1 or ast.unparse(subs[0].value) != "item_value":
                        raise Broken(f"List._generate: branch {ast.unparse(t)} does not file item_value once")
                    keys[ast.unparse(t.args[1])] = ast.unparse(subs[0].targets[0].slice)
                nxt = chain.orelse
                chain = nxt[0] if len(nxt) == 1 and isinstance(nxt[0], ast.If) else None
    for k in ("Array", "List", "Base"):
        if k not in keys:
            raise Broken(f"List._generate: no isinstance(item_value, {k}) branch")
    facts["generate_keys"] = [keys["Array"], keys["List"], keys["Base"]]
    # List.get_name_from_format / List.__init__
    gnf = G.P.find_function(G.parse("secs/variables/list_type.py"), "List", "get_name_from_format")
    rets = [ast.unparse(n.value) for n in sorted((n for n in ast.walk(gnf) if isinstance(n, ast.Return) and n.value is not None), key=lambda n: n.lineno)]
    facts["name_from_format_returns"] = rets
    linit = G.P.find_function(G.parse("secs/variables/list_type.py"), "List", "__init__")
    dn = [st.value for st in linit.body if isinstance(st, ast.Assign) and ast.unparse(st.targets[0]) == "self.name"]
    if len(dn) != 1:
        raise Broken("List.__init__: self.name default not found")
    facts["list_default_name"] = literal(dn[0], "List.__init__ self.name")
    out = [G.HEADER.format(src="secsgem/secs/variables/array.py, list_type.py, secsgem/secs/data_items/base.py (name/key expressions)"),
           "namespace SecsModel.Gen.SfdlKeys\n",
           "/-- `Array.__init__`: `elif hasattr(data_format, <this>):` -/",
           f"def arrayHasattr : List Char := {lean_cs(facts['array_hasattr'])}",
           "/-- … `self.name = <this>` -/",
           f"def arrayNameExpr : List Char := {lean_cs(facts['array_name_expr'])}",
           "/-- `DataItemBase.__init__`: `self.name = <this>` -/",
           f"def itemInstanceName : List Char := {lean_cs(facts['item_instance_name'])}",
           "/-- `List._generate`: the key under which an `Array`, a `List`, any other `Base` member is filed -/",
           "def generateKeys : List (List Char) := [" + ", ".join(lean_cs(k) for k in facts["generate_keys"]) + "]",
           "/-- `List.get_name_from_format`: the returned expressions, in source order -/",
           "def nameFromFormatReturns : List (List Char) := [" + ", ".join(lean_cs(k) for k in rets) + "]",
           "/-- `List.__init__`: the default `self.name` -/",
           f"def listDefaultName : List Char := {lean_cs(facts['list_default_name'])}",
           "\nend SecsModel.Gen.SfdlKeys\n"]
    G.write("SfdlKeys", "\n".join(out))
    G.FACTS["SfdlKeys"] = facts


UNITS = {"Catalogue": unit_Catalogue, "DataItems": unit_DataItems, "SfdlChars": unit_SfdlChars, "SfdlKeys": unit_SfdlKeys}

if __name__ == "__main__":
    _selftest()
