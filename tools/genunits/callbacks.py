"""Gen.Callbacks: which `_on_sXXfYY` stream/function callbacks each handler class inherits, the catalogue's (s, f) pairs,
and the registration / dispatch facts of the SECS and GEM handler layers that the C07 / C08 models consult.

Extracted by AST pattern matching (secsgem is never imported):
  * classes      : every class in gem/*.py and secs/handler.py with its base-class names (last dotted component)
  * defined      : methods named `_on_s<dd>f<dd>` in each class body -> (stream, function); the name must be exactly what
                   `SecsHandler._generate_sf_callback_name` produces (`f"s{stream:02d}f{function:02d}"`, checked too)
  * builtin      : union of `defined` over the class and all its ancestors (what `getattr(handler, "_on_" + name)` can find)
  * catalogue    : `_stream`, `_function` of every class listed in `secs_streams_functions` (secs/functions/_all.py)
  * streamsWithF0: streams of the catalogue that have a function 0 (the abort reply of `_handle_stream_function`)
  * unknownReply / abortFunction : the literals of `self.stream_function(9, 5)` / `self.stream_function(<stream>, 0)`
  * protocolHooks: `self._protocol.events.<event> += self.<method>` in SecsHandler/GemHandler.__init__
  * commWiring   : `self._communication_state.<state>.events.<enter|leave>.register(self.<method>)` in GemHandler.__init__
                   (state attribute replaced by the state's NAME)
  * dispatch     : per `if/elif self._communication_state.current == CommunicationState.<X>` branch of
                   GemHandler._on_message_received: does it call `_handle_stream_function`, `s1f13received`, `s1f14received`,
                   `communicationreqfail`
  * linkLossStates: states tested in `GemHandler.on_connection_closed` before `communicationfail()`
  * waiterRepliesOnly: the `_response_queues` lookup of `HsmsProtocol._on_connection_message_received` is guarded by
                   `message.header.function % 2 == 0`
"""
import ast
import glob
import os
import re

G = None

HANDLER_CLASSES = ["SecsHandler", "GemHandler", "GemHostHandler", "GemEquipmentHandler"]


def last(name):
    return name.split(".")[-1] if name else None


def self_attr_chain(node):
    d = G.P.dotted(node)
    return d if d and d.startswith("self.") else None


def scan_classes():
    classes = {}  # name -> (bases, [(s, f)], rel)
    files = sorted(glob.glob(G.src("gem/*.py"))) + [G.src("secs/handler.py")]
    for path in files:
        rel = os.path.relpath(path, G.src(""))
        tree = ast.parse(open(path, encoding="utf-8").read(), filename=rel)
        for node in tree.body:
            if not isinstance(node, ast.ClassDef):
                continue
            bases = [last(G.P.dotted(b)) for b in node.bases if G.P.dotted(b)]
            sfs = []
            for item in node.body:
                if isinstance(item, (ast.FunctionDef, ast.AsyncFunctionDef)):
                    m = re.fullmatch(r"_on_s(\d+)f(\d+)", item.name)
                    if m:
                        s, f = int(m.group(1)), int(m.group(2))
                        if item.name != f"_on_s{s:02d}f{f:02d}":
                            raise G.P.Untranslatable(f"{node.name}.{item.name}: not the canonical callback name _on_s{s:02d}f{f:02d}")
                        sfs.append((s, f))
            if node.name in classes:
                raise G.P.Untranslatable(f"class {node.name} defined twice ({rel}, {classes[node.name][2]})")
            classes[node.name] = (bases, sfs, rel)
    return classes


def ancestors(classes, name, seen=None):
    seen = seen if seen is not None else []
    if name in seen:
        return seen
    seen.append(name)
    for b in classes.get(name, ([], [], ""))[0]:
        ancestors(classes, b, seen)
    return seen


def check_name_format():
    """`SecsHandler._generate_sf_callback_name(stream, function)` must produce `s<2 digits>f<2 digits>`: decided semantically - the
    return expression (pure string formatting of the two parameters: f-string, `str.format` or `%`, any spelling) is evaluated
    on a table of (stream, function) pairs and compared with the names the `_on_sXXfYY` scan relies on."""
    fn = G.P.find_function(G.parse("secs/handler.py"), "SecsHandler", "_generate_sf_callback_name")
    body = [st for st in fn.body if not (isinstance(st, ast.Expr) and isinstance(st.value, ast.Constant))]
    params = [a.arg for a in fn.args.args if a.arg not in ("self", "cls")]
    ok = False
    if len(body) == 1 and isinstance(body[0], ast.Return) and body[0].value is not None and len(params) == 2:
        expr = body[0].value
        allowed = (ast.JoinedStr, ast.FormattedValue, ast.Constant, ast.Name, ast.Load, ast.Call, ast.Attribute, ast.BinOp, ast.Mod,
                   ast.Add, ast.Tuple, ast.keyword)
        pure = all(isinstance(n, allowed) for n in ast.walk(expr)) \
            and all(n.id in params for n in ast.walk(expr) if isinstance(n, ast.Name)) \
            and all(n.attr in ("format", "zfill", "rjust") for n in ast.walk(expr) if isinstance(n, ast.Attribute))
        if pure:
            code = compile(ast.Expression(expr), "<_generate_sf_callback_name>", "eval")
            table = [(0, 0), (1, 1), (1, 13), (2, 41), (9, 5), (10, 1), (64, 1), (99, 99), (100, 100), (127, 255), (7, 100), (100, 7)]
            try:
                ok = all(eval(code, {"__builtins__": {}}, {params[0]: st_, params[1]: fu}) == f"s{st_:02d}f{fu:02d}"  # noqa: S307
                         for st_, fu in table)
            except Exception:  # noqa: BLE001
                ok = False
    if not ok:
        raise G.P.Untranslatable("SecsHandler._generate_sf_callback_name does not produce s<stream:02d>f<function:02d>")
    # CallbackHandler.__contains__ / _call look the delegate up as "_on_" + name
    tree = G.parse("common/callbacks.py")
    for meth in ("__contains__", "_call"):
        fn = G.P.find_function(tree, "CallbackHandler", meth)
        found = False
        for n in ast.walk(fn):
            if isinstance(n, ast.BinOp) and isinstance(n.op, ast.Add) and isinstance(n.left, ast.Constant) and n.left.value == "_on_":
                found = True
        if not found:
            raise G.P.Untranslatable(f"CallbackHandler.{meth}: delegate prefix \"_on_\" + name not found")


def stream_function_literals(cls_tree, cls, meth):
    fn = G.P.find_function(cls_tree, cls, meth)
    out = []
    for n in ast.walk(fn):
        if isinstance(n, ast.Call) and G.P.dotted(n.func) == "self.stream_function" and len(n.args) == 2:
            out.append(tuple(a.value if isinstance(a, ast.Constant) else ast.unparse(a) for a in n.args))
    return out


def catalogue():
    tree = G.parse("secs/functions/_all.py")
    imports = {}
    for node in tree.body:
        if isinstance(node, ast.ImportFrom) and node.level == 1:
            for a in node.names:
                imports[a.asname or a.name] = node.module
    lst = None
    for node in tree.body:
        if isinstance(node, ast.Assign) and isinstance(node.targets[0], ast.Name) and node.targets[0].id == "secs_streams_functions":
            lst = node.value
    if not isinstance(lst, ast.List):
        raise G.P.Untranslatable("secs_streams_functions is not a list literal")
    rows = []
    for el in lst.elts:
        if not isinstance(el, ast.Name) or el.id not in imports:
            raise G.P.Untranslatable(f"secs_streams_functions element {ast.unparse(el)}")
        mod = imports[el.id]
        attrs = G.class_attrs(G.find_class(G.parse(f"secs/functions/{mod}.py"), el.id))
        s, f = attrs.get("_stream"), attrs.get("_function")
        if not isinstance(s, int) or not isinstance(f, int):
            raise G.P.Untranslatable(f"{el.id}: _stream/_function not integer literals")
        rows.append((s, f, bool(attrs.get("_is_reply_required", False)), bool(attrs.get("_has_reply", False))))
    return rows


def comm_state_names():
    """attribute -> NAME of the states built in CommunicationStateMachine.__init__"""
    init = G.P.find_function(G.parse("gem/communication_state_machine.py"), "CommunicationStateMachine", "__init__")
    out = {}
    for st in ast.walk(init):
        if isinstance(st, (ast.Assign, ast.AnnAssign)):
            tgt = st.targets[0] if isinstance(st, ast.Assign) else st.target
            val = st.value
            d = G.P.dotted(tgt)
            if d and d.startswith("self.") and isinstance(val, ast.Call) and G.P.dotted(val.func) in ("secsgem.common.State", "State"):
                out[d.split(".")[1]] = ast.literal_eval(val.args[1])
    return out


def hooks_and_wiring():
    proto, wiring = [], []
    names = comm_state_names()
    for rel, cls in (("secs/handler.py", "SecsHandler"), ("gem/handler.py", "GemHandler")):
        init = G.P.find_function(G.parse(rel), cls, "__init__")
        for st in ast.walk(init):
            # self._protocol.events.<event> += self.<method>
            if isinstance(st, ast.AugAssign) and isinstance(st.op, ast.Add):
                tgt, val = self_attr_chain(st.target), self_attr_chain(st.value)
                if tgt and val and tgt.startswith("self._protocol.events."):
                    proto.append((cls, tgt.split(".")[-1], val.split(".")[-1]))
            if isinstance(st, ast.Call) and isinstance(st.func, ast.Attribute) and st.func.attr == "register" and len(st.args) == 1:
                chain, val = self_attr_chain(st.func.value), self_attr_chain(st.args[0])
                if chain and val:
                    parts = chain.split(".")
                    if len(parts) == 5 and parts[1] == "_communication_state" and parts[3] == "events":
                        if parts[2] not in names:
                            raise G.P.Untranslatable(f"GemHandler.__init__: {chain} is not a state of CommunicationStateMachine")
                        wiring.append((names[parts[2]], parts[4], val.split(".")[-1]))
                    elif len(parts) == 4 and parts[1] == "_protocol" and parts[2] == "events":
                        proto.append((cls, parts[3], val.split(".")[-1]))
    return proto, wiring


def calls_in(nodes):
    out = set()
    for st in nodes:
        for n in ast.walk(st):
            if isinstance(n, ast.Call):
                d = G.P.dotted(n.func)
                if d:
                    out.add(d)
    return out


def state_test(test):
    """`self._communication_state.current == CommunicationState.<X>` -> X"""
    if isinstance(test, ast.Compare) and len(test.ops) == 1 and isinstance(test.ops[0], ast.Eq):
        if G.P.dotted(test.left) == "self._communication_state.current":
            d = G.P.dotted(test.comparators[0])
            if d and d.startswith("CommunicationState."):
                return d.split(".")[1]
    return None


def dispatch_table():
    fn = G.P.find_function(G.parse("gem/handler.py"), "GemHandler", "_on_message_received")
    body = [st for st in fn.body if not (isinstance(st, ast.Expr) and isinstance(st.value, ast.Constant))]
    ifs = [st for st in body if isinstance(st, ast.If)]
    others = [st for st in body if not isinstance(st, (ast.If, ast.Assign))]
    if len(ifs) != 1 or others:
        raise G.P.Untranslatable("GemHandler._on_message_received: expected assignments followed by one if/elif chain")
    rows = []
    node = ifs[0]
    while True:
        st = state_test(node.test)
        if st is None:
            raise G.P.Untranslatable(f"GemHandler._on_message_received: branch condition {ast.unparse(node.test)[:80]}")
        calls = calls_in(node.body)
        rows.append((st, "self._handle_stream_function" in calls, "self._communication_state.s1f13received" in calls,
                     "self._communication_state.s1f14received" in calls, "self._communication_state.communicationreqfail" in calls))
        if len(node.orelse) == 1 and isinstance(node.orelse[0], ast.If):
            node = node.orelse[0]
        elif not node.orelse:
            break
        else:
            raise G.P.Untranslatable("GemHandler._on_message_received: trailing else branch")
    # on_connection_closed: `if self._communication_state.current == CommunicationState.X: ... communicationfail()`
    fn = G.P.find_function(G.parse("gem/handler.py"), "GemHandler", "on_connection_closed")
    loss = []
    for st in fn.body:
        if isinstance(st, ast.If):
            x = state_test(st.test)
            if x and "self._communication_state.communicationfail" in calls_in(st.body):
                loss.append(x)
    # _on_disconnected forwards to on_connection_closed
    fn = G.P.find_function(G.parse("gem/handler.py"), "GemHandler", "_on_disconnected")
    fwd = "self.on_connection_closed" in calls_in(fn.body)
    fn = G.P.find_function(G.parse("gem/handler.py"), "GemHandler", "_on_communicating")
    sel = "self._communication_state.select" in calls_in(fn.body)
    return rows, loss, fwd, sel


def waiter_replies_only():
    """hsms/protocol.py `_on_connection_message_received`: is the lookup in `_response_queues` guarded by
    `message.header.function % 2 == 0` (only a reply can belong to an open transaction of ours)?"""
    fn = G.P.find_function(G.parse("hsms/protocol.py"), "HsmsProtocol", "_on_connection_message_received")
    uses_queue = any(G.P.dotted(n) == "self._response_queues" for n in ast.walk(fn))
    if not uses_queue:
        raise G.P.Untranslatable("HsmsProtocol._on_connection_message_received: no use of self._response_queues")
    for n in ast.walk(fn):
        if isinstance(n, ast.Compare) and len(n.ops) == 1 and isinstance(n.ops[0], ast.Eq) and isinstance(n.left, ast.BinOp) \
                and isinstance(n.left.op, ast.Mod) and G.P.dotted(n.left.left) == "message.header.function" \
                and isinstance(n.left.right, ast.Constant) and n.left.right.value == 2 \
                and isinstance(n.comparators[0], ast.Constant) and n.comparators[0].value == 0:
            return True
    return False


def registered_first():
    """common/callbacks.py `CallbackHandler._call`: the first statement is
    `if callback in self._callbacks: return self._callbacks[callback](...)` — a registered callback wins over the target's
    `_on_<name>` method; `__contains__` accepts either."""
    tree = G.parse("common/callbacks.py")
    fn = G.P.find_function(tree, "CallbackHandler", "_call")
    body = [st for st in fn.body if not (isinstance(st, ast.Expr) and isinstance(st.value, ast.Constant))]
    first = body[0] if body else None
    ok = False
    if isinstance(first, ast.If) and isinstance(first.test, ast.Compare) and len(first.test.ops) == 1 and isinstance(first.test.ops[0], ast.In) \
            and G.P.dotted(first.test.comparators[0]) == "self._callbacks" and first.body and isinstance(first.body[0], ast.Return):
        call = first.body[0].value
        ok = isinstance(call, ast.Call) and isinstance(call.func, ast.Subscript) and G.P.dotted(call.func.value) == "self._callbacks"
    # `__contains__`: registered or delegate
    cfn = G.P.find_function(tree, "CallbackHandler", "__contains__")
    either = any(isinstance(n, ast.Compare) and isinstance(n.ops[0], ast.In) and G.P.dotted(n.comparators[0]) == "self._callbacks" for n in ast.walk(cfn)) \
        and any(isinstance(n, ast.Call) and G.P.dotted(n.func) == "getattr" for n in ast.walk(cfn))
    return ok, either


def send_put_before_trigger():
    """common/protocol.py `Protocol.send_message`: inside the loop over the blocks the block is put into the send queue BEFORE
    the receiver thread is triggered (the other order loses the wake-up: the protocol thread may run, find the queue empty and
    go back to sleep while the block arrives)."""
    fn = G.P.find_function(G.parse("common/protocol.py"), "Protocol", "send_message")
    loops = [st for st in fn.body if isinstance(st, ast.For)]
    if len(loops) != 1:
        raise G.P.Untranslatable("Protocol.send_message: expected one for loop over the blocks")
    put = trig = None
    for i, st in enumerate(loops[0].body):
        for n in ast.walk(st):
            if isinstance(n, ast.Call):
                d = G.P.dotted(n.func)
                if d == "self._send_queue.put" and put is None:
                    put = i
                if d == "self._thread.trigger_receiver" and trig is None:
                    trig = i
    if put is None or trig is None:
        raise G.P.Untranslatable("Protocol.send_message: `self._send_queue.put` / `self._thread.trigger_receiver` not found in the loop")
    return put < trig


def settings_plain_get():
    """common/settings.py / common/timeouts.py: every duration the communication state machine reads is taken from the keyword
    arguments with `kwargs.get(<name>, <default>)` and nothing else (no truthiness fallback such as `... or default`: 0 is a value)"""
    init = G.P.find_function(G.parse("common/settings.py"), "Settings", "__init__")
    delay_ok, delay_default = False, None
    for st in init.body:
        if isinstance(st, ast.Assign) and G.P.dotted(st.targets[0]) == "self._establish_communication_timeout":
            v = st.value
            if isinstance(v, ast.Call) and G.P.dotted(v.func) == "kwargs.get" and len(v.args) == 2 and isinstance(v.args[0], ast.Constant) \
                    and v.args[0].value == "establish_communication_timeout" and isinstance(v.args[1], ast.Constant) and not v.keywords:
                delay_ok, delay_default = True, v.args[1].value
    if delay_default is None:
        delay_default = 0
    ttree = G.parse("common/timeouts.py")
    tinit = G.P.find_function(ttree, "Timeouts", "__init__")
    t_ok = False
    for n in ast.walk(tinit):
        if isinstance(n, ast.Assign) and isinstance(n.targets[0], ast.Subscript) and G.P.dotted(n.targets[0].value) == "self._data":
            t_ok = ast.unparse(n.targets[0].slice) == "timeout.name" and ast.unparse(n.value) == "kwargs.get(timeout.name, timeout.default)"
    # the machine reads them when the state is entered
    cinit = G.parse("gem/communication_state_machine.py")
    reads = []
    for meth, want in (("_on_state_wait_cra", "self._settings.timeouts.t3"), ("_on_state_wait_delay", "self._settings.establish_communication_timeout")):
        fn = G.P.find_function(cinit, "CommunicationStateMachine", meth)
        timers = [n for n in ast.walk(fn) if isinstance(n, ast.Call) and G.P.dotted(n.func) == "threading.Timer"]
        reads.append(len(timers) == 1 and len(timers[0].args) >= 1 and G.P.dotted(timers[0].args[0]) == want)
    return delay_ok, int(delay_default), t_ok, all(reads)


def settings_accessors_plain():
    """the public property `Settings.establish_communication_timeout`: the getter returns the stored attribute, the setter stores
    the value it is given (no conversion: 0.8 s stays 0.8 s); `Timeouts` returns `self._data[name]` and defines no `__setattr__`"""
    cls = G.find_class(G.parse("common/settings.py"), "Settings")
    getter = setter = False
    for item in cls.body:
        if isinstance(item, ast.FunctionDef) and item.name == "establish_communication_timeout":
            body = [st for st in item.body if not (isinstance(st, ast.Expr) and isinstance(st.value, ast.Constant))]
            decos = [ast.unparse(d) for d in item.decorator_list]
            if decos == ["property"]:
                getter = len(body) == 1 and ast.unparse(body[0]) == "return self._establish_communication_timeout"
            elif decos == ["establish_communication_timeout.setter"]:
                arg = item.args.args[1].arg if len(item.args.args) == 2 else None
                setter = len(body) == 1 and ast.unparse(body[0]) == f"self._establish_communication_timeout = {arg}"
    tcls = G.find_class(G.parse("common/timeouts.py"), "Timeouts")
    names = [i.name for i in tcls.body if isinstance(i, ast.FunctionDef)]
    ga = next((i for i in tcls.body if isinstance(i, ast.FunctionDef) and i.name == "__getattr__"), None)
    t_plain = "__setattr__" not in names and "__getattribute__" not in names and ga is not None \
        and isinstance(ga.body[-1], ast.Return) and ast.unparse(ga.body[-1].value) == "self._data[name]"
    return getter, setter, t_plain


def enable_disable_order():
    """gem/handler.py: `GemHandler.enable` enables the communication state machine BEFORE the protocol (a transport may bring
    the link up from inside `protocol.enable()`: the `communicating` event must find the machine enabled), `disable` disables the
    protocol first, then the machine"""
    tree = G.parse("gem/handler.py")

    def order(meth):
        fn = G.P.find_function(tree, "GemHandler", meth)
        calls = []
        for st in fn.body:
            if isinstance(st, ast.Expr) and isinstance(st.value, ast.Call):
                d = G.P.dotted(st.value.func)
                if d in (f"self._communication_state.{meth}", f"self.protocol.{meth}"):
                    calls.append(d.split(".")[1])
        return calls
    return order("enable") == ["_communication_state", "protocol"], order("disable") == ["protocol", "_communication_state"]


def lean_pairs(ps):
    return "[" + ", ".join(f"({s}, {f})" for s, f in ps) + "]"


def lean_strs(xs):
    return "[" + ", ".join(f'"{x}"' for x in xs) + "]"


def unit_Callbacks():
    check_name_format()
    classes = scan_classes()
    for c in HANDLER_CLASSES:
        if c not in classes:
            raise G.P.Untranslatable(f"class {c} not found")
    cat = catalogue()
    htree = G.parse("secs/handler.py")
    unk = stream_function_literals(htree, "SecsHandler", "_handle_unknown_functions")
    ab = stream_function_literals(htree, "SecsHandler", "_handle_stream_function")
    if len(unk) != 1 or not all(isinstance(x, int) for x in unk[0]):
        raise G.P.Untranslatable(f"_handle_unknown_functions: expected one self.stream_function(<int>, <int>) call, found {unk}")
    if len(ab) != 1 or ab[0][0] != "message.header.stream" or not isinstance(ab[0][1], int):
        raise G.P.Untranslatable(f"_handle_stream_function: expected self.stream_function(message.header.stream, <int>), found {ab}")
    proto, wiring = hooks_and_wiring()
    rows, loss, fwd, sel = dispatch_table()

    names = sorted(classes)
    builtin = {c: sorted({sf for a in ancestors(classes, c) for sf in classes.get(a, ([], [], ""))[1]}) for c in names}
    out = [G.HEADER.format(src="gem/*.py, secs/handler.py, common/callbacks.py, secs/functions/_all.py + sXXfYY.py"),
           "namespace SecsModel.Gen.Callbacks\n",
           "/-- (class, base classes) of every class of gem/*.py and secs/handler.py -/",
           "def classes : List (String × List String) := [\n    " + ",\n    ".join(f'("{c}", {lean_strs(classes[c][0])})' for c in names) + "]\n",
           "/-- `_on_sXXfYY` methods written in the class body, as (stream, function) -/",
           "def defined : List (String × List (Nat × Nat)) := [\n    "
           + ",\n    ".join(f'("{c}", {lean_pairs(classes[c][1])})' for c in names if classes[c][1]) + "]\n",
           "/-- `_on_sXXfYY` methods the class has or inherits (what `CallbackHandler.__contains__`'s `getattr(target, \"_on_\" + name)` finds) -/"]
    for c in HANDLER_CLASSES:
        out.append(f"def builtin{c} : List (Nat × Nat) := {lean_pairs(builtin[c])}")
    out.append("\n/-- (stream, function) of every class in `secs_streams_functions` (secs/functions/_all.py), in list order -/")
    out.append("def catalogue : List (Nat × Nat) := [\n    " + ",\n    ".join(
        ", ".join(f"({s}, {f})" for s, f, _, _ in cat[i:i + 12]) for i in range(0, len(cat), 12)) + "]\n")
    out.append("/-- catalogue rows with `_is_reply_required = True` -/")
    req = [(s, f) for s, f, r, _ in cat if r]
    out.append("def replyRequired : List (Nat × Nat) := [\n    " + ",\n    ".join(
        ", ".join(f"({s}, {f})" for s, f in req[i:i + 12]) for i in range(0, len(req), 12)) + "]\n")
    out.append("/-- streams that have a function 0 in the catalogue -/")
    out.append("def streamsWithF0 : List Nat := [" + ", ".join(str(s) for s in sorted({s for s, f, _, _ in cat if f == 0})) + "]\n")
    out.append("/-- `_handle_unknown_functions`: `self.stream_function(9, 5)` -/")
    out.append(f"def unknownReply : Nat × Nat := ({unk[0][0]}, {unk[0][1]})")
    out.append("/-- `_handle_stream_function`: `self.stream_function(message.header.stream, 0)` -/")
    out.append(f"def abortFunction : Nat := {ab[0][1]}\n")
    out.append("/-- `self._protocol.events.<event> += self.<method>` in `SecsHandler.__init__` / `GemHandler.__init__`: (class, event, method) -/")
    out.append("def protocolHooks : List (String × String × String) := [" + ", ".join(f'("{c}", "{e}", "{m}")' for c, e, m in proto) + "]\n")
    out.append("/-- `self._communication_state.<state>.events.<ev>.register(self.<method>)` in `GemHandler.__init__` -/")
    out.append("def commWiring : List (String × String × String) := [" + ", ".join(f'("{s}", "{e}", "{m}")' for s, e, m in wiring) + "]\n")
    out.append("/-- branches of `GemHandler._on_message_received`: (state, calls `_handle_stream_function`, `s1f13received`, `s1f14received`, `communicationreqfail`) -/")
    out.append("def dispatch : List (String × Bool × Bool × Bool × Bool) := [\n    " + ",\n    ".join(
        f'("{s}", {str(a).lower()}, {str(b).lower()}, {str(c).lower()}, {str(d).lower()})' for s, a, b, c, d in rows) + "]\n")
    out.append("/-- states in which `GemHandler.on_connection_closed` performs `communicationfail` -/")
    out.append(f"def linkLossStates : List String := {lean_strs(loss)}")
    out.append("/-- `GemHandler._on_disconnected` calls `on_connection_closed`; `_on_communicating` calls `select()` -/")
    out.append(f"def disconnectedForwards : Bool := {str(fwd).lower()}")
    out.append(f"def communicatingSelects : Bool := {str(sel).lower()}\n")
    reg_first, either = registered_first()
    out.append("/-- `CallbackHandler._call` tries the registered callback first, then the target's `_on_<name>`; `__contains__` accepts either -/")
    out.append(f"def registeredFirst : Bool := {str(reg_first).lower()}")
    out.append(f"def containsEither : Bool := {str(either).lower()}\n")
    # `_handle_stream_function`: the only condition in front of the callback is the `not in self._callback_handler` test
    hfn = G.P.find_function(htree, "SecsHandler", "_handle_stream_function")
    ifs = [st for st in hfn.body if isinstance(st, ast.If)]
    only_contains = len(ifs) == 1 and isinstance(ifs[0].test, ast.Compare) and isinstance(ifs[0].test.ops[0], ast.NotIn) \
        and G.P.dotted(ifs[0].test.comparators[0]) == "self._callback_handler"
    out.append("/-- `_handle_stream_function` goes to `_handle_unknown_functions` exactly when the name is `not in self._callback_handler` (no other condition) -/")
    out.append(f"def unknownIffNoCallback : Bool := {str(only_contains).lower()}\n")
    d_ok, d_def, t_ok, reads = settings_plain_get()
    out.append("/-- `Settings.__init__`: `kwargs.get(\"establish_communication_timeout\", <default>)`, nothing else; `Timeouts.__init__`:")
    out.append("`kwargs.get(timeout.name, timeout.default)`; the two timer handlers pass `settings.timeouts.t3` resp.")
    out.append("`settings.establish_communication_timeout`, read when the state is entered, to `threading.Timer` -/")
    out.append(f"def establishDelayPlainGet : Bool := {str(d_ok).lower()}")
    out.append(f"def establishDelayDefault : Nat := {d_def}")
    out.append(f"def timeoutsPlainGet : Bool := {str(t_ok).lower()}")
    out.append(f"def timersReadSettings : Bool := {str(reads).lower()}\n")
    g_ok, s_ok, tp_ok = settings_accessors_plain()
    out.append("/-- the property `Settings.establish_communication_timeout`: getter = plain read, setter = plain store of the value given;")
    out.append("`Timeouts.__getattr__` returns `self._data[name]`, no `__setattr__` -/")
    out.append(f"def establishDelayGetterPlain : Bool := {str(g_ok).lower()}")
    out.append(f"def establishDelaySetterPlain : Bool := {str(s_ok).lower()}")
    out.append(f"def timeoutsAccessPlain : Bool := {str(tp_ok).lower()}\n")
    en_ok, dis_ok = enable_disable_order()
    out.append("/-- `GemHandler.enable`: communication state machine first, then the protocol; `disable`: protocol first, then the machine -/")
    out.append(f"def enableStateMachineFirst : Bool := {str(en_ok).lower()}")
    out.append(f"def disableProtocolFirst : Bool := {str(dis_ok).lower()}\n")
    spt = send_put_before_trigger()
    out.append("/-- `Protocol.send_message`: the block is queued before the protocol thread is triggered -/")
    out.append(f"def sendPutBeforeTrigger : Bool := {str(spt).lower()}\n")
    wro = waiter_replies_only()
    out.append("/-- `HsmsProtocol._on_connection_message_received`: only an even function (a reply) is looked up in `_response_queues` -/")
    out.append(f"def waiterRepliesOnly : Bool := {str(wro).lower()}\n")
    out.append("end SecsModel.Gen.Callbacks\n")
    G.write("Callbacks", "\n".join(out))
    G.FACTS["Callbacks"] = {"builtin": {c: builtin[c] for c in HANDLER_CLASSES}, "catalogue": [(s, f) for s, f, _, _ in cat],
                            "replyRequired": req, "streamsWithF0": sorted({s for s, f, _, _ in cat if f == 0}),
                            "unknownReply": list(unk[0]), "abortFunction": ab[0][1], "protocolHooks": proto, "commWiring": wiring,
                            "dispatch": rows, "linkLossStates": loss, "waiterRepliesOnly": wro, "sendPutBeforeTrigger": spt, "establishDelayPlainGet": d_ok, "establishDelayDefault": d_def,
                            "timeoutsPlainGet": t_ok, "timersReadSettings": reads,
                            "establishDelayGetterPlain": g_ok, "establishDelaySetterPlain": s_ok, "timeoutsAccessPlain": tp_ok,
                            "enableStateMachineFirst": en_ok, "disableProtocolFirst": dis_ok, "registeredFirst": reg_first,
                            "containsEither": either, "unknownIffNoCallback": only_contains}


UNITS = {"Callbacks": unit_Callbacks}
