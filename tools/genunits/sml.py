"""Gen.Sml: the constants the SML printer/tokenizer/parser are built from (C15).

  * secs/sml.py            SMLParser.whitespaces / operators / literal_delimiter          (string literals)
  * secs/item_str.py       ItemStr / ItemJ / ItemA `.printable_chars`                        (expression over `string.<const>`, `.replace`, `+`)
  * secs/item_*.py         every class with a non-empty `_sml_type`: name, kind, `_minimum_value`, `_maximum_value`, `_type`
  * secs/item.py           the list-terminator literal of `_read_items` (`… not in ">."`) and the open/close literals of `_read_item`/`_read_length`
  * common/codec_jis_x_0201.py  jis8_decoding_map (identity dict, one `.update({…})`, one `for i in range(a, b): map[i] = i + c`)
All characters are emitted as code points.  Anything that does not have the expected shape is a broken tie (T-BREAK Sml).
"""
import ast
import string
import struct

G = None  # set by gen.py


def ev_str(node, env=None):
    """evaluate a str expression built from literals, `string.<name>`, `+` and `.replace(lit, lit)`"""
    if isinstance(node, ast.Constant) and isinstance(node.value, str):
        return node.value
    if isinstance(node, ast.Attribute) and isinstance(node.value, ast.Name) and node.value.id == "string" and hasattr(string, node.attr) \
            and isinstance(getattr(string, node.attr), str):
        return getattr(string, node.attr)
    if isinstance(node, ast.BinOp) and isinstance(node.op, ast.Add):
        return ev_str(node.left) + ev_str(node.right)
    if isinstance(node, ast.Call) and isinstance(node.func, ast.Attribute) and node.func.attr == "replace" and len(node.args) == 2 and not node.keywords:
        return ev_str(node.func.value).replace(ev_str(node.args[0]), ev_str(node.args[1]))
    raise G.P.Untranslatable(f"string expression {ast.unparse(node)[:80]}")


def class_assign(cls, name):
    for item in cls.body:
        if isinstance(item, ast.Assign) and len(item.targets) == 1 and isinstance(item.targets[0], ast.Name) and item.targets[0].id == name:
            return item.value
        if isinstance(item, ast.AnnAssign) and isinstance(item.target, ast.Name) and item.target.id == name and item.value is not None:
            return item.value
    return None


def cps(s):
    return "[" + ", ".join(str(ord(c)) for c in s) + "]"


def num(node):
    """int / float literal, possibly negated; floats come back as ('f', bits of the binary64)"""
    neg = False
    if isinstance(node, ast.UnaryOp) and isinstance(node.op, ast.USub):
        neg, node = True, node.operand
    if isinstance(node, ast.Constant) and isinstance(node.value, bool):
        raise G.P.Untranslatable("bool bound")
    if isinstance(node, ast.Constant) and isinstance(node.value, int):
        return -node.value if neg else node.value
    if isinstance(node, ast.Constant) and isinstance(node.value, float):
        v = -node.value if neg else node.value
        return ("f", struct.unpack(">Q", struct.pack(">d", v))[0])
    raise G.P.Untranslatable(f"numeric bound {ast.unparse(node)[:60]}")


def jis_map():
    tree = G.parse("common/codec_jis_x_0201.py")
    m = None
    for st in tree.body:
        if isinstance(st, ast.Assign) and len(st.targets) == 1 and isinstance(st.targets[0], ast.Name) and st.targets[0].id == "jis8_decoding_map":
            v = st.value
            ok = (isinstance(v, ast.Call) and G.P.dotted(v.func) == "codecs.make_identity_dict" and len(v.args) == 1
                  and isinstance(v.args[0], ast.Call) and G.P.dotted(v.args[0].func) == "range" and len(v.args[0].args) == 1)
            if not ok:
                raise G.P.Untranslatable("jis8_decoding_map is not codecs.make_identity_dict(range(n))")
            m = {i: i for i in range(ast.literal_eval(v.args[0].args[0]))}
        elif isinstance(st, ast.Expr) and isinstance(st.value, ast.Call) and G.P.dotted(st.value.func) == "jis8_decoding_map.update":
            if m is None or len(st.value.args) != 1 or not isinstance(st.value.args[0], ast.Dict):
                raise G.P.Untranslatable("jis8_decoding_map.update argument")
            for k, v in zip(st.value.args[0].keys, st.value.args[0].values):
                m[ast.literal_eval(k)] = ast.literal_eval(v)
        elif isinstance(st, ast.For):
            tgt, it = st.target, st.iter
            if not (m is not None and isinstance(tgt, ast.Name) and isinstance(it, ast.Call) and G.P.dotted(it.func) == "range" and len(it.args) == 2
                    and len(st.body) == 1 and isinstance(st.body[0], ast.Assign)):
                raise G.P.Untranslatable("for-loop over jis8_decoding_map has an unexpected shape")
            asg = st.body[0]
            sub = asg.targets[0]
            ok = (isinstance(sub, ast.Subscript) and G.P.dotted(sub.value) == "jis8_decoding_map" and isinstance(sub.slice, ast.Name) and sub.slice.id == tgt.id
                  and isinstance(asg.value, ast.BinOp) and isinstance(asg.value.op, ast.Add) and isinstance(asg.value.left, ast.Name)
                  and asg.value.left.id == tgt.id)
            if not ok:
                raise G.P.Untranslatable("for-loop body over jis8_decoding_map has an unexpected shape")
            off = ast.literal_eval(asg.value.right)
            for i in range(ast.literal_eval(it.args[0]), ast.literal_eval(it.args[1])):
                m[i] = i + off
    if m is None or sorted(m) != list(range(256)):
        raise G.P.Untranslatable("jis8_decoding_map not found / not total on 0..255")
    return [m[i] for i in range(256)]


def unit_Sml():
    out = [G.HEADER.format(src="secs/sml.py, secs/item*.py, common/codec_jis_x_0201.py"), "\nnamespace SecsModel.Gen.Sml\n"]
    facts = {}
    # tokenizer classes
    parser = G.find_class(G.parse("secs/sml.py"), "SMLParser")
    for attr, lean in (("whitespaces", "whitespaces"), ("operators", "operators"), ("literal_delimiter", "literalDelimiter")):
        node = class_assign(parser, attr)
        if node is None:
            raise G.P.Untranslatable(f"SMLParser.{attr} missing")
        val = ev_str(node)
        out.append(f"/-- `SMLParser.{attr}` -/\ndef {lean} : List Nat := {cps(val)}\n")
        facts[attr] = [ord(c) for c in val]
    # printable_chars of the three string classes
    tree = G.parse("secs/item_str.py")
    base = None
    for cname in ("ItemStr", "ItemJ", "ItemA"):
        node = class_assign(G.find_class(tree, cname), "printable_chars")
        if node is None:
            if base is None:
                raise G.P.Untranslatable(f"{cname}.printable_chars missing")
            val = base
        else:
            val = ev_str(node)
        if cname == "ItemStr":
            base = val
        out.append(f"/-- `{cname}.printable_chars` (sorted code points) -/\ndef printable{cname[4:]} : List Nat := [{', '.join(str(c) for c in sorted(set(map(ord, val))))}]\n")
        facts["printable_" + cname] = sorted(set(map(ord, val)))
    # item classes
    rows = []
    for rel in ("secs/item_l.py", "secs/item_b.py", "secs/item_boolean.py", "secs/item_str.py", "secs/item_number.py"):
        for cls in G.parse(rel).body:
            if not isinstance(cls, ast.ClassDef):
                continue
            t = class_assign(cls, "_sml_type")
            if t is None or not (isinstance(t, ast.Constant) and isinstance(t.value, str) and t.value):
                continue
            lo, hi = class_assign(cls, "_minimum_value"), class_assign(cls, "_maximum_value")
            ty = class_assign(cls, "_type")
            rows.append((t.value, cls.name, None if lo is None else num(lo), None if hi is None else num(hi), None if ty is None else ast.unparse(ty)))
    if not rows:
        raise G.P.Untranslatable("no item class with _sml_type found")
    out.append("/-- upper-cased `_sml_type` of every registered item class (the keys of `Item._subclasses_by_sml`) -/")
    out.append("def typeNames : List (List Nat) := [" + ", ".join(cps(r[0].upper()) for r in rows) + "]\n")
    ints = [r for r in rows if r[4] == "int"]
    flts = [r for r in rows if r[4] == "float"]
    out.append("/-- integer classes: name, `_minimum_value`, `_maximum_value` -/")
    out.append("def intBounds : List (List Nat × Int × Int) := [" + ", ".join(f"({cps(r[0])}, {r[2]}, {r[3]})" for r in ints) + "]\n")
    for r in flts:
        if not (isinstance(r[2], tuple) and isinstance(r[3], tuple)):
            raise G.P.Untranslatable(f"{r[1]}: float class with non-float bounds")
    out.append("/-- float classes: name, binary64 bit patterns of `_minimum_value`, `_maximum_value` -/")
    out.append("def fltBounds : List (List Nat × Nat × Nat) := [" + ", ".join(f"({cps(r[0])}, {r[2][1]}, {r[3][1]})" for r in flts) + "]\n")
    others = [r for r in rows if r[4] is None]
    out.append("/-- remaining classes: name, bounds where the class declares them (B: 0..255, BOOLEAN: 0..1, A/J: 0..255) -/")
    out.append("def otherBounds : List (List Nat × Option (Int × Int)) := ["
               + ", ".join(f"({cps(r[0])}, {'none' if r[2] is None or r[3] is None else f'some ({r[2]}, {r[3]})'})" for r in others) + "]\n")
    facts["types"] = [r[0] for r in rows]
    # literals in Item._read_item / _read_length / _read_items
    item = G.find_class(G.parse("secs/item.py"), "Item")
    lits = {}
    for fn in item.body:
        if isinstance(fn, ast.FunctionDef) and fn.name in ("_read_item", "_read_length", "_read_items"):
            got = []
            for n in ast.walk(fn):
                if isinstance(n, ast.Compare) and len(n.comparators) == 1 and isinstance(n.comparators[0], ast.Constant) and isinstance(n.comparators[0].value, str):
                    got.append((type(n.ops[0]).__name__, n.comparators[0].value))
            lits[fn.name] = got
    want = {"_read_item": [("NotEq", "<")], "_read_length": [("NotEq", "]")], "_read_items": [("Eq", "["), ("NotIn", ">.")]}
    for k, v in want.items():
        if sorted(lits.get(k, [])) != sorted(v):
            raise G.P.Untranslatable(f"Item.{k}: comparisons against string literals are {lits.get(k)}, expected {v}")
    out.append("/-- `_read_item`: `start_char.value != \"<\"`; `_read_items`: `== \"[\"`, `not in \">.\"`; `_read_length`: `!= \"]\"` -/")
    out.append(f"def openLit : List Nat := {cps('<')}\ndef lenOpenLit : List Nat := {cps('[')}\ndef lenCloseLit : List Nat := {cps(']')}\ndef closersLit : List Nat := {cps('>.')}\n")
    # str readers compare against ">" and '"'
    strcls = G.find_class(tree, "ItemStr")
    rd = next((f for f in strcls.body if isinstance(f, ast.FunctionDef) and f.name == "_read_sml_token"), None)
    if rd is None:
        raise G.P.Untranslatable("ItemStr._read_sml_token missing")
    consts = sorted({n.value for n in ast.walk(rd) if isinstance(n, ast.Constant) and isinstance(n.value, str)})
    if consts != sorted(['"', ">"]):
        raise G.P.Untranslatable(f"ItemStr._read_sml_token string literals are {consts}")
    # JIS-8
    jm = jis_map()
    out.append("/-- `jis8_decoding_map`, index = byte -/\ndef jis8Decoding : List Nat := [" + ", ".join(str(x) for x in jm) + "]\n")
    out.append("end SecsModel.Gen.Sml\n")
    G.write("Sml", "\n".join(out))
    G.FACTS["Sml"] = facts


UNITS = {"Sml": unit_Sml}
