"""Gen.HsmsProto: the statement order of the three connection-event handlers of HsmsProtocol and its state-event wiring.

Extracted by AST pattern matching from hsms/protocol.py (class HsmsProtocol):
  * onConnected / onDisconnecting / onDisconnected : the body of `_on_connected` / `_on_disconnecting` / `_on_disconnected`
    as a list of statement tags, in source order.  Recognised statements (anything else is a broken tie):
        self._connected = True|False                         -> "set_connected 1|0"
        self._connection_state.<m>()                         -> "sm.<m>"
        self._thread.start() / self._thread.stop()           -> "thread.start" / "thread.stop"
        self._receive_buffer.clear()                         -> "receive_buffer.clear"
        self.events.fire("<name>", {...})                    -> "fire <name>"
        self.send_separate_req()                             -> "send_separate_req"
  * wiring : `self._connection_state.<state attr>.events.<enter|leave>.register(self.<handler>)` in `__init__`
    as (STATE NAME = attr upper-cased, event, handler)
  * onStateConnect / onStateDisconnect / onLinktestTimer : the linktest-timer handlers as statement tags
        self._start_linktest_timer() -> "start_linktest_timer";  self.send_linktest_req() -> "send_linktest_req"
        if self._linktest_timer: self._linktest_timer.cancel() -> "cancel_linktest_timer";  self._linktest_timer = None -> "clear_linktest_timer"
        if self._settings.is_active: <start the select thread> -> "if_active start_select_thread"
  * timeoutRefs : which files (outside secs/) read `timeouts.t5 … t8`;  t7Performers : who performs the `timeoutT7` transition
Consumed by Model/Hsms.lean (the connect / close steps execute these lists) and by the accept-race theorem of C05
(the accepting thread's program IS `onConnected`, so reverting the order of `connect()` and `_thread.start()` re-opens the proof).
"""
import ast

G = None  # set by gen.py


def _method(cls, name):
    for item in cls.body:
        if isinstance(item, ast.FunctionDef) and item.name == name:
            return item
    raise G.P.Untranslatable(f"HsmsProtocol.{name} not found")


def _tag(st):
    if isinstance(st, ast.Expr) and isinstance(st.value, ast.Constant) and isinstance(st.value.value, str):
        return None  # docstring
    if isinstance(st, ast.Assign) and len(st.targets) == 1 and G.P.dotted(st.targets[0]) == "self._connected" \
            and isinstance(st.value, ast.Constant) and isinstance(st.value.value, bool):
        return f"set_connected {1 if st.value.value else 0}"
    if isinstance(st, ast.Expr) and isinstance(st.value, ast.Call):
        call = st.value
        fn = G.P.dotted(call.func)
        if fn and fn.startswith("self._connection_state.") and fn.count(".") == 2 and not call.args and not call.keywords:
            return "sm." + fn.split(".")[2]
        if fn in ("self._thread.start", "self._thread.stop") and not call.args:
            return "thread." + fn.split(".")[2]
        if fn == "self._receive_buffer.clear" and not call.args:
            return "receive_buffer.clear"
        if fn == "self.send_separate_req" and not call.args:
            return "send_separate_req"
        if fn == "self.events.fire" and call.args and isinstance(call.args[0], ast.Constant) and isinstance(call.args[0].value, str):
            return "fire " + call.args[0].value
    raise G.P.Untranslatable(f"unrecognised statement `{ast.unparse(st)[:80]}`")


def _body(cls, name):
    out = []
    for st in _method(cls, name).body:
        t = _tag(st)
        if t is not None:
            out.append(t)
    return out


def _small_tag(st):
    """statements of the linktest-timer handlers"""
    if isinstance(st, ast.Expr) and isinstance(st.value, ast.Constant) and isinstance(st.value.value, str):
        return None
    if isinstance(st, ast.Expr) and isinstance(st.value, ast.Call) and not st.value.args and not st.value.keywords:
        fn = G.P.dotted(st.value.func)
        if fn in ("self.send_linktest_req", "self._start_linktest_timer"):
            return fn[5:].lstrip("_")
    if isinstance(st, ast.Assign) and len(st.targets) == 1 and G.P.dotted(st.targets[0]) == "self._linktest_timer" \
            and isinstance(st.value, ast.Constant) and st.value.value is None:
        return "clear_linktest_timer"
    if isinstance(st, ast.If) and G.P.dotted(st.test) == "self._linktest_timer" and not st.orelse and len(st.body) == 1 \
            and isinstance(st.body[0], ast.Expr) and isinstance(st.body[0].value, ast.Call) \
            and G.P.dotted(st.body[0].value.func) == "self._linktest_timer.cancel":
        return "cancel_linktest_timer"
    if isinstance(st, ast.If) and G.P.dotted(st.test) == "self._settings.is_active" and not st.orelse:
        src = " ".join(ast.unparse(x) for x in st.body)
        if "self._send_select_req_thread" in src and ".start()" in src:
            return "if_active start_select_thread"
    raise G.P.Untranslatable(f"unrecognised statement `{ast.unparse(st)[:80]}`")


def _small_body(cls, name):
    return [t for t in (_small_tag(st) for st in _method(cls, name).body) if t is not None]


def _timer_facts():
    """which source files read `timeouts.t5 … t8`, and which functions perform the table's `timeoutT7` transition"""
    import os
    refs = {f"t{n}": [] for n in (5, 6, 7, 8)}
    performers = []
    root = G.src("")
    for dirpath, _dirs, files in os.walk(root):
        for f in sorted(files):
            if not f.endswith(".py"):
                continue
            rel = os.path.relpath(os.path.join(dirpath, f), root)
            if rel.startswith(("secs" + os.sep, "secs/")):
                continue
            tree = G.parse(rel)
            for node in ast.walk(tree):
                if isinstance(node, ast.Attribute) and node.attr in refs and (G.P.dotted(node.value) or "").endswith("timeouts"):
                    if rel not in refs[node.attr]:
                        refs[node.attr].append(rel)
            for fn in ast.walk(tree):
                if isinstance(fn, (ast.FunctionDef, ast.AsyncFunctionDef)):
                    for node in ast.walk(fn):
                        if isinstance(node, ast.Call):
                            d = G.P.dotted(node.func) or ""
                            if d.endswith(".timeoutT7") or (d.endswith("_perform_transition") and node.args
                                                             and isinstance(node.args[0], ast.Constant) and node.args[0].value == "timeoutT7"):
                                performers.append(f"{rel}:{fn.name}")
    return {k: sorted(v) for k, v in refs.items()}, sorted(performers)


def unit_HsmsProto():
    tree = G.parse("hsms/protocol.py")
    cls = G.find_class(tree, "HsmsProtocol")
    bodies = {n: _body(cls, "_" + n) for n in ("on_connected", "on_disconnecting", "on_disconnected")}
    wiring = []
    for st in ast.walk(_method(cls, "__init__")):
        if isinstance(st, ast.Call) and isinstance(st.func, ast.Attribute) and st.func.attr == "register" and len(st.args) == 1:
            chain = G.P.dotted(st.func.value)  # self._connection_state.<state>.events.<ev>
            parts = chain.split(".") if chain else []
            handler = G.P.dotted(st.args[0])
            if len(parts) == 5 and parts[:2] == ["self", "_connection_state"] and parts[3] == "events" and handler and handler.startswith("self."):
                wiring.append((parts[2].upper(), parts[4], handler[5:]))
            else:
                raise G.P.Untranslatable(f"__init__: unrecognised registration `{ast.unparse(st)[:80]}`")

    def lst(xs):
        return "[" + ", ".join('"' + x + '"' for x in xs) + "]"

    small = {n: _small_body(cls, n) for n in ("_on_state_connect", "_on_state_disconnect", "_on_linktest_timer")}
    refs, performers = _timer_facts()

    out = [G.HEADER.format(src="secsgem/hsms/protocol.py (HsmsProtocol.__init__, _on_connected, _on_disconnecting, _on_disconnected)"),
           "namespace SecsModel.Gen.HsmsProto\n",
           "/-- statements of `HsmsProtocol._on_connected`, in source order -/",
           f"def onConnected : List String := {lst(bodies['on_connected'])}\n",
           "/-- statements of `HsmsProtocol._on_disconnecting`, in source order -/",
           f"def onDisconnecting : List String := {lst(bodies['on_disconnecting'])}\n",
           "/-- statements of `HsmsProtocol._on_disconnected`, in source order -/",
           f"def onDisconnected : List String := {lst(bodies['on_disconnected'])}\n",
           "/-- `self._connection_state.<state>.events.<event>.register(self.<handler>)` in `__init__`: (STATE, event, handler) -/",
           "def wiring : List (String × String × String) := ["
           + ", ".join(f'("{s}", "{e}", "{h}")' for s, e, h in wiring) + "]\n",
           "/-- statements of `_on_state_connect` (CONNECTED.enter), `_on_state_disconnect` (CONNECTED.leave), `_on_linktest_timer` -/",
           f"def onStateConnect : List String := {lst(small['_on_state_connect'])}",
           f"def onStateDisconnect : List String := {lst(small['_on_state_disconnect'])}",
           f"def onLinktestTimer : List String := {lst(small['_on_linktest_timer'])}\n",
           "/-- source files (outside secs/) that read `timeouts.t5 … t8` -/",
           "def timeoutRefs : List (String × List String) := ["
           + ", ".join(f'("{k}", {lst(v)})' for k, v in sorted(refs.items())) + "]\n",
           "/-- functions that perform the `timeoutT7` transition of the connection state machine (file:function) -/",
           f"def t7Performers : List String := {lst(performers)}\n",
           "end SecsModel.Gen.HsmsProto\n"]
    G.write("HsmsProto", "\n".join(out))
    G.FACTS["HsmsProto"] = {"bodies": bodies, "wiring": wiring, "small": small, "timeoutRefs": refs, "t7Performers": performers}


UNITS = {"HsmsProto": unit_HsmsProto}
