#!/bin/sh
# run the repository's pinned suite (guard off) and print the summary line; restores coverage.xml afterwards
cd /repo && /venv/bin/python -m pytest -ra -q -p no:cacheprovider --timeout=900 --continue-on-collection-errors --junitxml=/tmp/verif-baseline.junit.xml 2>&1 | tail -5
git -C /repo checkout -- coverage.xml 2>/dev/null
rm -f /tmp/verif-baseline.junit.xml
