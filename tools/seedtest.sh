#!/bin/sh
# usage: tools/seedtest.sh <seed-dir-with-patch.diff> <Cxx> [tier]   — runs the check of a scratch copy of /verif against a scratch worktree of /repo
# (never touches /repo's working tree or /verif's build directory, so it can run while other work is going on)
set -e
SEED="$1"; PROP="$2"; TIER="${3:-quick}"
WT=$(mktemp -d /tmp/mutwt-XXXXXX); rmdir "$WT"
VC=/tmp/vcopy-$$
git -C /repo worktree add -q "$WT" HEAD
trap 'git -C /repo worktree remove --force "$WT" >/dev/null 2>&1; rm -rf "$VC"' EXIT
git -C "$WT" apply "$SEED/patch.diff"
rsync -a --exclude .git /verif/ "$VC"/
cd "$VC"
VERIF_REPO="$WT" ./check "$PROP" "$TIER"; rc=$?
echo "exit=$rc"
if [ -f "$SEED/demo.py" ]; then
  PYTHONPATH="$WT" timeout 120 /venv/bin/python "$SEED/demo.py" >/dev/null 2>&1; echo "demo(mutated)=$?"
  git -C "$WT" checkout -q -- . ; PYTHONPATH="$WT" timeout 120 /venv/bin/python "$SEED/demo.py" >/dev/null 2>&1; echo "demo(clean)=$?"
fi
exit 0
