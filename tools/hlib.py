"""Shared harness library: PRNG, Lean driver client, result accumulation, shrinking.

Every harness (tools/harness/cXX.py) is run by tools/check.py as
    /venv/bin/python tools/harness/cXX.py --tier quick|thorough --seed N --out result.json [--search] [--replay file]
and writes one JSON object (see `Result.dump`).  Harnesses import the real secsgem from /repo's working tree.
"""
from __future__ import annotations

import hashlib
import json
import os
import subprocess
import sys
import time

ROOT = os.path.dirname(os.path.dirname(os.path.abspath(__file__)))
REPO = os.environ.get("VERIF_REPO", "/repo")
DRIVER = os.path.join(ROOT, "lean", ".lake", "build", "bin", "driver")

if REPO not in sys.path:
    sys.path.insert(0, REPO)


# ---------------------------------------------------------------------------------------------- PRNG
class Rng:
    """SplitMix64: every random choice of a run derives from VERIF_SEED."""

    def __init__(self, seed: int):
        self.s = seed & 0xFFFFFFFFFFFFFFFF

    def next(self) -> int:
        self.s = (self.s + 0x9E3779B97F4A7C15) & 0xFFFFFFFFFFFFFFFF
        z = self.s
        z = ((z ^ (z >> 30)) * 0xBF58476D1CE4E5B9) & 0xFFFFFFFFFFFFFFFF
        z = ((z ^ (z >> 27)) * 0x94D049BB133111EB) & 0xFFFFFFFFFFFFFFFF
        return z ^ (z >> 31)

    def below(self, n: int) -> int:
        return self.next() % n if n > 0 else 0

    def range(self, lo: int, hi: int) -> int:
        """inclusive"""
        return lo + self.below(hi - lo + 1)

    def choice(self, xs):
        return xs[self.below(len(xs))]

    def chance(self, num: int, den: int) -> bool:
        return self.below(den) < num

    def bytes(self, n: int) -> bytes:
        out = bytearray()
        while len(out) < n:
            out += self.next().to_bytes(8, "little")
        return bytes(out[:n])

    def shuffle(self, xs):
        xs = list(xs)
        for i in range(len(xs) - 1, 0, -1):
            j = self.below(i + 1)
            xs[i], xs[j] = xs[j], xs[i]
        return xs

    def fork(self, tag: str) -> "Rng":
        h = hashlib.sha256(f"{self.s}:{tag}".encode()).digest()
        return Rng(int.from_bytes(h[:8], "little"))


# ---------------------------------------------------------------------------------------------- driver
def hexs(b: bytes) -> str:
    return b.hex() if len(b) else "-"


class Driver:
    """Batch client of the Lean model driver (native executable built by lake)."""

    def __init__(self):
        self.available = os.path.exists(DRIVER) and os.access(DRIVER, os.X_OK)

    def run(self, lines: list[str], timeout: float = 600.0) -> list[str]:
        if not self.available:
            raise RuntimeError("driver not built")
        data = ("\n".join(lines) + "\n").encode()
        p = subprocess.run([DRIVER], input=data, stdout=subprocess.PIPE, stderr=subprocess.PIPE, timeout=timeout, check=False)
        out = p.stdout.decode().split("\n")
        if out and out[-1] == "":
            out.pop()
        if p.returncode != 0 or len(out) != len(lines):
            raise RuntimeError(f"driver failed rc={p.returncode} answers={len(out)}/{len(lines)} stderr={p.stderr[-400:]!r}")
        return out


def strip_branch(ans: str) -> str:
    i = ans.find(" #")
    return ans if i < 0 else ans[:i]


# ---------------------------------------------------------------------------------------------- exceptions
def errkind(exc: BaseException) -> str:
    import struct
    if isinstance(exc, struct.error):
        return "StructError"
    if isinstance(exc, OverflowError):
        return "Overflow"
    for cls, name in ((ValueError, "ValueError"), (TypeError, "TypeError"), (IndexError, "IndexError"), (KeyError, "KeyError")):
        if isinstance(exc, cls):
            return name
    return "Other:" + type(exc).__name__


# ---------------------------------------------------------------------------------------------- results
class Result:
    """What one harness run covered and found."""

    def __init__(self, prop: str, tier: str, seed: int):
        self.prop, self.tier, self.seed = prop, tier, seed
        self.t0 = time.time()
        self.evaluations = 0
        self.seen: set[bytes] = set()
        self.samples: list = []
        self.hist: dict[str, dict[str, int]] = {}
        self.disagreements: list[dict] = []  # model vs implementation (C-break)
        self.violations: list[dict] = []  # property fails on the implementation (O)
        self.traces_validated = 0
        self.notes: list[str] = []
        self.rule = ""
        self.exhaustive_parts: list[str] = []
        self.driver_used = False

    def count(self, key, nontrivial: bool = True, sample=None):
        """One evaluated case. `key` identifies it for the distinct count."""
        self.evaluations += 1
        if nontrivial:
            h = hashlib.blake2b(repr(key).encode(), digest_size=12).digest()
            if h not in self.seen:
                self.seen.add(h)
                if sample is not None and len(self.samples) < 12:
                    self.samples.append(sample)

    def bump(self, hist: str, key, n: int = 1):
        d = self.hist.setdefault(hist, {})
        d[str(key)] = d.get(str(key), 0) + n

    def disagree(self, what: str, case, model, impl):
        if len(self.disagreements) < 50:
            self.disagreements.append({"what": what, "case": case, "model": model, "impl": impl})

    def violate(self, klass: str, what: str, case, expected=None, actual=None):
        """klass: finding class decided by the harness predicate over the (minimised) failing case."""
        if len(self.violations) < 200:
            self.violations.append({"class": klass, "what": what, "case": case, "expected": expected, "actual": actual})

    def dump(self, path: str):
        obj = {
            "property": self.prop, "tier": self.tier, "seed": self.seed,
            "evaluations": self.evaluations, "distinct_nontrivial": len(self.seen),
            "rule": self.rule, "samples": self.samples, "hist": self.hist,
            "disagreements": self.disagreements, "violations": self.violations,
            "traces_validated_against_impl": self.traces_validated,
            "notes": self.notes, "exhaustive_parts": self.exhaustive_parts,
            "driver_used": self.driver_used, "wall_s": round(time.time() - self.t0, 3),
        }
        with open(path, "w") as fh:
            json.dump(obj, fh, indent=1, default=repr)


def compare_batch(res: Result, drv: Driver, what: str, cases: list, lines: list[str], impl_answers: list[str]):
    """Send `lines` to the model, diff with the implementation's canonical answers."""
    if not drv.available:
        res.notes.append(f"driver unavailable: correspondence '{what}' skipped ({len(lines)} cases)")
        return
    if not lines:
        return
    res.driver_used = True
    outs = drv.run(lines)
    for case, line, m, i in zip(cases, lines, outs, impl_answers):
        m = strip_branch(m)
        res.traces_validated += 1
        if m != i:
            res.disagree(what, {"case": case, "line": line if len(line) < 2000 else line[:2000] + "…"},
                         m if len(m) < 2000 else m[:2000] + "…", i if len(i) < 2000 else i[:2000] + "…")


def std_args(argv=None):
    import argparse
    ap = argparse.ArgumentParser()
    ap.add_argument("--tier", default="quick")
    ap.add_argument("--seed", type=int, default=0)
    ap.add_argument("--out", required=True)
    ap.add_argument("--search", action="store_true", help="a tie or proof broke: widen the failing-input search")
    ap.add_argument("--replay", default=None)
    return ap.parse_args(argv)


def ddmin(items: list, fails) -> list:
    """Delta debugging: minimal sublist on which `fails` still returns True."""
    n = 2
    items = list(items)
    while len(items) >= 2:
        chunk = max(1, len(items) // n)
        reduced = False
        for i in range(0, len(items), chunk):
            cand = items[:i] + items[i + chunk:]
            if cand and fails(cand):
                items, n, reduced = cand, max(n - 1, 2), True
                break
        if not reduced:
            if chunk == 1:
                break
            n = min(len(items), n * 2)
    return items
