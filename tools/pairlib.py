"""In-memory transport for wiring two REAL secsgem endpoints back to back (C20, also usable by other harnesses).

`Pipe` is a `secsgem.common.Connection`: per direction one FIFO byte channel drained by one pump thread which
re-segments and delays the stream according to a schedule drawn from the harness PRNG (so order is preserved, as on TCP).
Connection life-cycle mirrors the TCP classes: the link comes up as soon as both ends are enabled (the active
side keeps retrying, the passive side listens), `disable()` runs the local close sequence (`on_disconnecting`,
`on_disconnected`) and the peer sees the link drop (its own `on_disconnecting` / `on_disconnected`).
"""
from __future__ import annotations

import queue
import threading
import time

import secsgem.common


class Pipe(secsgem.common.Connection):
    def __init__(self, settings, name="?"):
        super().__init__(settings)
        self.name = name
        self.peer: "Pipe | None" = None
        self.enabled = False
        self.up = False
        self.gen = 0  # connection generation: bytes of an old connection are never delivered into a new one
        self.rx: "queue.Queue[tuple[int, bytes]]" = queue.Queue()
        self.seg_sizes = [1 << 30]  # schedule of segment sizes (cycled)
        self.delays = [0.0]  # schedule of per-segment delays in seconds (cycled)
        self._k = 0
        self.lock = LINK_LOCK
        self.bytes_in = 0
        self.segments_in = 0
        # optional: enable() returns only when this callable is true or ~1 s passed (a transport whose enable() does not return
        # before the link is up and selected, e.g. a connect that completes synchronously)
        self.enable_blocks_until = None
        self._pump = threading.Thread(target=self._pump_loop, daemon=True, name=f"pipe-pump-{name}")
        self._pump.start()

    # ------------------------------------------------------------------ Connection API
    def enable(self):
        self.enabled = True
        try_connect(self)
        if self.enable_blocks_until is not None:
            t_end = time.time() + 1.0
            while time.time() < t_end and not self.enable_blocks_until():
                time.sleep(0.002)

    def disable(self):
        self.enabled = False
        close_link(self, local=True)

    def send_data(self, data) -> bool:
        peer = self.peer
        if not self.up or peer is None:
            return False
        peer.rx.put((self.gen, bytes(data)))
        return True

    # ------------------------------------------------------------------ delivery
    def _pump_loop(self):
        while True:
            gen, data = self.rx.get()
            pos = 0
            while pos < len(data):
                n = max(1, self.seg_sizes[self._k % len(self.seg_sizes)])
                d = self.delays[self._k % len(self.delays)]
                self._k += 1
                if d:
                    time.sleep(d)
                chunk = data[pos:pos + n]
                pos += len(chunk)
                if not self.up or gen != self.gen:
                    break  # link went down: bytes of the old connection are lost, as on TCP after close
                self.bytes_in += len(chunk)
                self.segments_in += 1
                try:
                    self.on_data({"source": self, "data": chunk})
                except Exception:  # noqa: BLE001 - a handler exception must not kill the transport
                    pass


LINK_LOCK = threading.RLock()


def try_connect(a: Pipe):
    b = a.peer
    if b is None:
        return
    with LINK_LOCK:
        if not (a.enabled and b.enabled) or a.up or b.up:
            return
        a.gen += 1
        b.gen = a.gen
        # drop anything still queued from an earlier connection
        for c in (a, b):
            try:
                while True:
                    c.rx.get_nowait()
            except queue.Empty:
                pass
        a.up = b.up = True
        a._connected = b._connected = True
    # as the TCP classes do: each side announces the connection from its own thread
    for c in (a, b):
        threading.Thread(target=_fire_connected, args=(c,), daemon=True, name=f"pipe-connect-{c.name}").start()


def _fire_connected(c: Pipe):
    try:
        c.on_connected({"source": c})
    except Exception:  # noqa: BLE001
        pass


def _close_one(c: Pipe):
    """close sequence of one endpoint, as TcpConnection.disconnect does"""
    c._disconnecting = True
    try:
        c.on_disconnecting({"source": c})
    except Exception:  # noqa: BLE001
        pass
    c.up = False
    c._connected = False
    c._disconnecting = False
    try:
        c.on_disconnected({"source": c})
    except Exception:  # noqa: BLE001
        pass


def close_link(a: Pipe, local=True):
    b = a.peer
    with LINK_LOCK:
        was_up = a.up
    if not was_up:
        return
    _close_one(a)
    if b is not None and b.up:
        t = threading.Thread(target=_close_peer_then_retry, args=(b,), daemon=True, name=f"pipe-eof-{b.name}")
        t.start()
        t.join(10)


def _close_peer_then_retry(b: Pipe):
    _close_one(b)


def retry_loop(a: Pipe, b: Pipe, stop: threading.Event, period=0.05):
    """the active side's reconnect timer / the passive side's listening socket: bring the link up whenever both ends are enabled"""
    while not stop.is_set():
        if a.enabled and b.enabled and not a.up and not b.up:
            try_connect(a)
        time.sleep(period)
