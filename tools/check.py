#!/usr/bin/env python3
"""Orchestrator: ./check Cxx quick|thorough   |   ./check Cxx --replay <file>

Pipeline (DESIGN §4):  T translate -> P prove -> A audit -> C correspondence + O direct oracle -> verdict.
Exit 0: property held on everything explored (KNOWN-FINDING lines may be printed).
Exit 1: `VIOLATION property=<id> replay=<path>` (ends with ` no-failing-input-found` when only a tie/proof broke).
Exit 2: the check itself is broken (timeout, harness crash, audit failure) — never a VIOLATION line.
"""
from __future__ import annotations

import fcntl
import json
import os
import re
import subprocess
import sys
import tempfile
import time

sys.path.insert(0, os.path.dirname(os.path.abspath(__file__)))
import buildlib  # noqa: E402

ROOT = os.path.dirname(os.path.dirname(os.path.abspath(__file__)))
LEAN = os.path.join(ROOT, "lean")
PY = "/venv/bin/python" if os.path.exists("/venv/bin/python") else sys.executable
ALLOWED_AXIOMS = {"propext", "Classical.choice", "Quot.sound"}
FORBIDDEN = re.compile(r"\b(sorry|admit|native_decide|bv_decide|implemented_by|unsafe)\b|^\s*axiom\s|maxHeartbeats\s+0\b", re.M)
TRUSTED_COMMON = [
    "Lean 4.33.0 kernel; axioms limited to propext, Classical.choice, Quot.sound (parsed from #print axioms on this run)",
    "no sorry/admit/axiom/native_decide/bv_decide/implemented_by/unsafe/maxHeartbeats 0 in lean/ (grep on this run)",
    "tools/gen.py + tools/pyexpr2lean.py: the generated Gen/*.lean says what the Python source says (also exercised through the driver against the real methods)",
    "correspondence harness: the hand-written Model/*.lean is validated, not verified, against the listed Python units; generator coverage bounds what disagreement can be seen",
    "CPython (struct, int, bytes, dict order, threading primitives) is modelled, not verified",
]


def sh(cmd, cwd=None, timeout=None, env=None):
    p = subprocess.run(cmd, cwd=cwd, stdout=subprocess.PIPE, stderr=subprocess.STDOUT, timeout=timeout, env=env, check=False)
    return p.returncode, p.stdout.decode(errors="replace")


def strip_comments(text: str) -> str:
    text = re.sub(r"/-.*?-/", " ", text, flags=re.S)
    return re.sub(r"--.*", " ", text)


def load_theorems(prop):
    path = os.path.join(ROOT, "theorems", f"{prop}.json")
    if not os.path.exists(path):
        raise SystemExit(f"{prop}: no theorems/{prop}.json")
    with open(path) as fh:
        return json.load(fh)


def load_known(prop):
    """known_findings.txt lines: `open: property=Cxx class=<class> <what>`  /  `fixed: property=Cxx <commit> <what>`"""
    known = {}
    path = os.path.join(ROOT, "known_findings.txt")
    if os.path.exists(path):
        for line in open(path):
            line = line.strip()
            m = re.match(r"open:\s+property=(\S+)\s+class=(\S+)\s+(.*)", line)
            if m and m.group(1) == prop:
                known[m.group(2)] = m.group(3)
    return known


def enclosing_theorem(path, lineno):
    name = None
    try:
        for i, line in enumerate(open(path), 1):
            if i > lineno:
                break
            m = re.match(r"\s*(?:private\s+|protected\s+)?(?:theorem|lemma|def|instance|example)\s+([^\s:({\[]+)?", line)
            if m:
                name = m.group(1) or "example"
    except OSError:
        pass
    return name


def main(argv):
    if len(argv) < 2:
        print(__doc__)
        return 2
    prop = argv[0]
    replay = None
    tier = os.environ.get("VERIF_TIER") or "quick"
    if argv[1] == "--replay":
        replay = argv[2]
    else:
        tier = argv[1]
    seed = int(os.environ.get("VERIF_SEED", "0") or 0)
    t0 = time.time()
    spec = load_theorems(prop)
    known = load_known(prop)
    log = []
    breaks = []  # (stage, what)

    os.makedirs(os.path.join(ROOT, "evidence"), exist_ok=True)
    os.makedirs(os.path.join(ROOT, "replays"), exist_ok=True)
    lockf = open(os.path.join(LEAN, ".build.lock"), "w")
    fcntl.flock(lockf, fcntl.LOCK_EX)
    try:
        # ---------------------------------------------------------------- T
        rc, out = sh([sys.executable, os.path.join(ROOT, "tools", "gen.py")], timeout=300)
        for line in out.splitlines():
            m = re.match(r"T-BREAK (\S+): (.*)", line)
            if m and (m.group(1) in spec.get("gen_units", []) or not spec.get("gen_units")):
                breaks.append(("T", f"Gen.{m.group(1)}: {m.group(2)}"))
        log.append(("gen", rc, out[-2000:]))
        domains = buildlib.mkdriver()
        # ---------------------------------------------------------------- audit file
        names = [t["name"] for t in spec["theorems"]]
        audit_rel = os.path.join("SecsModel", "Audit", f"{prop}.lean")
        audit_src = "".join(f"import {m}\n" for m in spec["modules"]) + "".join(f"#print axioms {n}\n" for n in names)
        ap = os.path.join(LEAN, audit_rel)
        os.makedirs(os.path.dirname(ap), exist_ok=True)
        if not os.path.exists(ap) or open(ap).read() != audit_src:
            open(ap, "w").write(audit_src)
        # ---------------------------------------------------------------- P
        if tier == "thorough" and not replay:
            # nothing stale is trusted: drop the property's own .olean files and let lake re-elaborate them
            for m in spec["modules"]:
                for ext in (".olean", ".ilean", ".trace", ".hash"):
                    p = os.path.join(LEAN, ".lake", "build", "lib", "lean", *m.split(".")) + ext
                    if os.path.exists(p):
                        os.remove(p)
        rc_p, out_p = sh(["lake", "build"] + spec["modules"], cwd=LEAN, timeout=3000)
        broken_thms = []
        if rc_p != 0:
            for m in re.finditer(r"error: (\S+\.lean):(\d+):(\d+): (.*)", out_p):
                th = enclosing_theorem(os.path.join(LEAN, m.group(1)), int(m.group(2)))
                item = f"{m.group(1)}:{m.group(2)} {th or ''}: {m.group(4)[:160]}"
                if item not in broken_thms:
                    broken_thms.append(item)
            if not broken_thms:
                broken_thms.append("lake build failed: " + out_p[-400:])
            breaks.append(("P", "; ".join(broken_thms[:6])))
        ok_d, _, bad, errs_d = buildlib.build_driver()
        mine = [w for w in bad if w in spec.get("driver_domains", [])]
        if mine or not ok_d:
            breaks.append(("P", f"model driver domain(s) {mine or bad} do not build: {errs_d}"))
        log.append(("build", rc_p, out_p[-3000:]))
        # ---------------------------------------------------------------- A
        axioms = {}
        audit_problems = []
        if rc_p == 0:
            rc_a, out_a = sh(["lake", "env", "lean", audit_rel], cwd=LEAN, timeout=900)
            cur = None
            flat = re.sub(r"\s+", " ", out_a)
            for m in re.finditer(r"'([^']+)' (does not depend on any axioms|depends on axioms: \[([^\]]*)\])", flat):
                axs = set() if m.group(3) is None else {a.strip() for a in m.group(3).split(",") if a.strip()}
                axioms[m.group(1)] = sorted(axs)
            for n in names:
                if n not in axioms:
                    audit_problems.append(f"{n}: missing from the build")
                elif not set(axioms[n]) <= ALLOWED_AXIOMS:
                    audit_problems.append(f"{n}: inadmissible axioms {sorted(set(axioms[n]) - ALLOWED_AXIOMS)}")
            if rc_a != 0 and not audit_problems:
                audit_problems.append("audit file failed: " + out_a[-300:])
        if rc_p == 0 and tier == "thorough" and not replay:
            rc_l, out_l = sh(["lake", "env", "leanchecker"] + spec["modules"], cwd=LEAN, timeout=3000)
            leanchecker = f"leanchecker {' '.join(spec['modules'])}: rc={rc_l}"
            if rc_l != 0:
                audit_problems.append("leanchecker rejected the compiled modules: " + out_l[-400:])
        else:
            leanchecker = None
        # forbidden tokens: every file the property's modules (and its driver domains) import, transitively
        todo = list(spec["modules"]) + [f"SecsModel.Drv.{domains[w]}" for w in spec.get("driver_domains", []) if w in domains]
        seen_mods = set()
        while todo:
            mod = todo.pop()
            if mod in seen_mods or not mod.startswith("SecsModel"):
                continue
            seen_mods.add(mod)
            fp = os.path.join(LEAN, *mod.split(".")) + ".lean"
            if not os.path.exists(fp):
                continue
            raw = open(fp).read()
            todo += re.findall(r"^import\s+(SecsModel[\w.]*)", raw, re.M)
            m = FORBIDDEN.search(strip_comments(raw))
            if m:
                audit_problems.append(f"{os.path.relpath(fp, LEAN)}: forbidden token {m.group(0).strip()!r}")
    finally:
        fcntl.flock(lockf, fcntl.LOCK_UN)
        lockf.close()

    if audit_problems:
        print("AUDIT FAILURE (check is broken, not a violation):")
        for a in audit_problems:
            print("  " + a)
        return 2

    # -------------------------------------------------------------------- C + O
    def library_exception(out):
        """last traceback in `out` whose innermost frame lies in the library under check -> 'ExcType: msg at secsgem/x.py:LINE', else None"""
        i = out.rfind("Traceback (most recent call last):")
        if i < 0:
            return None
        tb = out[i:].splitlines()
        frames = [l.strip() for l in tb if l.strip().startswith('File "')]
        exc = next((l.strip() for l in reversed(tb) if re.match(r"^[A-Za-z_][\w.]*(Error|Exception|Exit|Interrupt)?\b.*", l) and not l.startswith(" ")), "")
        repo = os.path.realpath(os.environ.get("VERIF_REPO", "/repo"))
        if not frames:
            return None
        m = re.match(r'File "([^"]+)", line (\d+)', frames[-1])
        if not m or not os.path.realpath(m.group(1)).startswith(os.path.join(repo, "secsgem") + os.sep):
            return None
        return f"{exc[:200]} at {os.path.relpath(os.path.realpath(m.group(1)), repo)}:{m.group(2)}"

    harness = os.path.join(ROOT, "tools", "harness", prop.lower() + ".py")
    budget = {"quick": 900, "thorough": 7200}.get(tier, 900)
    results = []

    def run_harness(extra):
        with tempfile.TemporaryDirectory(prefix="verif-") as td:
            outp = os.path.join(td, "result.json")
            env = dict(os.environ, VERIF_SCRATCH=td, PYTHONDONTWRITEBYTECODE="1", PYTHONHASHSEED="0")
            cmd = [PY, harness, "--tier", tier, "--seed", str(seed), "--out", outp] + extra
            try:
                rc, out = sh(cmd, cwd=ROOT, timeout=budget, env=env)
            except subprocess.TimeoutExpired:
                print(f"CHECK BROKEN: harness timeout after {budget}s")
                return None
            if rc != 0 or not os.path.exists(outp):
                lib = library_exception(out)
                if lib is not None:
                    # An exception raised INSIDE the library escaped through the harness: on the unchanged tree no harness does that, so the
                    # code under check changed its behaviour at a call the correspondence makes.  The correspondence no longer checks — that is a
                    # C break (reported with the traceback as the replay), not a broken check.
                    print(f"  harness aborted by an exception raised in the library: {lib}")
                    return {"evaluations": 0, "distinct_nontrivial": 0, "rule": "", "samples": [], "traces_validated_against_impl": 0, "hist": {},
                            "exhaustive_parts": [], "driver_used": False, "notes": ["harness aborted: " + lib, out[-1500:]],
                            "disagreements": [{"what": "correspondence run aborted by a library exception (" + lib + ")", "model": "-", "impl": out[-600:]}],
                            "violations": []}
                print(f"CHECK BROKEN: harness rc={rc}\n{out[-3000:]}")
                return None
            return json.load(open(outp))

    r = run_harness(["--replay", replay] if replay else [])
    if r is None:
        return 2
    results.append(r)
    for d in r["disagreements"]:
        breaks.append(("C", f"{d['what']}: model={str(d['model'])[:120]} impl={str(d['impl'])[:120]}"))
    if breaks and not r["violations"] and not replay:
        r2 = run_harness(["--search"])
        if r2 is None:
            return 2
        results.append(r2)

    violations = [v for rr in results for v in rr["violations"]]
    new = [v for v in violations if v["class"] not in known]
    seen_known = sorted({v["class"] for v in violations if v["class"] in known})
    for k in seen_known:
        print(f"KNOWN-FINDING: property={prop} {known[k]}")

    # -------------------------------------------------------------------- evidence
    obligations = len(names)
    discharged = len([n for n in names if n in axioms]) if rc_p == 0 else 0
    r0 = results[0]
    ev = {
        "property_id": prop, "tier": tier if tier in ("quick", "thorough") else "quick", "seed": seed, "level": "proof",
        "coverage": {
            "obligations": obligations, "discharged": discharged,
            "checker_cmd": f"cd lean && lake build {' '.join(spec['modules'])} && lake env lean {audit_rel}",
            "trusted_base": TRUSTED_COMMON + spec.get("trusted_base", []),
            "theorems": [{"name": t["name"], "kind": t.get("kind", "full"), "gloss": t.get("gloss", ""), "axioms": axioms.get(t["name"])} for t in spec["theorems"]],
            "partial": spec.get("partial", []),
            "gen_units": spec.get("gen_units", []),
            "hand_modelled": spec.get("hand_modelled", []),
            "evaluations": sum(rr["evaluations"] for rr in results),
            "distinct_nontrivial": r0["distinct_nontrivial"],
            "rule": r0["rule"], "samples": r0["samples"][:8],
            "traces_validated_against_impl": sum(rr["traces_validated_against_impl"] for rr in results),
            "histograms": r0["hist"], "exhaustive_parts": r0["exhaustive_parts"],
            "model_driver_used": r0["driver_used"], "harness_notes": r0["notes"],
            "breaks": [f"{s}: {w}" for s, w in breaks],
            "known_findings_seen": seen_known,
            "leanchecker": leanchecker,
        },
        "assumptions": spec.get("assumptions", []),
        "wall_s": round(time.time() - t0, 2),
        "violations": len(new) + (1 if breaks and not new else 0),
    }
    with open(os.path.join(ROOT, "evidence", f"{prop}.json"), "w") as fh:
        json.dump(ev, fh, indent=1, default=repr)

    # -------------------------------------------------------------------- verdict
    if replay:
        if new:
            print(f"REPLAY: property={prop} still fails: {new[0]['what']}")
            return 1
        print(f"REPLAY: property={prop} no longer fails")
        return 0
    if new or breaks:
        rp = os.path.join(ROOT, "replays", f"{prop}-{tier}-{seed}.json")
        body = {"property": prop, "tier": tier, "seed": seed, "breaks": [{"stage": s, "what": w} for s, w in breaks],
                "violations": new[:20], "replay_cmd": f"./check {prop} --replay {os.path.relpath(rp, ROOT)}"}
        with open(rp, "w") as fh:
            json.dump(body, fh, indent=1, default=repr)
        rel = os.path.relpath(rp, ROOT)
        if new:
            print(f"  first failing input: {new[0]['what']} case={json.dumps(new[0]['case'], default=repr)[:300]}")
            for s, w in breaks[:4]:
                print(f"  broken {s}: {w[:300]}")
            print(f"VIOLATION property={prop} replay={rel}")
        else:
            for s, w in breaks[:6]:
                print(f"  broken {s}: {w[:300]}")
            print(f"VIOLATION property={prop} replay={rel} no-failing-input-found")
        return 1
    print(f"OK property={prop} tier={tier} seed={seed} obligations={obligations}/{discharged} "
          f"evaluations={ev['coverage']['evaluations']} distinct={ev['coverage']['distinct_nontrivial']} wall={ev['wall_s']}s")
    return 0


if __name__ == "__main__":
    try:
        sys.exit(main(sys.argv[1:]))
    except subprocess.TimeoutExpired as exc:
        print(f"CHECK BROKEN: timeout {exc}")
        sys.exit(2)
