"""C17 — SECS-I line protocol: accepted messages arrive intact, exactly once; bad blocks are NAKed and the send fails.

Two REAL `SecsIProtocol` instances (host and equipment roles, their own receiver/dispatcher threads) are joined by an in-memory line that
re-chunks every transmission according to a seeded chunk schedule (delivered by a pump thread per direction, optional micro delays) and
can replace one byte of one transmission.  One side sends at a time (the property's premise); both directions are exercised.

Oracle (from the property text): the send call reports success => exactly one `message_received` at the peer with identical header and
body; the line transcript is (ENQ, EOT, block, ACK)* with the message's own blocks; a block that arrives with a wrong checksum => NAK,
nothing delivered, the send call reports failure.  Correspondence: the same blocks / chunk sizes / fault go to `Model.SecsILine` through
the driver (`secsiline run ...`); transcript, blocks handed to `queue_block`, and the send result must agree.
Every wait is bounded (watchdog join); a wedged pair is discarded.
"""
from __future__ import annotations

import logging
import os
import queue
import re
import sys
import threading
import time

sys.path.insert(0, os.path.dirname(os.path.dirname(os.path.abspath(__file__))))
import hlib  # noqa: E402
from hlib import hexs  # noqa: E402

logging.disable(logging.CRITICAL)

import secsgem.common  # noqa: E402
import secsgem.secsi  # noqa: E402
from secsgem.secsi import SecsIProtocol, SecsISettings  # noqa: E402
from secsgem.secsi.message import SecsIBlock, SecsIMessage  # noqa: E402

ENQ, EOT, ACK, NAK = 0x05, 0x04, 0x06, 0x15  # SEMI E4 handshake codes (the oracle does not read them from the code)
FIELDS = ("system", "device_id", "stream", "function", "block", "from_equipment", "require_response", "last_block")


class RetryDriver(hlib.Driver):
    """the driver binary is relinked by concurrent checks of other properties: retry for a while when it is momentarily missing"""

    def run(self, lines, timeout: float = 600.0):
        last = None
        for _ in range(90):
            try:
                return super().run(lines, timeout)
            except (FileNotFoundError, PermissionError, OSError, RuntimeError) as exc:
                last = exc
                if isinstance(exc, RuntimeError) and "driver failed" in str(exc) and "rc=-" not in str(exc) and "answers=0/" not in str(exc):
                    raise
                time.sleep(1.0)
        raise last



# ---------------------------------------------------------------------------------------------- waiting: at quiescence, never after a sleep
# Observations are taken when the send call has returned AND the line and both endpoints are quiet (`Pair.quiesce`), never after a fixed
# sleep.  A deadline only ends a wait for something that never comes: 20 s until the implementation has shown once that it really stalls,
# ~4 s afterwards.  Only where blocking IS the expected outcome (length byte destroyed, answer never arrives) a short fixed wait is used,
# and nothing is concluded from "still blocked" there.
WAIT_FIRST, WAIT_LATER = 20.0, 4.0
STALLS = [0]
STALL_LOG = []


def deadline() -> float:
    return WAIT_FIRST if STALLS[0] == 0 else WAIT_LATER


def wait_until(cond, what="") -> bool:
    end = None
    spins = 0
    while not cond():
        spins += 1
        time.sleep(0 if spins < 200 else 0.0003)
        if end is None:
            end = time.monotonic() + deadline()
        elif time.monotonic() > end:
            STALLS[0] += 1
            STALL_LOG.append(what)
            return False
    return True


def join(thread, what="send call") -> bool:
    return wait_until(lambda: not thread.is_alive(), what)


def show_block(b) -> str:
    return " ".join(str(int(getattr(b.header, f))) for f in FIELDS) + " " + hexs(bytes(b.data))


class Line(secsgem.common.Connection):
    """one end of the in-memory serial line"""

    def __init__(self, settings):
        super().__init__(settings)
        self.peer = None
        self.name = "?"
        self.world = None

    def enable(self):
        pass

    def disable(self):
        pass

    def send_data(self, data):
        self.world.transmit(self, bytes(data))
        return True


class World:
    """the line: transcript, fault injection, chunked delivery"""

    def __init__(self, rng, chunks, pumped, jitter):
        self.lock = threading.Lock()
        self.transcript = []  # (name, bytes) as sent
        self.tx_count = {"a": 0, "b": 0}
        self.fault = None  # (name, tx index, offset, value)
        self.chunks = chunks or [1]
        self.ci = 0
        self.pumped = pumped
        self.jitter = jitter
        self.rng = rng
        self.q = {"a": queue.Queue(), "b": queue.Queue()}
        self.hold_b = {}  # transmission index of "b" -> seconds to hold it back on the line (None = it never arrives)
        self.inflight = 0  # deliveries queued for a pump thread or held back by a timer, not yet handed to the peer
        self.fault_fn = None  # callable(bytes) -> corrupted bytes | None, asked once per block transmission of "a" until it fires
        self.fault_fired = None
        self.stop = False
        self.threads = []
        if pumped:
            for n in ("a", "b"):
                t = threading.Thread(target=self._pump, args=(n,), daemon=True)
                t.start()
                self.threads.append(t)

    def transmit(self, end, data):
        with self.lock:
            idx = self.tx_count[end.name]
            self.tx_count[end.name] += 1
            self.transcript.append((end.name, data))
            f = self.fault
            if f is not None and f[0] == end.name and f[1] == idx and f[2] < len(data):
                data = data[: f[2]] + bytes([f[3]]) + data[f[2] + 1:]
            if self.fault_fn is not None and end.name == "a" and len(data) > 1 and self.fault_fired is None:
                bad = self.fault_fn(data)
                if bad is not None:
                    self.fault_fired = (idx, data)
                    data = bad
            pieces = []
            i = 0
            while i < len(data):
                n = max(1, self.chunks[self.ci % len(self.chunks)])
                self.ci += 1
                pieces.append(data[i:i + n])
                i += n
        if end.name == "b" and idx in self.hold_b:
            delay = self.hold_b[idx]
            if delay is not None:
                with self.lock:
                    self.inflight += 1

                def later(peer=end.peer, pieces=pieces, delay=delay):
                    time.sleep(delay)
                    for pc in pieces:
                        peer.on_data({"source": peer, "data": pc})
                    with self.lock:
                        self.inflight -= 1
                threading.Thread(target=later, daemon=True).start()
            return
        if self.pumped:
            with self.lock:
                self.inflight += len(pieces)
            for pc in pieces:
                self.q[end.name].put((end.peer, pc))
        else:
            for pc in pieces:
                end.peer.on_data({"source": end.peer, "data": pc})

    def _pump(self, name):
        while not self.stop:
            try:
                peer, pc = self.q[name].get(timeout=0.2)
            except queue.Empty:
                continue
            if self.jitter:
                time.sleep(self.jitter)
            peer.on_data({"source": peer, "data": pc})
            with self.lock:
                self.inflight -= 1


class S(SecsISettings):
    def create_connection(self):
        self.conn = Line(self)
        return self.conn


class Fn:
    def __init__(self, stream, function, w, body):
        self.stream, self.function, self.is_reply_required, self.body = stream, function, w, body

    def encode(self):
        return self.body

    def __str__(self):
        return f"S{self.stream}F{self.function}"


class Pair:
    """host (a-side or b-side as chosen per send) and equipment joined by a World"""

    def __init__(self, rng, chunks, pumped, jitter, t3=45, t4=10):
        self.world = World(rng, chunks, pumped, jitter)
        self.host = SecsIProtocol(S(port="H", device_type=secsgem.common.DeviceType.HOST, device_id=rng.choice([0, 1, 32767]), t3=t3, t4=t4))
        self.equip = SecsIProtocol(S(port="E", device_type=secsgem.common.DeviceType.EQUIPMENT, device_id=rng.choice([0, 5, 32767]), t3=t3, t4=t4))
        self.ch, self.ce = self.host._connection, self.equip._connection
        self.ch.peer, self.ce.peer = self.ce, self.ch
        self.ch.world = self.ce.world = self.world
        self.got = {"H": [], "E": []}
        self.queued = {"H": [], "E": []}
        self.host.events.message_received += lambda d: self.got["H"].append(d["message"])
        self.equip.events.message_received += lambda d: self.got["E"].append(d["message"])
        for key, proto in (("H", self.host), ("E", self.equip)):
            orig = proto._thread.queue_block

            def qb(source, block, key=key, orig=orig):
                self.queued[key].append(show_block(block))
                return orig(source, block)

            proto._thread.queue_block = qb
        self._busy = 0
        self._busy_lock = threading.Lock()

        def wrap(orig):
            def run(*a):
                with self._busy_lock:
                    self._busy += 1
                try:
                    return orig(*a)
                finally:
                    with self._busy_lock:
                        self._busy -= 1
            return run

        for proto in (self.host, self.equip):
            proto._thread._receiver_target = wrap(proto._thread._receiver_target)
            proto._thread._dispatcher_target = wrap(proto._thread._dispatcher_target)
        self.ch.on_connected({"source": self.ch})
        self.ce.on_connected({"source": self.ce})

    def is_quiet(self) -> bool:
        if self._busy or self.world.inflight:
            return False
        for proto in (self.host, self.equip):
            th = proto._thread
            if th._dispatch_queue.qsize() or th._dispatcher_thread_trigger.is_set() or th._receiver_thread_trigger.is_set() or not proto._send_queue.empty():
                return False
        return True

    def quiesce(self) -> bool:
        """line empty, no protocol thread inside library code, triggers clear, queues empty - looked at twice"""
        def look():
            if not self.is_quiet():
                return False
            time.sleep(0)
            return self.is_quiet()
        return wait_until(look, "quiescence of the line and both endpoints")

    def close(self):
        self.world.stop = True


def expected_block_strings(equipment: bool, device_id: int, system: int, stream: int, function: int, w: bool, body: bytes):
    """what E4 and the ROLE say must be on the line, built without any secsgem code: R-bit = sender is the equipment, the sender's device id,
    W-bit as asked, blocks numbered 1..n of at most 244 bytes, E-bit on the last; same string format as `show_block`"""
    chunks = [body[i:i + 244] for i in range(0, len(body), 244)] or [b""]
    return [f"{system} {device_id} {stream} {function} {i + 1} {int(equipment)} {int(bool(w))} {int(i + 1 == len(chunks))} {hexs(c)}"
            for i, c in enumerate(chunks)]


def check_role_header(res, small, messages, direction, sender):
    """every delivered message carries the R-bit of the sender's ROLE and the sender's device id"""
    want = (int(direction == "E2H"), int(sender._settings.device_id))
    bad = [(int(m.header.from_equipment), int(m.header.device_id)) for m in messages if (int(m.header.from_equipment), int(m.header.device_id)) != want]
    if bad:
        res.violate("c17-header-on-line", "a delivered message does not carry the R-bit of the sender's role / the sender's device id", small, want, bad[:3])


def expected_blocks(proto, fn, system):
    msg = proto._create_message_for_function(fn, system)
    return msg, list(msg.blocks)


def run_case(cx, case):
    """one transfer; returns nothing, records in cx.res"""
    res, rng = cx.res, cx.rng
    direction = case["dir"]  # "H2E" | "E2H"
    body = hlib.Rng(case["body_seed"]).bytes(case["body_len"])
    fault = case.get("fault")
    if fault is not None:
        fault = tuple(fault)  # (block index j, offset t, value v) or None
    chunks = case["chunks"]
    pair = Pair(rng.fork("pair"), chunks, case["pumped"], case["jitter"])
    try:
        sender, receiver, skey, rkey = (pair.host, pair.equip, "H", "E") if direction == "H2E" else (pair.equip, pair.host, "E", "H")
        a_end = pair.ch if direction == "H2E" else pair.ce
        a_end.name, a_end.peer.name = "a", "b"
        fn = Fn(case["stream"], case["function"], case["w"], body)
        sender._system_counter = case["system"] - 1
        msg, blocks = expected_blocks(sender, fn, case["system"])
        encs = [bytes(b.encode()) for b in blocks]
        want_blocks = max(1, -(-len(body) // 244))
        if len(blocks) != want_blocks:
            res.violate("c17-message-blocks", f"a message with a {len(body)}-byte body is cut into {len(blocks)} blocks (E4: {want_blocks}; a header-only "
                        "message is ONE block with no data)", dict(case, blocks=len(blocks)), want_blocks, len(blocks))
        flip = case.get("fault_flip")
        if fault is None and flip is not None and flip[0] < len(encs) and flip[1] < len(encs[flip[0]]):
            fault = (flip[0], flip[1], encs[flip[0]][flip[1]] ^ (1 << flip[2]))  # exactly one bit of that byte
            case = dict(case, fault=fault)
        if fault is not None and fault[0] >= len(encs):
            fault = None  # nothing to corrupt: the block does not exist
            case = dict(case, fault=None)
        if fault is not None and fault[0] < len(encs) and fault[1] < len(encs[fault[0]]) and encs[fault[0]][fault[1]] == fault[2]:
            fault = (fault[0], fault[1], (fault[2] + 1) % 256)  # replacing a byte by itself is not a corruption
            case = dict(case, fault=fault)
        if fault is not None:
            pair.world.fault = ("a", 2 * fault[0] + 1, fault[1], fault[2])
        result = {}

        def send():
            try:
                if case["api"] == "response":
                    result["r"] = sender.send_response(fn, case["system"])
                else:
                    result["r"] = sender.send_stream_function(fn)
            except Exception as exc:  # noqa: BLE001
                result["exc"] = exc

        t = threading.Thread(target=send, daemon=True)
        t.start()
        if fault is not None and fault[1] == 0:
            t.join(case.get("watchdog", 0.5))  # the length byte is destroyed: blocking is an expected outcome, nothing is concluded from it
        else:
            join(t, "send call of a transfer that must return (perfect line / one altered byte behind the length byte)")
        finished = not t.is_alive()
        # let the receiver's dispatcher hand the message over
        if finished:
            pair.quiesce()  # what was accepted on the line has been dispatched to the application
        else:
            time.sleep(0.05)
        with pair.world.lock:
            transcript = list(pair.world.transcript)
        got = list(pair.got[rkey])
        queued = list(pair.queued[rkey])
        other = list(pair.got[skey])
        small = dict(case, blocks=len(blocks))
        r = result.get("r")

        # ------------------------------------------------------------------ oracle
        length_byte_fault = fault is not None and fault[1] == 0
        if "exc" in result:
            res.violate("c17-exception", "the send call raised", small, None, repr(result["exc"]))
        if fault is None:
            if not finished:
                res.violate("c17-wedged", "the send call did not return on a perfect line", small, "returns True", "blocked")
            elif r is not True:
                res.violate("c17-send-failed", "the send call reported failure on a perfect line", small, True, r)
        if r is True and not encs:
            res.violate("c17-not-delivered-intact", "send reported success but nothing at all was transmitted (the message has no blocks)",
                        dict(case, blocks=0), {"system": case["system"], "len": len(body)}, "no transmission")
        elif r is True:
            sender_is_equipment = direction == "E2H"
            dev = sender._settings.device_id
            want_line = expected_block_strings(sender_is_equipment, dev, case["system"], case["stream"], case["function"], case["w"], body)
            on_line = []
            for (n, d) in transcript:
                if n == "a" and len(d) > 1:
                    try:
                        blk = SecsIBlock.decode(d)
                    except Exception:  # noqa: BLE001
                        blk = None
                    on_line.append("undecodable " + d.hex()[:40] if blk is None else show_block(blk))
            if on_line != want_line:
                res.violate("c17-header-on-line", "the blocks on the line do not carry the header the sender was asked to send (role => R-bit, device id, "
                            "W-bit, S/F, system bytes, block numbers, E-bit) and the body", small, [x[:70] for x in want_line][:4], [x[:70] for x in on_line][:4])
            want_hdr = (case["system"], dev, case["stream"], case["function"], int(sender_is_equipment), int(bool(case["w"])))
            got_hdr = [tuple(int(getattr(m.header, f)) for f in ("system", "device_id", "stream", "function", "from_equipment", "require_response")) for m in got]
            ok = len(got) == 1 and bytes(got[0].data) == body and got_hdr == [want_hdr]
            if not ok:
                small = dict(small, want_header=want_hdr, got_header=got_hdr)
            if not ok:
                res.violate("c17-not-delivered-intact", "send reported success but the peer did not receive exactly one identical message", small,
                            {"system": case["system"], "len": len(body)}, [(m.header.system, len(m.data)) for m in got])
            want_t = []
            for e in encs:
                want_t += [("a", bytes([ENQ])), ("b", bytes([EOT])), ("a", e), ("b", bytes([ACK]))]
            if transcript != want_t:
                res.violate("c17-transcript", "line transcript is not (ENQ, EOT, block, ACK)* with the message's blocks", small,
                            [(n, d.hex()[:40]) for n, d in want_t][:12], [(n, d.hex()[:40]) for n, d in transcript][:12])
        if other:
            res.violate("c17-echo", "the sender received a message although the peer sent none", small, [], len(other))
        if fault is not None and not length_byte_fault:
            j = fault[0]
            corrupted = encs[j][: fault[1]] + bytes([fault[2]]) + encs[j][fault[1] + 1:]
            still_valid = False
            try:
                still_valid = SecsIBlock.decode(corrupted) is not None
            except Exception:  # noqa: BLE001
                still_valid = False
            if still_valid:
                res.violate("c16-corrupt-accepted", "a block with one altered byte is accepted by SecsIBlock.decode", small)
            else:
                tail = transcript[-1] if transcript else None
                if not finished:
                    res.violate("c17-wedged", "the send call did not return after a corrupted block", small, "returns False", "blocked")
                elif r is not False:
                    res.violate("c17-nak-success", "a block arrived with a wrong checksum but the send call did not report failure", small, False, r)
                if tail != ("b", bytes([NAK])):
                    res.violate("c17-no-nak", "a block that arrived with a wrong checksum was not answered with NAK", small, "NAK", None if tail is None else (tail[0], tail[1].hex()))
                if got:
                    res.violate("c17-bad-delivered", "a message was delivered although one of its blocks arrived corrupted", small, [], len(got))
                if len(queued) != j:
                    res.violate("c17-bad-delivered", "the corrupted block (or a later one) was accepted by the receiver", small, j, len(queued))
        if length_byte_fault:
            if r is True and not (len(got) == 1 and bytes(got[0].data) == body):
                res.violate("c17-not-delivered-intact", "send reported success but the peer did not receive the message (length byte altered)", small)
            if got and bytes(got[0].data) != body:
                res.violate("c17-bad-delivered", "a different message was delivered after the length byte was altered", small)

        # ------------------------------------------------------------------ correspondence (not for a broken length byte: what follows is timing dependent garbage)
        if not length_byte_fault and cx.drv.available and encs:
            line = "secsiline run {} {} {} {} {}".format(
                1 if direction == "H2E" else 0,
                "-" if fault is None else f"{2 * fault[0] + 1}:{fault[1]}:{fault[2]}",
                case["order"], ",".join(str(c) for c in chunks), ";".join(hexs(e) for e in encs))
            impl = "log={} delivered={} outcome={}".format(
                ",".join(f"{n}:{hexs(d)}" for n, d in transcript) or "-",
                ";".join(queued) or "-",
                "running" if not finished else ("1" if r else "0"))
            cx.lines.append(line)
            cx.impl.append(impl)
            cx.cases.append(small)
        res.count((direction, len(body), case["system"], tuple(chunks), fault, case["api"], case["pumped"]),
                  sample=small if len(res.samples) < 6 and (fault is not None or len(blocks) > 1 or len(res.samples) < 2) else None)
        res.bump("blocks_per_message", len(blocks))
        res.bump("direction", direction)
        res.bump("fault", "none" if fault is None else ("length byte" if length_byte_fault else "header/data/checksum byte"))
        res.bump("outcome", "blocked" if not finished else str(r))
        res.bump("delivery", "pumped" if case["pumped"] else "synchronous")
    finally:
        pair.close()


def run_slow_answer(cx, case):
    """T3 is short and the peer's ACK/NAK for the block is held back on the line beyond T3 (or never arrives); the block may be corrupted.
    Oracle: the send call must not report success for a block that was not acknowledged with ACK."""
    res, rng = cx.res, cx.rng
    pair = Pair(rng.fork("slow"), case["chunks"], False, 0, t3=case["t3"])
    try:
        direction = case["dir"]
        sender, skey, rkey = (pair.host, "H", "E") if direction == "H2E" else (pair.equip, "E", "H")
        a_end = pair.ch if direction == "H2E" else pair.ce
        a_end.name, a_end.peer.name = "a", "b"
        body = hlib.Rng(case["body_seed"]).bytes(case["body_len"])
        fn = Fn(case["stream"], case["function"], False, body)
        sender._system_counter = case["system"] - 1
        fault = case.get("fault")
        if fault is not None:
            pair.world.fault = ("a", 1, fault[1], fault[2])
        pair.world.hold_b = {1: case["hold"]}  # b's transmissions: 0 = EOT, 1 = ACK/NAK of the (only) block
        result = {}

        def send():
            try:
                result["r"] = sender.send_stream_function(fn)
            except Exception as exc:  # noqa: BLE001
                result["exc"] = exc

        t = threading.Thread(target=send, daemon=True)
        t0 = time.time()
        t.start()
        if case["hold"] is None:
            t.join(case["t3"] + 0.6)  # the answer never arrives: blocking is the expected outcome
        else:
            join(t, "send call whose (late) answer does arrive")
        took = time.time() - t0
        finished = not t.is_alive()
        if case["hold"] is not None:
            pair.quiesce()
        with pair.world.lock:
            transcript = list(pair.world.transcript)
        answered = [d for (n, d) in transcript if n == "b"][1:2]
        acked = answered == [bytes([ACK])] and case["hold"] is not None
        r = result.get("r")
        small = dict(case, answer=answered[0].hex() if answered else None, returned=("blocked" if not finished else r), after_s=round(took, 2))
        res.count(("slow", direction, case["body_len"], case["hold"], fault, case["t3"]), sample=small if case.get("sample") else None)
        res.bump("slow_answer", f"hold={case['hold']} fault={'yes' if fault else 'no'} -> {'blocked' if not finished else r}")
        if "exc" in result:
            res.violate("c17-exception", "the send call raised", small, None, repr(result["exc"]))
        if finished and r is True and not acked:
            res.violate("c17-unacked-success", "the send call reported success for a block that was not acknowledged with ACK "
                        + ("(it was answered with NAK after T3)" if answered == [bytes([NAK])] else "(its answer never arrived)"), small, "False / no return", True)
        if finished and r is True and acked and len(pair.got[rkey]) != 1:
            res.violate("c17-not-delivered-intact", "send reported success but the peer did not receive the message", small)
        if pair.got[rkey] and answered != [bytes([ACK])]:
            res.violate("c17-bad-delivered", "a message was delivered although the receiver did not accept its block", small)
    finally:
        pair.close()


def run_concurrent(cx, case):
    """two application threads send multi-block messages on ONE endpoint at the same time: their blocks alternate on the line.
    Oracle: each message whose send returned True arrives exactly once, intact.  Model side: C16's reassembly (driver `secsi reasm`)."""
    res, rng = cx.res, cx.rng
    pair = Pair(rng.fork("conc"), case["chunks"], case["pumped"], 0)
    try:
        direction = case["dir"]
        sender, skey, rkey = (pair.host, "H", "E") if direction == "H2E" else (pair.equip, "E", "H")
        a_end = pair.ch if direction == "H2E" else pair.ce
        a_end.name, a_end.peer.name = "a", "b"
        sender._system_counter = case["system"] - 1
        bodies = [hlib.Rng(case["body_seed"] + i).bytes(n) for i, n in enumerate(case["body_lens"])]
        fns = [Fn(7, 2 * i + 1, False, b) for i, b in enumerate(bodies)]
        results = {}
        barrier = threading.Barrier(len(fns))

        def send(i):
            barrier.wait(2.0)
            try:
                results[i] = sender.send_stream_function(fns[i])
            except Exception as exc:  # noqa: BLE001
                results[i] = exc

        threads = [threading.Thread(target=send, args=(i,), daemon=True) for i in range(len(fns))]
        for t in threads:
            t.start()
        for t in threads:
            join(t, "concurrent send call")
        hung = [i for i, t in enumerate(threads) if t.is_alive()]
        if not hung:
            pair.quiesce()
        with pair.world.lock:
            transcript = list(pair.world.transcript)
        got = list(pair.got[rkey])
        line_blocks = []
        for (n, d) in transcript:
            if n == "a" and len(d) > 1:
                try:
                    blk = SecsIBlock.decode(d)
                except Exception:  # noqa: BLE001
                    blk = None
                if blk is not None:
                    line_blocks.append(blk)
        order = [(b.header.function, b.header.block) for b in line_blocks]
        funcs = [f for (f, _n) in order]
        interleaved = any(funcs[i] != funcs[i + 1] and funcs[i] in funcs[i + 2:] for i in range(len(funcs) - 2))
        small = dict(case, line_order=order, interleaved=interleaved, results=[repr(results.get(i)) for i in range(len(fns))])
        res.count(("concurrent", direction, tuple(case["body_lens"]), tuple(order)), sample=small if interleaved and case.get("sample") else None)
        res.bump("concurrent_senders", "blocks interleaved on the line" if interleaved else "not interleaved")
        if hung:
            res.violate("c17-wedged", "concurrent send calls did not return on a perfect line", small, None, hung)
            return interleaved
        check_role_header(res, small, got, direction, sender)
        for i, fn in enumerate(fns):
            r = results.get(i)
            if isinstance(r, Exception):
                res.violate("c17-exception", "the send call raised", small, None, repr(r))
            elif r is True:
                mine = [m for m in got if m.header.function == fn.function]
                if len(mine) != 1 or bytes(mine[0].data) != bodies[i] or mine[0].header.stream != 7:
                    res.violate("c17-not-delivered-intact", "two concurrent senders: a message whose send reported success did not arrive exactly once, intact",
                                small, {"function": fn.function, "len": len(bodies[i])}, [(m.header.function, len(m.data)) for m in got])
            else:
                res.violate("c17-send-failed", "the send call reported failure on a perfect line", small, True, r)
        # model: C16's reassembly of the blocks in line order
        if cx.drv.available and line_blocks:
            line = "secsi reasm " + " ".join(show_block(b) for b in line_blocks)
            impl = "ok " + ";".join(show_block_hdr(m.header) + " " + hexs(bytes(m.data)) + " n=" + str(len(m.blocks)) for m in got) + " | pending="
            ans = hlib.strip_branch(cx.drv.run([line])[0])
            res.traces_validated += 1
            res.driver_used = True
            if ans != impl:
                res.disagree("concurrent senders: messages delivered vs Model.SecsI.reassemble (C16) of the blocks in line order",
                             {"case": {k: v for k, v in small.items() if k != "results"}}, ans[:600], impl[:600])
        return interleaved
    finally:
        pair.close()


def show_block_hdr(h) -> str:
    return " ".join(str(int(getattr(h, f))) for f in FIELDS)


def run_concurrent_fault(cx, case):
    """two application threads send multi-block messages on one endpoint; a block of one message arrives with a wrong checksum WHILE THE OTHER
    MESSAGE IS STILL INCOMPLETE at the receiver.  Oracle: the damaged message's send fails and it is not delivered; the undamaged one -
    whose send returned True - arrives exactly once, intact."""
    res, rng = cx.res, cx.rng
    pair = Pair(rng.fork("concf"), case["chunks"], case["pumped"], 0)
    try:
        direction = case["dir"]
        sender, skey, rkey = (pair.host, "H", "E") if direction == "H2E" else (pair.equip, "E", "H")
        a_end = pair.ch if direction == "H2E" else pair.ce
        a_end.name, a_end.peer.name = "a", "b"
        sender._system_counter = case["system"] - 1
        bodies = [hlib.Rng(case["body_seed"] + i).bytes(n) for i, n in enumerate(case["body_lens"])]
        fns = [Fn(7, 2 * i + 1, False, b) for i, b in enumerate(bodies)]
        progress = {}  # function -> [blocks seen, complete?]

        def fault_fn(data):
            blk = SecsIBlock.decode(data)
            if blk is None:
                return None
            f = blk.header.function
            others_open = any(v[0] > 0 and not v[1] for g, v in progress.items() if g != f)
            st = progress.setdefault(f, [0, False])
            if others_open and (case["which"] == "any" or (case["which"] == "later" and blk.header.block > 1) or (case["which"] == "first" and blk.header.block == 1)):
                pos = case["offset"] % (len(data) - 1) + 1  # never the length byte
                return data[:pos] + bytes([data[pos] ^ (1 + case["xor"] % 255)]) + data[pos + 1:]
            st[0] += 1
            st[1] = bool(blk.header.last_block)
            return None

        pair.world.fault_fn = fault_fn
        results = {}
        barrier = threading.Barrier(len(fns))

        def send(i):
            barrier.wait(2.0)
            try:
                results[i] = sender.send_stream_function(fns[i])
            except Exception as exc:  # noqa: BLE001
                results[i] = exc

        threads = [threading.Thread(target=send, args=(i,), daemon=True) for i in range(len(fns))]
        for t in threads:
            t.start()
        for t in threads:
            join(t, "concurrent send call")
        hung = [i for i, t in enumerate(threads) if t.is_alive()]
        if not hung:
            pair.quiesce()
        got = list(pair.got[rkey])
        with pair.world.lock:
            transcript = list(pair.world.transcript)
        fired = pair.world.fault_fired
        damaged = None if fired is None else SecsIBlock.decode(fired[1]).header.function
        # blocks the receiver accepted (answered with ACK), in line order
        accepted = []
        for i, (n, d) in enumerate(transcript):
            if n == "a" and len(d) > 1:
                ans = next((dd for (nn, dd) in transcript[i + 1:] if nn == "b"), None)
                if ans == bytes([ACK]):
                    accepted.append(SecsIBlock.decode(d))
        small = dict(case, damaged_function=damaged, results=[repr(results.get(i)) for i in range(len(fns))],
                     accepted=[(b.header.function, b.header.block) for b in accepted], delivered=[(m.header.function, len(m.data)) for m in got])
        res.count(("concurrent-fault", direction, tuple(case["body_lens"]), damaged, tuple(small["accepted"])), sample=small if case.get("sample") and fired else None)
        res.bump("concurrent_senders_with_checksum_error", "fault placed while another message was incomplete" if fired else "no such moment in this run")
        if hung:
            res.violate("c17-wedged", "concurrent send calls did not return", small, None, hung)
            return fired is not None
        for i, fn in enumerate(fns):
            r = results.get(i)
            mine = [m for m in got if m.header.function == fn.function]
            if isinstance(r, Exception):
                res.violate("c17-exception", "the send call raised", small, None, repr(r))
            elif r is True:
                if len(mine) != 1 or bytes(mine[0].data) != bodies[i]:
                    res.violate("c17-not-delivered-intact", "a block of ANOTHER message arrived with a wrong checksum while this message was incomplete: this "
                                "message's send reported success (all its blocks were ACKed) but it did not arrive exactly once, intact", small,
                                {"function": fn.function, "len": len(bodies[i])}, [(m.header.function, len(m.data)) for m in got])
            else:
                if fn.function != damaged:
                    res.violate("c17-send-failed", "the send of the undamaged message reported failure", small, True, r)
                if mine:
                    res.violate("c17-bad-delivered", "a message with a NAKed block was delivered", small, [], [(m.header.function, len(m.data)) for m in mine])
        if fired is not None and results.get([f.function for f in fns].index(damaged)) is True:
            res.violate("c17-nak-success", "the damaged message's send reported success", small, False, True)
        if cx.drv.available and accepted:
            line = "secsi reasm " + " ".join(show_block(b) for b in accepted)
            impl = "ok " + ";".join(show_block_hdr(m.header) + " " + hexs(bytes(m.data)) + " n=" + str(len(m.blocks)) for m in got)
            ans = hlib.strip_branch(cx.drv.run([line])[0]).split(" | pending=")[0]
            res.traces_validated += 1
            res.driver_used = True
            if ans != impl:
                res.disagree("concurrent senders + checksum error: messages delivered vs Model.SecsI.reassemble (C16) of the ACCEPTED blocks in line order",
                             {"case": {k: v for k, v in small.items() if k != "results"}}, ans[:500], impl[:500])
        return fired is not None
    finally:
        pair.close()


def run_block_gap(cx, case):
    """a multi-block message whose blocks are separated by more than T4 on the line (the peer's ACK of block k is held back, so the sender
    offers block k+1 late).  The code implements no T4 give-up: every block is ACKed and the send reports success - so the message must
    arrive exactly once, intact (not a truncated tail)."""
    res, rng = cx.res, cx.rng
    pair = Pair(rng.fork("gap"), case["chunks"], False, 0, t3=45, t4=case["t4"])
    try:
        direction = case["dir"]
        sender, skey, rkey = (pair.host, "H", "E") if direction == "H2E" else (pair.equip, "E", "H")
        a_end = pair.ch if direction == "H2E" else pair.ce
        a_end.name, a_end.peer.name = "a", "b"
        body = hlib.Rng(case["body_seed"]).bytes(case["body_len"])
        fn = Fn(case["stream"], case["function"], False, body)
        sender._system_counter = case["system"] - 1
        # b's transmissions: EOT, ACK per block -> the ACK of block k (0-based) is transmission 2k + 1
        pair.world.hold_b = {2 * k + 1: case["gap"] for k in case["after_blocks"]}
        out = {}
        t = threading.Thread(target=lambda: out.update(r=sender.send_stream_function(fn)), daemon=True)
        t.start()
        if join(t, "send call with held-back ACKs"):
            pair.quiesce()
        got = list(pair.got[rkey])
        with pair.world.lock:
            transcript = list(pair.world.transcript)
        acks = sum(1 for (n, d) in transcript if n == "b" and d == bytes([ACK]))
        r = "blocked" if t.is_alive() else out.get("r")
        small = dict(case, returned=repr(r), acked_blocks=acks, delivered=[(m.header.function, len(m.data), len(m.blocks)) for m in got])
        res.count(("block-gap", direction, case["body_len"], tuple(case["after_blocks"]), case["t4"]), sample=small if case.get("sample") else None)
        res.bump("gap_longer_than_T4_between_blocks", f"{max(1, -(-case['body_len'] // 244))} blocks, gap after {case['after_blocks']} -> {r}")
        if r == "blocked":
            res.violate("c17-wedged", "the send call did not return", small)
        elif r is True:
            if len(got) != 1 or bytes(got[0].data) != body:
                res.violate("c17-not-delivered-intact", f"a gap of {case['gap']} s (> T4 = {case['t4']} s) between two blocks: every block was ACKed and the send "
                            "reported success, but the message did not arrive exactly once, intact", small, {"len": len(body)},
                            [(m.header.function, len(m.data)) for m in got])
            check_role_header(res, small, got, direction, sender)
        elif got:
            res.violate("c17-bad-delivered", "the send reported failure but a message was delivered", small)
    finally:
        pair.close()


class Wire(secsgem.common.Connection):
    """a FOREIGN sender's line: the harness writes the bytes itself and reads the endpoint's control bytes"""

    def __init__(self, settings):
        super().__init__(settings)
        self.sent = []
        self.cv = threading.Condition()

    def enable(self):
        pass

    def disable(self):
        pass

    def send_data(self, data):
        with self.cv:
            self.sent.extend(bytes(data))
            self.cv.notify_all()
        return True

    def take(self):
        """next control byte the endpoint wrote (EOT / ACK / NAK), or None after the stall budget"""
        with self.cv:
            if not self.cv.wait_for(lambda: len(self.sent) > 0, deadline()):
                STALLS[0] += 1
                STALL_LOG.append("control byte from the endpoint")
                return None
            return self.sent.pop(0)


class WS(SecsISettings):
    def create_connection(self):
        self.conn = Wire(self)
        return self.conn


def run_foreign_sender(cx, case):
    """a foreign (non-secsgem) sender plays ENQ / block after EOT against ONE real SecsIProtocol: multi-block messages whose NON-final blocks
    carry fewer than 244 bytes (legal in E4: only the E-bit ends a message), optionally two messages interleaved.
    Oracle: every ACKed block sequence of a message whose last block has the E-bit is delivered exactly once, intact."""
    from secsgem.secsi.header import SecsIHeader
    res, rng = cx.res, cx.rng
    role = secsgem.common.DeviceType.HOST if case["endpoint"] == "host" else secsgem.common.DeviceType.EQUIPMENT
    proto = SecsIProtocol(WS(port="F", device_type=role, device_id=5))
    wire = proto._connection
    got = []
    proto.events.message_received += lambda d: got.append(d["message"])
    busy = {"n": 0}
    lock = threading.Lock()

    def wrap(orig):
        def run(*a):
            with lock:
                busy["n"] += 1
            try:
                return orig(*a)
            finally:
                with lock:
                    busy["n"] -= 1
        return run

    proto._thread._receiver_target = wrap(proto._thread._receiver_target)
    proto._thread._dispatcher_target = wrap(proto._thread._dispatcher_target)
    wire.on_connected({"source": wire})
    from_eq = case["endpoint"] == "host"  # the peer is the other role
    msgs = []
    for mi, sizes in enumerate(case["sizes"]):
        body = hlib.Rng(case["body_seed"] + mi).bytes(sum(sizes))
        system = (case["system"] + mi) % 2 ** 32
        blocks, pos = [], 0
        for k, n in enumerate(sizes):
            h = SecsIHeader(system, 5, 7, 2 * mi + 1, k + 1, require_response=False, from_equipment=from_eq, last_block=(k == len(sizes) - 1))
            blocks.append(SecsIBlock(h, body[pos:pos + n]))
            pos += n
        msgs.append((system, body, blocks))
    # line order: sequential, or the blocks of the messages alternating
    order = []
    if case["interleave"]:
        idx = [0] * len(msgs)
        while any(idx[i] < len(msgs[i][2]) for i in range(len(msgs))):
            for i in range(len(msgs)):
                if idx[i] < len(msgs[i][2]):
                    order.append(msgs[i][2][idx[i]])
                    idx[i] += 1
    else:
        for m in msgs:
            order += m[2]
    accepted, answers = [], []
    for blk in order:
        wire.on_data({"source": wire, "data": bytes([ENQ])})
        a1 = wire.take()
        if a1 != EOT:
            answers.append(("no EOT", a1))
            break
        raw = bytes(blk.encode())
        for i in range(0, len(raw), case["chunk"]):
            wire.on_data({"source": wire, "data": raw[i:i + case["chunk"]]})
        a2 = wire.take()
        answers.append(a2)
        if a2 == ACK:
            accepted.append(blk)
        elif a2 is None:
            break

    def quiet():
        th = proto._thread
        return not (busy["n"] or th._dispatch_queue.qsize() or th._dispatcher_thread_trigger.is_set() or th._receiver_thread_trigger.is_set())

    wait_until(lambda: quiet() and (time.sleep(0) or quiet()), "quiescence of the endpoint fed by the foreign sender")
    small = dict(case, answers=["ACK" if a == ACK else ("NAK" if a == NAK else repr(a)) for a in answers],
                 delivered=[(m.header.system, m.header.function, len(m.data), len(m.blocks)) for m in got])
    res.count(("foreign", case["endpoint"], tuple(map(tuple, case["sizes"])), case["interleave"], case["chunk"]), sample=small if case.get("sample") else None)
    res.bump("foreign_sender", ("interleaved " if case["interleave"] else "") + "/".join(str(len(z)) for z in case["sizes"]) + " blocks, short non-final blocks")
    if any(a != ACK for a in answers):
        res.violate("c17-good-block-refused", "a valid block of a foreign sender was not acknowledged with ACK", small, "ACK", small["answers"])
    for (system, body, blocks) in msgs:
        if all(b in accepted for b in blocks):
            mine = [m for m in got if m.header.system == system]
            if len(mine) != 1 or bytes(mine[0].data) != body or len(mine[0].blocks) != len(blocks) or bool(mine[0].header.from_equipment) != from_eq:
                res.violate("c17-not-delivered-intact", "a multi-block message of a foreign sender whose non-final blocks carry fewer than 244 bytes: every block "
                            "was ACKed, the last one has the E-bit, but the message was not delivered exactly once, intact", small,
                            {"system": system, "len": len(body), "blocks": len(blocks)}, [(m.header.system, len(m.data), len(m.blocks)) for m in mine])
    if len(got) > len(msgs):
        res.violate("c17-not-delivered-intact", "more messages were delivered than were sent", small, len(msgs), len(got))
    if cx.drv.available and accepted:
        line = "secsi reasm " + " ".join(show_block(b) for b in accepted)
        impl = "ok " + ";".join(show_block_hdr(m.header) + " " + hexs(bytes(m.data)) + " n=" + str(len(m.blocks)) for m in got)
        ans = hlib.strip_branch(cx.drv.run([line])[0]).split(" | pending=")[0]
        res.traces_validated += 1
        res.driver_used = True
        if ans != impl:
            res.disagree("foreign sender: messages delivered vs Model.SecsI.reassemble (C16) of the accepted blocks", {"case": small}, ans[:500], impl[:500])


def run_same_system(cx, case):
    """consecutive messages in ONE direction with EQUAL system bytes (the peer re-uses the system bytes of a closed transaction; with
    `send_response` the caller chooses them).  Oracle: every message whose send returned True is delivered exactly once, intact, in order."""
    res, rng = cx.res, cx.rng
    pair = Pair(rng.fork("same"), case["chunks"], case["pumped"], 0)
    try:
        direction = case["dir"]
        sender, skey, rkey = (pair.host, "H", "E") if direction == "H2E" else (pair.equip, "E", "H")
        a_end = pair.ch if direction == "H2E" else pair.ce
        a_end.name, a_end.peer.name = "a", "b"
        bodies = [hlib.Rng(case["body_seed"] + i).bytes(n) for i, n in enumerate(case["body_lens"])]
        fns = [Fn(1 + i, 2 * i + 2, False, b) for i, b in enumerate(bodies)]
        results = []
        for fn in fns:
            out = {}
            t = threading.Thread(target=lambda fn=fn, out=out: out.update(r=sender.send_response(fn, case["system"])), daemon=True)
            t.start()
            join(t, "send_response")
            results.append("blocked" if t.is_alive() else out.get("r"))
            if t.is_alive():
                break
        if "blocked" not in results:
            pair.quiesce()
        got = list(pair.got[rkey])
        with pair.world.lock:
            transcript = list(pair.world.transcript)
        small = dict(case, results=[repr(r) for r in results], delivered=[(m.header.stream, m.header.function, len(m.data)) for m in got])
        res.count(("same-system", direction, tuple(case["body_lens"]), case["system"]), sample=small if case.get("sample") else None)
        res.bump("same_system_bytes_messages", "/".join(str(max(1, -(-n // 244))) for n in case["body_lens"]) + " blocks")
        want = [(fn.stream, fn.function, bodies[i]) for i, fn in enumerate(fns) if i < len(results) and results[i] is True]
        have = [(m.header.stream, m.header.function, bytes(m.data)) for m in got]
        if "blocked" in results:
            res.violate("c17-wedged", "a send call did not return on a perfect line", small)
        elif any(r is not True for r in results):
            res.violate("c17-send-failed", "a send call reported failure on a perfect line", small, True, results)
        if have != want:
            res.violate("c17-not-delivered-intact", "consecutive messages with equal system bytes: a message whose send reported success was not "
                        "delivered exactly once, intact, in order", small, [(a_, b_, len(c_)) for a_, b_, c_ in want], [(a_, b_, len(c_)) for a_, b_, c_ in have])
        if any(m.header.system != case["system"] for m in got):
            res.violate("c17-not-delivered-intact", "delivered with different system bytes", small)
        check_role_header(res, small, got, direction, sender)
        line_blocks = []
        for (n, d) in transcript:
            if n == "a" and len(d) > 1:
                blk = SecsIBlock.decode(d)
                if blk is not None:
                    line_blocks.append(blk)
        if cx.drv.available and line_blocks:
            line = "secsi reasm " + " ".join(show_block(b) for b in line_blocks)
            impl = "ok " + ";".join(show_block_hdr(m.header) + " " + hexs(bytes(m.data)) + " n=" + str(len(m.blocks)) for m in got) + " | pending="
            ans = hlib.strip_branch(cx.drv.run([line])[0])
            res.traces_validated += 1
            res.driver_used = True
            if ans != impl:
                res.disagree("equal system bytes: messages delivered vs Model.SecsI.reassemble (C16) of the blocks on the line",
                             {"case": {k: v for k, v in small.items() if k != "results"}}, ans[:500], impl[:500])
    finally:
        pair.close()


class PreemptedAfterSet(threading.Event):
    """the thread that sets the event loses the cpu right after the waiters were woken (a legal schedule)"""

    def set(self):
        super().set()
        time.sleep(0.25)


def run_preempted_resolve(cx, case):
    """`BlockSendInfo.resolve` is preempted right after it has signalled its event; the block was corrupted (NAK) or fine (ACK).
    Oracle: the send reports exactly what the line said: False for NAK, True for ACK."""
    import secsgem.common.protocol as proto_mod
    res, rng = cx.res, cx.rng
    orig_cls = proto_mod.BlockSendInfo

    class Scheduled(orig_cls):
        def __init__(self, data):
            super().__init__(data)
            self._result_trigger = PreemptedAfterSet()

    proto_mod.BlockSendInfo = Scheduled
    pair = Pair(rng.fork("preempt"), case["chunks"], False, 0)
    try:
        direction = case["dir"]
        sender, skey, rkey = (pair.host, "H", "E") if direction == "H2E" else (pair.equip, "E", "H")
        a_end = pair.ch if direction == "H2E" else pair.ce
        a_end.name, a_end.peer.name = "a", "b"
        body = hlib.Rng(case["body_seed"]).bytes(case["body_len"])
        fn = Fn(case["stream"], case["function"], False, body)
        sender._system_counter = case["system"] - 1
        fault = case.get("fault")
        if fault is not None:
            pair.world.fault = ("a", 1, fault[1], fault[2])
        out = {}
        t = threading.Thread(target=lambda: out.update(r=sender.send_stream_function(fn)), daemon=True)
        t.start()
        if join(t, "send call (resolve preempted)"):
            pair.quiesce()
        with pair.world.lock:
            transcript = list(pair.world.transcript)
        answer = [d for (n, d) in transcript if n == "b"][1:2]
        r = "blocked" if t.is_alive() else out.get("r")
        small = dict(case, answer=answer[0].hex() if answer else None, returned=repr(r))
        res.count(("preempted-resolve", direction, case["body_len"], fault), sample=small if case.get("sample") else None)
        res.bump("resolve_preempted_after_event_set", f"fault={'yes' if fault else 'no'} -> {r}")
        if answer == [bytes([NAK])] and r is not False:
            res.violate("c17-nak-success", "the block was answered with NAK but the send call did not report failure (the thread resolving the result "
                        "was preempted right after signalling its event)", small, False, r)
        if answer == [bytes([ACK])] and r is not True:
            res.violate("c17-send-failed", "the block was acknowledged but the send call did not report success", small, True, r)
        if answer == [bytes([NAK])] and pair.got[rkey]:
            res.violate("c17-bad-delivered", "a message was delivered although its block was answered with NAK", small)
    finally:
        proto_mod.BlockSendInfo = orig_cls
        pair.close()


def guarded(cx, fn, case):
    """run one scenario; an exception out of the implementation (or out of the scenario because the implementation produced
    something impossible: no blocks, None, ...) is a VIOLATION with the input, never a harness crash"""
    try:
        return fn(cx, case)
    except Exception as exc:  # noqa: BLE001
        import traceback
        tb = traceback.extract_tb(exc.__traceback__)
        where = "; ".join(f"{os.path.basename(f.filename)}:{f.lineno} {f.name}" for f in tb[-3:])
        cx.res.violate("c17-exception", f"{type(exc).__name__}: {exc} ({where})", {k: v for k, v in case.items()}, "no exception", repr(exc))
        cx.res.count(("exception", repr(sorted(case.items(), key=str))), nontrivial=False)
        return None


class Cx:
    def __init__(self, a):
        self.a = a
        self.res = hlib.Result("C17", a.tier, a.seed)
        self.rng = hlib.Rng(a.seed ^ 0xC17)
        self.drv = RetryDriver()
        self.big = a.tier == "thorough" or a.search
        self.lines, self.impl, self.cases = [], [], []


def gen_case(rng, body_len, fault=None, direction=None):
    orders = ["ptdTDP", "TDPptd", "dDtTpP", "PpTtDd", "tTdDpP"]
    return {
        "dir": direction or rng.choice(["H2E", "E2H"]),
        "body_len": body_len, "body_seed": rng.below(2 ** 31),
        "stream": rng.choice([1, 6, 7, 127]), "function": rng.choice([1, 3, 11, 255]), "w": bool(rng.below(2)),
        "system": rng.choice([1, 2, 2 ** 32 - 1, rng.range(1, 2 ** 32 - 1)]),
        "chunks": rng.choice([[1], [1000], [2, 3], [5, 1, 13], [7], [100, 1, 1, 1], [rng.range(1, 20) for _ in range(rng.range(1, 6))]]),
        "pumped": bool(rng.below(2)), "jitter": rng.choice([0, 0, 0.0005]),
        "api": rng.choice(["stream_function", "stream_function", "response"]),
        "order": rng.choice(orders), "fault": fault,
    }


def main():
    a = hlib.std_args()
    cx = Cx(a)
    res, rng = cx.res, cx.rng
    res.rule = ("two real SecsIProtocol instances over an in-memory line; body lengths 0,1,243,244,245,487,488,489,600 (quick: up to 3 blocks; thorough: up to 40 "
                "blocks); both directions; send_stream_function and send_response; seeded chunk-size schedules (1 byte, whole, mixed), synchronous and pumped "
                "delivery; one byte replaced on the line at EVERY offset of one small block (several values each) and sampled offsets of larger/multi-block "
                "messages. distinct = distinct (direction, body length, system, chunking, fault, api); non-trivial = every case (a full ENQ/EOT/block/ACK exchange)")
    budget = 2400 if cx.big else 600

    def watchdog():
        time.sleep(budget)
        res.violate("c17-harness-stalled", f"the check did not finish within {budget} s: the implementation stalls (waits that ran into their "
                    f"deadline: {STALL_LOG[-6:]})", {"stalls": STALL_LOG[-12:]})
        res.notes.append("watchdog: harness budget used up")
        res.dump(a.out)
        os._exit(0)

    threading.Thread(target=watchdog, daemon=True).start()
    if a.replay:
        import json
        body = json.load(open(a.replay))
        for v in body.get("violations", []):
            c = v.get("case")
            if isinstance(c, dict) and c.get("part") == "concurrent":
                for _ in range(5):
                    guarded(cx, run_concurrent, {k: v for k, v in c.items() if k not in ("line_order", "interleaved", "results")})
            elif isinstance(c, dict) and c.get("part") == "concurrent-fault":
                for _ in range(5):
                    guarded(cx, run_concurrent_fault, {k: v for k, v in c.items() if k not in ("damaged_function", "results", "accepted", "delivered")})
            elif isinstance(c, dict) and c.get("part") == "block-gap":
                guarded(cx, run_block_gap, {k: v for k, v in c.items() if k not in ("returned", "acked_blocks", "delivered")})
            elif isinstance(c, dict) and c.get("part") == "foreign-sender":
                guarded(cx, run_foreign_sender, {k: v for k, v in c.items() if k not in ("answers", "delivered")})
            elif isinstance(c, dict) and c.get("part") == "same-system":
                guarded(cx, run_same_system, {k: v for k, v in c.items() if k not in ("results", "delivered")})
            elif isinstance(c, dict) and c.get("part") == "preempted-resolve":
                guarded(cx, run_preempted_resolve, {k: v for k, v in c.items() if k not in ("answer", "returned")})
            elif isinstance(c, dict) and c.get("part") == "slow-answer":
                guarded(cx, run_slow_answer, {k: v for k, v in c.items() if k not in ("answer", "returned", "after_s")})
            elif isinstance(c, dict) and "dir" in c:
                c = dict(c)
                c.pop("blocks", None)
                guarded(cx, run_case, c)
    else:
        lens = [0, 1, 243, 244, 245, 487, 488, 489, 600, 732]
        if cx.big:
            lens += [733, 244 * 10, 244 * 20 + 7, 244 * 40]
        # perfect line
        for n in lens:
            for direction in ("H2E", "E2H"):
                for _ in range(3 if cx.big else 2):
                    guarded(cx, run_case, gen_case(rng, n, direction=direction))
        # exhaustive positions on one small block (13 bytes: no data) and one with 3 data bytes
        n_exh = 0
        for body_len in ((0, 3) if cx.big else (0,)):
            total = 13 + body_len
            for pos in range(0, total):
                vals = list(range(256)) if (cx.big and body_len == 0) else [0, 255, 0x80, rng.below(256), rng.below(256)]
                for v in vals:
                    c = gen_case(rng, body_len, direction=rng.choice(["H2E", "E2H"]))
                    c["fault"] = (0, pos, v)
                    c["watchdog"] = 0.5 if pos == 0 else 3.0
                    guarded(cx, run_case, c)
                    n_exh += 1
        res.exhaustive_parts.append(f"one byte replaced at every offset of a 13-byte block (thorough: and a 16-byte block) ({n_exh} transfers)")
        # blocks whose byte sum is below 256 (high checksum byte 0x00): the low checksum byte replaced by 0x00 makes the field read 0x0000,
        # which must still be a checksum error (NAK), not "nothing to verify"
        for k in range(6):
            c = gen_case(rng, 0, direction="H2E")
            c.update(stream=1, function=1, w=False, system=1 + k % 2, fault=(0, 12, 0), chunks=[1000], pumped=False, jitter=0, watchdog=3.0)
            guarded(cx, run_case, c)
        # every BIT of every header byte, for odd and even functions, W-bit set and unset
        n_bits = 0
        for function in (1, 2):
            for w in (False, True):
                # quick: all ten header bytes for (odd, W) and (even, no W); device id / stream+W / function bytes for the other two combinations
                for pos in (range(1, 11) if (cx.big or (function % 2 == 1) == w) else range(1, 5)):
                    for bit in range(8):
                        c = gen_case(rng, 0, direction=rng.choice(["H2E", "E2H"]))
                        c.update(function=function, w=w, stream=rng.choice([1, 6, 127]), fault=None, fault_flip=(0, pos, bit), chunks=[1000], pumped=False,
                                 jitter=0, watchdog=3.0)
                        guarded(cx, run_case, c)
                        n_bits += 1
        res.exhaustive_parts.append(f"every single bit of the header bytes flipped, function odd/even x W-bit set/unset ({n_bits} transfers; quick: all 10 bytes for two of the four combinations, bytes 1-4 for the others)")
        # sampled corruption in larger / multi-block messages
        for _ in range(120 if cx.big else 30):
            n = rng.choice([1, 243, 244, 245, 488, 489, 600])
            nblocks = max(1, -(-n // 244))
            j = rng.below(nblocks)
            blen = 13 + (min(244, n - 244 * j) if n else 0)
            pos = rng.range(1, blen - 1)
            c = gen_case(rng, n)
            c["fault"] = (j, pos, rng.below(256))
            guarded(cx, run_case, c)
    if not a.replay:
        # concurrent senders on one endpoint (blocks of two or three multi-block messages alternate on the line)
        seen = 0
        for k in range(12 if cx.big else 5):
            lens = [rng.choice([300, 330, 489, 600]) for _ in range(2 if k % 3 else 3)]
            c = {"part": "concurrent", "dir": rng.choice(["H2E", "E2H"]), "body_lens": lens, "body_seed": rng.below(2 ** 31),
                 "system": rng.choice([17, 2 ** 32 - 1, rng.range(1, 2 ** 32 - 4)]), "chunks": rng.choice([[1000], [7], [100, 1, 1, 1]]),
                 "pumped": bool(rng.below(2)), "sample": seen == 0}
            seen += 1 if guarded(cx, run_concurrent, c) else 0
        if seen == 0:
            res.notes.append("concurrent senders: the blocks never interleaved on the line in this run")
        # ... and a checksum error in a block of one of them while the other is still incomplete
        placed = 0
        for k in range(14 if cx.big else 6):
            lens = [rng.choice([300, 489, 600, 733]) for _ in range(2)]
            c = {"part": "concurrent-fault", "dir": rng.choice(["H2E", "E2H"]), "body_lens": lens, "body_seed": rng.below(2 ** 31),
                 "system": rng.choice([17, 2 ** 32 - 1, rng.range(1, 2 ** 32 - 4)]), "chunks": rng.choice([[1000], [7], [100, 1, 1, 1]]),
                 "pumped": bool(rng.below(2)), "which": ["later", "first", "any"][k % 3], "offset": rng.below(250), "xor": rng.below(255),
                 "sample": placed == 0}
            placed += 1 if guarded(cx, run_concurrent_fault, c) else 0
        if placed == 0:
            res.notes.append("concurrent senders with checksum error: no block could be damaged while another message was incomplete in this run")
        # short T3, the peer's answer held back beyond it
        for k, (hold, fault) in enumerate([(0.5, True), (0.5, False), (None, True), (None, False)] + ([(0.8, True), (0.3, True)] if cx.big else [])):
            c = gen_case(rng, rng.choice([0, 3, 100]))
            c.update(part="slow-answer", t3=0.2, hold=hold, fault=(0, rng.range(1, 12), rng.below(256)) if fault else None, sample=k < 2)
            if fault:
                c["fault"] = (0, c["fault"][1], c["fault"][2])
            guarded(cx, run_slow_answer, c)
        # consecutive messages with equal system bytes, same direction (header-only, single-block, multi-block)
        for k, lens in enumerate([[0, 0], [0, 5, 0], [10, 10], [300, 300], [0, 300, 0], [244, 244, 1]] + ([[0] * 4, [489, 5, 489]] if cx.big else [])):
            c = {"part": "same-system", "dir": rng.choice(["H2E", "E2H"]), "body_lens": lens, "body_seed": rng.below(2 ** 31),
                 "system": rng.choice([7, 0, 2 ** 32 - 1, rng.range(1, 2 ** 32 - 1)]), "chunks": rng.choice([[1000], [3], [100, 1, 1, 1]]),
                 "pumped": bool(rng.below(2)), "sample": k == 0}
            guarded(cx, run_same_system, c)
        # a gap longer than T4 between two blocks of one message
        for k, (n, after) in enumerate([(300, [0]), (600, [1]), (600, [0, 1])] + ([(733, [2]), (489, [0])] if cx.big else [])):
            c = {"part": "block-gap", "dir": rng.choice(["H2E", "E2H"]), "body_len": n, "body_seed": rng.below(2 ** 31), "stream": 7, "function": 3,
                 "system": rng.range(1, 2 ** 32 - 1), "chunks": rng.choice([[1000], [50]]), "t4": 0.2, "gap": 0.5, "after_blocks": after, "sample": k == 0}
            guarded(cx, run_block_gap, c)
        # a foreign sender: multi-block messages whose non-final blocks are shorter than 244 bytes, also interleaved
        for k in range(10 if cx.big else 5):
            n_msgs = 1 if k % 2 == 0 else 2
            sizes = [[rng.range(1, 243)] + [rng.range(0, 244) for _ in range(rng.range(0, 2))] + [rng.range(0, 244)] for _ in range(n_msgs)]
            if k == 0:
                sizes = [[100, 244, 7]]
            c = {"part": "foreign-sender", "endpoint": rng.choice(["host", "equipment"]), "sizes": sizes, "interleave": n_msgs == 2 and bool(rng.below(2)),
                 "body_seed": rng.below(2 ** 31), "system": rng.choice([9, 2 ** 32 - 1, rng.range(1, 2 ** 32 - 3)]), "chunk": rng.choice([1000, 7, 1]),
                 "sample": k == 0}
            guarded(cx, run_foreign_sender, c)
        # the thread resolving the send result is preempted right after it signalled the event
        for k, fault in enumerate([True, False, True]):
            c = gen_case(rng, rng.choice([0, 0, 7]))
            c.update(part="preempted-resolve", chunks=[1000], fault=(0, rng.range(1, 12), rng.below(256)) if fault else None, sample=k == 0)
            guarded(cx, run_preempted_resolve, c)
    if cx.lines and cx.drv.available:
        res.driver_used = True
        outs = cx.drv.run(cx.lines)
        for case, line, ans, impl in zip(cx.cases, cx.lines, outs, cx.impl):
            res.traces_validated += 1
            ans = hlib.strip_branch(ans)
            mm = re.match(r"ok (log=\S+ delivered=.*? outcome=\S+) apc=", ans)
            model = mm.group(1) if mm else ans[:300]
            if model != impl:
                res.disagree("two SecsIProtocol over a re-chunking line vs Model.SecsILine", {"case": case, "line": line[:600]},
                             model[:900], impl[:900])
    elif cx.lines:
        res.notes.append(f"driver unavailable: {len(cx.lines)} correspondence cases skipped")
    if STALL_LOG:
        res.notes.append(f"waits that ran into their deadline ({len(STALL_LOG)}): " + "; ".join(STALL_LOG[:10]))
    res.dump(a.out)
    sys.stdout.flush()
    os._exit(0)


if __name__ == "__main__":
    main()
