"""C15 — SML text of any item parses back to the same item; the parser terminates and rejects unclosed / unknown-type input.

O (direct oracle, real classes only)
  * items of every type (type-directed generator) -> real `to_sml()` / `str()` -> real `Item.from_sml` -> same type structure and values
    (`_value` compared exactly, floats by IEEE bits, plus `encode()` bytes)
  * big items (lists of 255..1000 members at several nesting levels, arrays / text of 257+ elements); A/J items constructed from `str`
    over U+0000..U+00FF and the JIS X 0201 specials: not an encodable item, or the SML parses back to the same text
  * rejection stream: every single-token deletion and every type-name mutation of valid SML, every closing `>` (of every item class,
    alone and nested) replaced by `.`, `<`, a number, a quoted literal, a type word, `[`/`]` — must raise, except `.` for a list's `>` —, every single-character deletion
    and every truncation of valid SML (so: input ending inside an open quoted literal), random strings over the token alphabet and over a
    character alphabet; every call of the real tokenizer/parser/printer under a 2 s watchdog; a deadline hit is only a suspicion and is
    re-run under a step budget (sys.settrace line count, 200 per input character + 10 000): exceeding THAT is violation class
    `c15-nontermination` with the minimised input — load-independent (after a confirmed one the deadline drops to 0.4 s, still confirmed
    by the step budget, and the run stops after a few); a deleted closing bracket or an
    unknown type name must raise
  * the two laws assumed of the float text (`float(repr(x)) == x` bit for bit; no quote/bracket/whitespace in `repr(x)`) sampled;
    `float()` (as `ItemF4/F8._type`) rejects `<`, `>`, `.`, `''`, `>.` and accepts no string containing a bracket (literals + sample)
C (correspondence with the Lean model through the driver, domain `sml`)
  * print: `toSml` vs `to_sml()` on every generated item, with the defect flags the implementation currently shows
  * parse: `tokenize`+`readItem` vs `Item.from_sml` on every printed text and on the whole rejection stream (item or error kind, tokens left)
  * `pyInt` vs `int(text)` / `int(text, 0)` on a literal alphabet; `tokenize` vs `SMLParser._tokens`

Former findings (DESIGN §6 F-19, F-20; repaired by fix commits b87686c, 34e8c21 — no `open:` line any more, so they are NEW violations if
they reappear), still keyed by the *minimised* failing item so that a revert is named precisely:
  c15-quote          an A or J item whose text contains `"`               (the quote is printed inside a quoted run)
  c15-jis8-nonascii  a J item containing one of the bytes 5c, 7e, a1..df  (hex code of the decoded character, not of the byte)
The two witnesses are replayed first; the model is driven with the defect flags the implementation shows (none on the current tree).
Any other failing item is reported under its own class.
"""
from __future__ import annotations

import json
import os
import signal
import struct
import sys

sys.path.insert(0, os.path.dirname(os.path.dirname(os.path.abspath(__file__))))
import hlib  # noqa: E402

from secsgem.secs.item import Item  # noqa: E402
from secsgem.secs.items import (  # noqa: E402
    ItemA, ItemB, ItemBOOLEAN, ItemF4, ItemF8, ItemI1, ItemI2, ItemI4, ItemI8, ItemJ, ItemL, ItemU1, ItemU2, ItemU4, ItemU8,
)
from secsgem.secs.sml import SMLParser  # noqa: E402

INT_TYPES = {"U1": ItemU1, "U2": ItemU2, "U4": ItemU4, "U8": ItemU8, "I1": ItemI1, "I2": ItemI2, "I4": ItemI4, "I8": ItemI8}
FLT_TYPES = {"F4": ItemF4, "F8": ItemF8}
CLASSES = {"L": ItemL, "B": ItemB, "BOOLEAN": ItemBOOLEAN, "A": ItemA, "J": ItemJ, **INT_TYPES, **FLT_TYPES}
BOUNDS = {"U1": (0, 2**8 - 1), "U2": (0, 2**16 - 1), "U4": (0, 2**32 - 1), "U8": (0, 2**64 - 1),
          "I1": (-2**7, 2**7 - 1), "I2": (-2**15, 2**15 - 1), "I4": (-2**31, 2**31 - 1), "I8": (-2**63, 2**63 - 1)}
FLT_MAX = 3.4028234663852886e38
DBL_MAX = 1.7976931348623157e308
JIS_SPECIAL = {0x5C, 0x7E} | set(range(0xA1, 0xE0))
QUOTE = 0x22

# bytes that interact with the tokenizer / printer
STRESS = [0x22, 0x27, 0x3C, 0x3E, 0x5B, 0x5D, 0x2E, 0x20, 0x09, 0x0A, 0x0D, 0x0B, 0x0C, 0x00, 0x01, 0x1B, 0x1F, 0x7F,
          0x80, 0x85, 0xA0, 0xA1, 0xA5, 0xDF, 0xE0, 0xFF, 0x5C, 0x7E, 0x41, 0x7A, 0x30, 0x78, 0x5F, 0x2D]


class Hang(BaseException):
    pass


def _alarm(_sig, _frm):
    raise Hang()


signal.signal(signal.SIGALRM, _alarm)


class AbortRun(BaseException):
    """too many non-terminating parses: stop exploring, report what was found"""


HANGS = {"n": 0, "false_alarms": 0}
FIRST_DEADLINE = 2.0     # the property's bound for one parse (a trigger only: the verdict is the step budget below)
LATER_DEADLINE = 0.4     # after a CONFIRMED non-termination later calls are cut earlier (a normal parse takes < 10 ms)
HANG_HARD_LIMIT = 14


def step_budget(size: int) -> int:
    """executed source lines allowed for a call that handles `size` characters / elements.  The tokenizer spends ~25 lines per character,
    the readers and the printer less: 200 per unit + 10 000 is an order of magnitude above any terminating run and independent of load."""
    return 200 * max(size, 1) + 10_000


def step_bounded(fn, budget: int):
    """Run fn() counting executed lines (sys.settrace) instead of seconds.  ('ok', value) | ('err', exc) | ('hang', None) —
    'hang' iff more than `budget` lines were executed.  Deterministic: machine load cannot change the verdict."""
    count = 0

    def local(frame, event, arg):
        nonlocal count
        if event == "line":
            count += 1
            if count > budget:
                raise Hang()
        return local

    def tracer(frame, event, arg):
        return local

    old = sys.gettrace()
    sys.settrace(tracer)
    try:
        return "ok", fn()
    except Hang:
        return "hang", None
    except RecursionError as exc:
        return "err", exc
    except Exception as exc:  # noqa: BLE001
        return "err", exc
    finally:
        sys.settrace(old)


def guarded(fn, seconds=None, count=True, size=1000):
    """Run fn() under a wall-clock watchdog (SIGALRM interrupts pure-Python loops).  A deadline hit is only a *suspicion* (the machine may
    be overloaded): the call is repeated under the step budget, and only exceeding that is reported as non-termination; if the repeat
    finishes within the budget its result is returned as if nothing had happened.
    Returns ('ok', value) | ('err', exc) | ('hang', None)."""
    if seconds is None:
        seconds = FIRST_DEADLINE if HANGS["n"] == 0 else LATER_DEADLINE
    signal.setitimer(signal.ITIMER_REAL, seconds)
    try:
        return "ok", fn()
    except Hang:
        pass
    except RecursionError as exc:
        return "err", exc
    except Exception as exc:  # noqa: BLE001
        return "err", exc
    finally:
        signal.setitimer(signal.ITIMER_REAL, 0)
    st, val = step_bounded(fn, step_budget(size))
    if st != "hang":
        HANGS["false_alarms"] += 1
        return st, val
    if count:
        HANGS["n"] += 1
        if HANGS["n"] >= HANG_HARD_LIMIT:
            raise AbortRun() from None
    return "hang", None


def hangs(text: str) -> bool:
    """probe used while minimising a non-terminating input: step budget only (deterministic, not counted)"""
    return step_bounded(lambda: Item.from_sml(text), step_budget(len(text)))[0] == "hang"


def minimise_hang(text: str) -> str:
    """shortest sub-text (characters dropped, order kept) on which the parser still does not terminate; bounded number of probes"""
    if len(text) > 80:
        return text
    budget = {"n": 40}

    def fails(chars):
        if budget["n"] <= 0:
            return False
        budget["n"] -= 1
        return hangs("".join(chars))
    try:
        return "".join(hlib.ddmin(list(text), fails))
    except Exception:  # noqa: BLE001
        return text


# ------------------------------------------------------------------------------------------------ trees
# A tree is ("L", [tree…]) | ("B", bytes) | ("BOOLEAN", [bool…]) | ("A", bytes) | ("J", bytes) | ("U1", [int…]) … | ("F8", [float…])

def dbits(x: float) -> int:
    return struct.unpack(">Q", struct.pack(">d", x))[0]


def from_bits(b: int) -> float:
    return struct.unpack(">d", struct.pack(">Q", b))[0]


def build(tree):
    """tree -> real Item"""
    tag, val = tree
    if tag == "L":
        return ItemL([build(t) for t in val])
    if tag == "A":
        return ItemA(val)      # bytes -> decoded with latin1 by the constructor
    if tag == "J":
        return ItemJ(val)      # bytes -> decoded with jis_8 by the constructor
    if tag == "B":
        return ItemB(val)
    return CLASSES[tag](list(val))


def sexp(tree) -> str:
    tag, val = tree
    if tag == "L":
        return "(L)" if not val else "(L " + " ".join(sexp(t) for t in val) + ")"
    if tag in ("A", "J", "B"):
        return f"({tag} {hlib.hexs(bytes(val))})"
    if tag == "BOOLEAN":
        return "(BOOLEAN" + "".join(" 1" if v else " 0" for v in val) + ")"
    if tag in FLT_TYPES:
        return f"({tag}" + "".join(f" {dbits(v):016x}" for v in val) + ")"
    return f"({tag}" + "".join(f" {v}" for v in val) + ")"


def tree_of(item) -> tuple:
    """real Item -> tree (what the object holds)"""
    name = item._sml_type
    v = item._value
    if name == "L":
        return ("L", [tree_of(x) for x in v])
    if name == "A":
        return ("A", v.encode("latin1"))
    if name == "J":
        return ("J", v.encode("jis_8"))
    if name == "B":
        return ("B", bytes(v))
    if name == "BOOLEAN":
        return ("BOOLEAN", [bool(x) for x in v])
    return (name, list(v))


def same(a, b) -> bool:
    """identical type structure and values (floats by bit pattern, bools are not ints)"""
    if a[0] != b[0]:
        return False
    if a[0] == "L":
        return len(a[1]) == len(b[1]) and all(same(x, y) for x, y in zip(a[1], b[1]))
    if a[0] in FLT_TYPES:
        return len(a[1]) == len(b[1]) and all(type(x) is float and type(y) is float and dbits(x) == dbits(y) for x, y in zip(a[1], b[1]))
    if a[0] in ("A", "J", "B"):
        return bytes(a[1]) == bytes(b[1])
    return len(a[1]) == len(b[1]) and all(type(x) is type(y) and x == y for x, y in zip(a[1], b[1]))


def floats_of(tree, out):
    if tree[0] == "L":
        for t in tree[1]:
            floats_of(t, out)
    elif tree[0] in FLT_TYPES:
        out.extend(tree[1])
    return out


def tree_size(tree) -> int:
    """number of nodes + elements (what printing is linear in)"""
    return 1 + (sum(tree_size(t) for t in tree[1]) if tree[0] == "L" else 8 * len(tree[1]))


def depth_of(tree) -> int:
    return 1 + max((depth_of(t) for t in tree[1]), default=0) if tree[0] == "L" else 0


def leaves(tree, out):
    if tree[0] == "L":
        for t in tree[1]:
            leaves(t, out)
    else:
        out.append(tree)
    return out


# ------------------------------------------------------------------------------------------------ generators
def gen_text(rng, kind, allow_quote, allow_jis):
    n = rng.choice([0, 1, 1, 2, 2, 3, 4, 5, 8, 12, 20])
    out = bytearray()
    for _ in range(n):
        r = rng.below(10)
        if r < 5:
            b = rng.choice(STRESS)
        elif r < 7:
            b = rng.range(0x20, 0x7E)
        else:
            b = rng.below(256)
        if b == QUOTE and not allow_quote:
            b = 0x27
        if kind == "J" and b in JIS_SPECIAL and not allow_jis:
            b = rng.choice([0x80, 0xA0, 0xE0, 0xFF, 0x41, 0x20])
        out.append(b)
    return bytes(out)


def gen_ints(rng, tag):
    lo, hi = BOUNDS[tag]
    pool = [lo, lo + 1, hi - 1, hi, 0, 1, (lo + hi) // 2]
    if lo < 0:
        pool += [-1, -10, -9, 9, 10, -100, 99, 100]
    n = rng.choice([0, 1, 1, 2, 3, 5, 9])
    return [rng.choice(pool) if rng.chance(3, 5) else rng.range(lo, hi) for _ in range(n)]


SPECIAL_DOUBLES = [0.0, -0.0, 0.1, -0.1, 1.0, -1.0, 1e22, 1e23, 1e16, 1e-7, 1e-5, 0.0001, 123456789012345680.0, 1 / 3, 2 / 3, 5e-324, -5e-324,
                   2.2250738585072014e-308, 2.225073858507201e-308, 1.1754943508222875e-38, 1.401298464324817e-45, FLT_MAX, -FLT_MAX,
                   3.4028234663852882e38, 9007199254740993.0, 0.30000000000000004, 1e15, 1e17, 4.35, 2.5e-323, 1.7976931348623155e308]


def gen_double(rng, tag):
    r = rng.below(10)
    if r < 4:
        x = rng.choice(SPECIAL_DOUBLES + ([DBL_MAX, -DBL_MAX, 1e300, 8.98846567431158e307] if tag == "F8" else []))
    elif r < 7:
        while True:
            x = from_bits(rng.next())
            if x == x and abs(x) != float("inf"):
                break
    elif r < 9:
        x = struct.unpack(">f", struct.pack(">I", rng.below(0x7F800000) | (rng.below(2) << 31)))[0]  # a finite binary32
    else:
        x = (rng.range(-10**6, 10**6)) / rng.choice([1, 10, 100, 1000, 3, 7])
    if tag == "F4" and abs(x) > FLT_MAX:
        x = FLT_MAX if x > 0 else -FLT_MAX
    return float(x)


def gen_leaf(rng, tag=None, allow_quote=False, allow_jis=False):
    tag = tag or rng.choice(["B", "BOOLEAN", "A", "A", "J", "J"] + list(INT_TYPES) + list(FLT_TYPES))
    if tag in ("A", "J"):
        return (tag, gen_text(rng, tag, allow_quote, allow_jis))
    if tag == "B":
        n = rng.choice([0, 1, 2, 3, 8])
        return ("B", bytes(rng.choice([0, 1, 9, 10, 15, 16, 127, 128, 255, rng.below(256)]) for _ in range(n)))
    if tag == "BOOLEAN":
        return ("BOOLEAN", [bool(rng.below(2)) for _ in range(rng.choice([0, 1, 2, 5]))])
    if tag in INT_TYPES:
        return (tag, gen_ints(rng, tag))
    return (tag, [gen_double(rng, tag) for _ in range(rng.choice([0, 1, 1, 2, 4]))])


def gen_tree(rng, depth, allow_quote=False, allow_jis=False):
    if depth <= 0 or rng.chance(1, 3):
        return gen_leaf(rng, None, allow_quote, allow_jis)
    n = rng.choice([0, 1, 1, 2, 3, 4])
    return ("L", [gen_tree(rng, depth - 1, allow_quote, allow_jis) for _ in range(n)])


def chain(depth, leaf):
    t = leaf
    for _ in range(depth):
        t = ("L", [t])
    return t


# ------------------------------------------------------------------------------------------------ implementation runners
def impl_print(tree) -> str:
    return build(tree).to_sml()


def impl_parse(text: str):
    """canonical answer of the real parser + (kind, value)"""
    def run():
        p = SMLParser(text)
        it = Item.from_sml(p)
        return it, len(p._tokens) - (p._token_counter + 1)
    st, val = guarded(run, size=len(text))
    if st == "hang":
        return "hang", None
    if st == "err":
        return "err " + hlib.errkind(val), None
    item, rest = val
    try:
        t = tree_of(item)
    except Exception as exc:  # noqa: BLE001
        return "ok <uncanonical " + type(exc).__name__ + ">", item
    return f"ok {sexp(t)} rest={rest}", item


def roundtrip_fails(tree):
    """None if the real print -> real parse gives the item back, else a short reason"""
    st, val = guarded(lambda: (lambda it: (it, it.to_sml()))(build(tree)), size=tree_size(tree))
    if st == "hang":
        return "hang"
    if st == "err":
        return "print raised " + type(val).__name__
    it, text = val
    st, val = guarded(lambda: Item.from_sml(text), size=len(text))
    if st == "hang":
        return "hang"
    if st == "err":
        return "parse raised " + hlib.errkind(val)
    try:
        back = tree_of(val)
    except Exception as exc:  # noqa: BLE001
        return "parsed item not canonical: " + type(exc).__name__
    if type(val) is not type(it):
        return f"type {type(val).__name__} != {type(it).__name__}"
    if not same(back, tree):
        return "parsed value differs"
    try:
        if val.encode() != it.encode():
            return "encode() differs"
    except Exception as exc:  # noqa: BLE001
        return "encode raised " + type(exc).__name__
    return None


def str_item_fails(tag: str, text: str):
    """A/J item constructed from a `str`.  None if the text is not an item at all (constructor or encode() raises) or if its SML parses back to
    the same text; else (reason, sml)"""
    cls = CLASSES[tag]
    try:
        it = cls(text)
        enc = it.encode()
    except Exception:  # noqa: BLE001 - not an encodable item: outside the property
        return None
    st, val = guarded(lambda: it.to_sml(), size=len(text) + 10)
    if st != "ok":
        return ("print " + ("did not terminate" if st == "hang" else "raised " + type(val).__name__), None)
    sml = val
    st, val = guarded(lambda: Item.from_sml(sml), size=len(sml))
    if st == "hang":
        return ("hang", sml)
    if st == "err":
        return ("parse raised " + hlib.errkind(val), sml)
    if type(val) is not cls:
        return (f"type {type(val).__name__} != {cls.__name__}", sml)
    if val._value != it._value:
        return (f"parsed text differs: {val._value!r}", sml)
    try:
        if val.encode() != enc:
            return ("encode() differs", sml)
    except Exception as exc:  # noqa: BLE001
        return ("encode of the parsed item raised " + type(exc).__name__, sml)
    return None


def _not_item(tag: str, text: str) -> bool:
    try:
        CLASSES[tag](text).encode()
        return False
    except Exception:  # noqa: BLE001
        return True


def minimise(tree):
    """smallest failing sub-item: descend into a failing child, then ddmin the text / value list of the leaf"""
    while tree[0] == "L":
        sub = next((t for t in tree[1] if roundtrip_fails(t)), None)
        if sub is None:
            kept = hlib.ddmin(list(tree[1]), lambda xs: roundtrip_fails(("L", xs)) is not None)
            plain = ("L", [("L", [])] * len(kept))   # if only the member count matters, say so with the simplest members
            return plain if roundtrip_fails(plain) else ("L", kept)
        tree = sub
    tag, val = tree
    if len(val) >= 2:
        kept = hlib.ddmin(list(val), lambda xs: roundtrip_fails((tag, bytes(xs) if isinstance(val, bytes) else xs)) is not None)
        if roundtrip_fails((tag, bytes(kept) if isinstance(val, bytes) else kept)):
            val = bytes(kept) if isinstance(val, bytes) else kept
    return (tag, val)


def classify(mini) -> str:
    tag, val = mini
    if tag in ("A", "J") and QUOTE in val:
        if roundtrip_fails((tag, bytes(0x78 if b == QUOTE else b for b in val))) is None:
            return "c15-quote"
    if tag == "J" and any(b in JIS_SPECIAL for b in val):
        if roundtrip_fails((tag, bytes(0x78 if b in JIS_SPECIAL else b for b in val))) is None:
            return "c15-jis8-nonascii"
    return "roundtrip"


# ------------------------------------------------------------------------------------------------ model requests
def dotted(text: str) -> str:
    return "-" if not text else ".".join(f"{ord(c):x}" for c in text)


def ftable(tree) -> str:
    fl = {dbits(x): x for x in floats_of(tree, [])}
    return "-" if not fl else ",".join(f"{b:016x}:{ItemF8._format_value(x).encode('ascii').hex()}" for b, x in fl.items())


SPLIT = set(" \t\n\r<>[]'\"")


def ptable(text: str) -> str:
    """`float()` of every maximal run of characters that are neither whitespace, operators nor quotes (a superset of the tokens that
    can reach `float()` with a chance of success)"""
    out = {}
    cur = []
    for ch in text + " ":
        if ch in SPLIT:
            if cur:
                tok = "".join(cur)
                cur = []
                if tok not in out:
                    try:
                        out[tok] = dbits(float(tok))
                    except (ValueError, OverflowError):
                        pass
        else:
            cur.append(ch)
    return "-" if not out else ",".join(f"{dotted(t)}:{b:016x}" for t, b in out.items())


def print_line(flags, tree) -> str:
    return f"sml print {flags} {ftable(tree)} {sexp(tree)}"


def parse_line(text) -> str:
    return f"sml parse {ptable(text)} {dotted(text)}"


# ------------------------------------------------------------------------------------------------ rejection stream
TYPE_NAMES = ["L", "B", "BOOLEAN", "A", "J", "U1", "U2", "U4", "U8", "I1", "I2", "I4", "I8", "F4", "F8"]
UNKNOWN_NAMES = ["X", "Q", "U3", "I16", "BOOL", "LL", "F2", "U", "AA", "STRING", "1", "U1_", "I0", "0x1", "BOOLEAN1", "F", "u16", "l1", '"A"', "-"]
TOKEN_ALPHABET = (["<", ">", "[", "]", ".", "<", ">"] + TYPE_NAMES + ["l", "u1", "boolean", "a", "f8", "Boolean"] + UNKNOWN_NAMES[:8]
                  + ["0", "1", "2", "255", "256", "-1", "-128", "-129", "0x0", "0x1", "0xff", "0x100", "0X1F", "0b1", "0o7", "1_0", "1__0", "_1", "01", "00",
                     "+1", "0x", "1e5", "0.5", "-0.0", "nan", "inf", "1e400", "3.5e38", "1.", ".5", "1_0.5", "abc",
                     '"abc"', '"a b"', '""', '"<"', '">"', '" > "', "'x'", "'>'", '"', "'", '"a', 'b"', "0x41", "\x0b1", "1\x0c", "\xa01", "1\x85"])
CHAR_ALPHABET = list("<>[].\"' \t\n\rLAJBUIF1248x0_-+e") + ["\x0b", "\x00", "\xa0", "\xff", "é"]


def random_token_text(rng) -> str:
    n = rng.range(0, 14)
    out = []
    for _ in range(n):
        out.append(rng.choice(TOKEN_ALPHABET))
        out.append(rng.choice([" ", " ", " ", "", "\n", "\t", "\r\n", "  "]))
    return "".join(out)


def random_shaped_text(rng, depth=0) -> str:
    """mostly well-formed SML written by hand (not by the printer): free layout, optional [n], `.` closers, odd literals"""
    sp = lambda: rng.choice([" ", " ", "", "\n", "\t", "  "])  # noqa: E731
    ty = rng.choice(TYPE_NAMES + ["l", "u1", "a", "Boolean", "j"])
    up = ty.upper()
    if up == "L" and depth < 4:
        n = rng.range(0, 3)
        body = "".join(random_shaped_text(rng, depth + 1) + sp() for _ in range(n))
        ln = ""
        if rng.chance(1, 2):
            ln = "[" + sp() + rng.choice([str(n), str(n), "0", "-1", str(n + 1), "x", "0x1", "+" + str(n), "1_0", ""]) + sp() + "]"
        closer = rng.choice([">", ">", ">", ". ", ".", ""])
        return "<" + sp() + ty + sp() + ln + sp() + body + closer
    if up == "L":
        return "<" + sp() + ty + sp() + ">"
    if up in ("A", "J"):
        vals = [rng.choice(['"abc"', '"a b"', '""', "0x41", "65", "0x0", "255", "256", "-1", '"<>"', "'x'", '"\xe9"', '"\\"', '"~"', "0b1", '"', "1_0"])
                for _ in range(rng.range(0, 3))]
    elif up in ("F4", "F8"):
        vals = [rng.choice(["0.5", "1", "-0.0", "1e5", "nan", "inf", "1e39", "3.4028234663852886e+38", "1e400", "0x1", "1_0.5", ".5", "abc", "5e-324"])
                for _ in range(rng.range(0, 3))]
    elif up == "BOOLEAN":
        vals = [rng.choice(["0", "1", "0x1", "0x0", "2", "-1", "True", "0b1", "01", "00"]) for _ in range(rng.range(0, 3))]
    elif up == "B":
        vals = [rng.choice(["0", "255", "256", "0xff", "0x100", "-1", "0b11", "0o7", "1_0", "abc", "01"]) for _ in range(rng.range(0, 3))]
    else:
        lo, hi = BOUNDS[up]
        vals = [rng.choice([str(lo), str(hi), str(lo - 1), str(hi + 1), "0", "-0", "+1", "0x1", "1_0", "01", "1.0", "abc", " ", "1__0"])
                for _ in range(rng.range(0, 3))]
    closer = rng.choice([">", ">", ">", ">", ".", ""])
    return "<" + sp() + ty + "".join(" " + v for v in vals) + (" " if rng.chance(4, 5) else "") + closer


def random_char_text(rng) -> str:
    return "".join(rng.choice(CHAR_ALPHABET) for _ in range(rng.range(0, 24)))


def tokens_of(text: str):
    """tokens of the real tokenizer, None if it does not terminate"""
    st, val = guarded(lambda: [t.value for t in SMLParser(text)._tokens], size=len(text))
    return val if st == "ok" else None


# ------------------------------------------------------------------------------------------------ main
def main():
    a = hlib.std_args()
    res = hlib.Result("C15", a.tier, a.seed)
    try:
        run(a, res)
    except AbortRun:
        res.notes.append(f"run cut short after {HANGS['n']} non-terminating parses (every one is a violation of the termination clause)")
        if not any(v["class"] == "c15-nontermination" for v in res.violations):
            res.violate("c15-nontermination", "the parser did not terminate within the deadline", {"text": None, "kind": "hang"})
    res.dump(a.out)


def run(a, res):
    rng = hlib.Rng(a.seed ^ 0xC15)
    drv = hlib.Driver()
    big = a.tier == "thorough" or a.search
    res.rule = ("items: type-directed generator over all 15 item classes (text from all 256 byte values with the tokenizer/printer-relevant ones "
                "over-weighted; integers at min, min+1, -1, 0, 1, max-1, max of every width; doubles incl. +-0, subnormals, FLT_MAX, DBL_MAX, 1e22, 0.1 and "
                "random bit patterns; empty items; nesting <= 6) + exhaustive 1- and 2-character texts over the stress set; rejection stream: every "
                "single-token deletion / type-name mutation of valid SML, random token strings, hand-layout SML, random character strings. "
                "distinct = distinct canonical input; non-trivial = not the empty item / empty text")
    known_cap = {"c15-quote": 0, "c15-jis8-nonascii": 0}
    import time as _time
    clock = {"t": _time.time()}

    def lap(name):
        now = _time.time()
        res.bump("section_seconds", name, round(now - clock["t"], 1))
        clock["t"] = now
        if os.environ.get("C15_TRACE"):
            print(f"[c15] {name}: {res.hist['section_seconds'][name]} s", file=sys.stderr, flush=True)
    hang_seen = {"n": 0}

    def note_hang(text, origin):
        """a parse of the real parser exceeded its deadline: violation of the termination clause, with the (minimised) input as replay"""
        hang_seen["n"] += 1
        res.bump("nontermination", origin)
        if hang_seen["n"] <= 5:
            mini = minimise_hang(text) if hang_seen["n"] == 1 else text
            res.violate("c15-nontermination", f"Item.from_sml / SMLParser did not terminate (deadline {FIRST_DEADLINE if hang_seen['n'] == 1 else LATER_DEADLINE} s exceeded, then more than 200*len+10000 source lines executed)",
                        {"text": mini[:400], "kind": "hang", "origin": origin, "found_in": text[:400]}, "an item or an exception", "no result (watchdog)")
        if hang_seen["n"] >= 6:
            raise AbortRun()

    def report_failure(tree, why, origin):
        mini = minimise(tree)
        klass = classify(mini)
        res.bump("roundtrip_failures", klass)
        case = {"item": sexp(mini), "text": None, "origin": origin, "found_in": sexp(tree)[:300]}
        try:
            case["text"] = impl_print(mini)
        except Exception:  # noqa: BLE001
            pass
        if klass in known_cap:
            known_cap[klass] += 1
            if known_cap[klass] > 3:
                return klass
        res.violate(klass, f"SML text of the item does not parse back to the same item ({roundtrip_fails(mini) or why})", case,
                    expected=sexp(mini), actual=roundtrip_fails(mini) or why)
        return klass

    # ------------------------------------------------------------ replay mode
    if a.replay:
        body = json.load(open(a.replay))
        for v in body.get("violations", []):
            case = v.get("case") or {}
            if isinstance(case, dict) and case.get("text") is not None and case.get("kind") in ("accepts", "hang"):
                ans, _ = impl_parse(case["text"])
                res.count(("replay", case["text"]))
                if ans == "hang" or (case["kind"] == "accepts" and ans.startswith("ok")):
                    res.violate(v["class"], v["what"], case, actual=ans)
            elif isinstance(case, dict) and case.get("kind") == "str-item":
                text = "".join(chr(c) for c in case["codepoints"])
                res.count(("replay", case["type"], text))
                bad = str_item_fails(case["type"], text)
                if bad:
                    res.violate(v["class"], v["what"], case, actual=bad[0])
            elif isinstance(case, dict) and case.get("item"):
                tree = parse_sexp(case["item"])
                res.count(("replay", case["item"]))
                why = roundtrip_fails(tree)
                if why:
                    res.violate(v["class"], v["what"], case, expected=case["item"], actual=why)
        for b in body.get("breaks", []):
            res.notes.append("replay: broken tie/proof recorded in the file: " + str(b)[:200])
        return

    # ------------------------------------------------------------ which variant is the implementation?  (DESIGN §4 "Model variants")
    q_a = roundtrip_fails(("A", b'a"b')) is not None
    q_j = roundtrip_fails(("J", b'a"b')) is not None
    j_u = roundtrip_fails(("J", b"\x5c\xa1A")) is not None
    if q_a != q_j:
        res.notes.append(f"quote witness: A fails={q_a}, J fails={q_j} (model flag follows A)")
    flags = ("1" if q_a else "0") + ("1" if j_u else "0")
    res.bump("model_variant", f"quotePrintable={int(q_a)} jis8Unicode={int(j_u)}")

    # ------------------------------------------------------------ A. items -> print -> parse  (O) + print/parse correspondence (C)
    trees = []
    # exhaustive small texts
    for kind in ("A", "J"):
        for b in range(256):
            trees.append((kind, bytes([b])))
        for x in STRESS:
            for y in STRESS:
                trees.append((kind, bytes([x, y])))
        for x in STRESS[:12]:
            for y in STRESS[:12]:
                trees.append((kind, bytes([0x61, x, y])))
                trees.append((kind, bytes([x, 0x0A, y])))
    n_exh = len(trees)
    res.exhaustive_parts.append(f"A and J items with every 1-byte text (2x256), every 2-byte text over the {len(STRESS)}-byte stress set, "
                                f"and 3-byte texts a·x·y / x·LF·y over its first 12 bytes: {n_exh} items")
    # every type: empty, boundaries
    for tag in TYPE_NAMES:
        if tag == "L":
            trees += [("L", []), ("L", [("L", [])]), chain(5, ("L", [])), chain(6, ("A", b"x y")), chain(6, ("U1", [1, 2])), chain(6, ("J", b"\x80 \xff")), chain(6, ("F8", [0.1, -0.0]))]
        elif tag in ("A", "J", "B"):
            trees += [(tag, b""), (tag, bytes(range(256))), (tag, bytes(range(255, -1, -1)))]
        elif tag == "BOOLEAN":
            trees += [(tag, []), (tag, [True]), (tag, [False]), (tag, [True, False, True])]
        elif tag in INT_TYPES:
            lo, hi = BOUNDS[tag]
            trees += [(tag, []), (tag, [lo]), (tag, [hi]), (tag, [lo, lo + 1, -1 if lo < 0 else 0, 0, 1, hi - 1, hi])]
        else:
            sp = [x for x in SPECIAL_DOUBLES if abs(x) <= FLT_MAX] + ([DBL_MAX, -DBL_MAX] if tag == "F8" else [])
            trees += [(tag, [])] + [(tag, [x]) for x in sp] + [(tag, sp)]
    # big items: element counts around and beyond CPython's small-int cache (256) and well above — lists at several nesting levels
    # (their `[n]` annotation is compared with the counted members), numeric / boolean arrays, binary and text of 257+ elements
    big_trees = []
    for n in (255, 256, 257, 258, 300, 1000) + ((2000,) if big else ()):
        big_trees.append(("L", [("U1", [i % 256]) for i in range(n)]))
    big_trees += [("L", [("L", [("L", []) for _ in range(257)])]),
                  chain(3, ("L", [("A", b"x") for _ in range(257)])),
                  ("L", [("A", b"head"), ("L", [gen_leaf(rng) for _ in range(300)]), ("U2", [257, 300, 1000])]),
                  ("L", [gen_tree(rng, 2) for _ in range(260)]),
                  ("L", [("L", [("I2", [i - 300]) for i in range(600)]), ("L", [("BOOLEAN", [bool(i & 1)]) for i in range(257)])])]
    for tag in INT_TYPES:
        lo, hi = BOUNDS[tag]
        big_trees += [(tag, [rng.range(lo, hi) for _ in range(n)]) for n in (257, 1000)]
    big_trees += [("F8", [gen_double(rng, "F8") for _ in range(300)]), ("F4", [gen_double(rng, "F4") for _ in range(257)]),
                  ("BOOLEAN", [bool(rng.below(2)) for _ in range(257)]), ("BOOLEAN", [True] * 1000),
                  ("B", rng.bytes(257)), ("B", rng.bytes(1000)),
                  ("A", bytes(b for b in rng.bytes(600) if b != QUOTE)[:257]), ("A", bytes(0x61 + (i % 26) for i in range(1000))),
                  ("A", bytes((i * 7) % 256 if (i * 7) % 256 != QUOTE else 0 for i in range(1000))),
                  ("J", bytes(b for b in rng.bytes(900) if b != QUOTE and b not in JIS_SPECIAL)[:300]), ("J", bytes(0x41 + (i % 26) for i in range(1000)))]
    trees += big_trees
    res.bump("big_items", "count", len(big_trees))
    corpus_path = os.path.join(hlib.ROOT, "corpus", "C15.json")
    corpus = json.load(open(corpus_path)) if os.path.exists(corpus_path) else {"items": [], "texts": []}
    trees += [parse_sexp(x) for x in corpus.get("items", [])]
    res.bump("corpus", "items", len(corpus.get("items", [])))
    n_rand = 40000 if big else 6000
    for i in range(n_rand):
        aq = rng.chance(1, 8)
        aj = rng.chance(1, 8)
        if i % 3 == 0:
            trees.append(gen_leaf(rng, None, aq, aj))
        else:
            trees.append(gen_tree(rng, rng.choice([1, 2, 2, 3, 4, 6]), aq, aj))

    cases, lines, answers = [], [], []
    pcases, plines, panswers = [], [], []
    valid_texts = []
    for i, tree in enumerate(trees):
        key = sexp(tree)
        nontrivial = any(len(lf[1]) for lf in leaves(tree, []))
        res.count(("item", key), nontrivial=nontrivial, sample={"item": key[:200]} if (i == 3 or (i > n_exh + 90 and len(res.samples) < 6 and depth_of(tree) >= 2 and len(key) < 200)) else None)
        for lf in leaves(tree, []):
            res.bump("leaf_types", lf[0])
            if lf[0] in ("A", "J"):
                res.bump("text_len", len(lf[1]) if len(lf[1]) < 6 else "6+")
                for b in lf[1]:
                    res.bump("text_byte_class", "quote" if b == QUOTE else "jis-special" if (lf[0] == "J" and b in JIS_SPECIAL) else
                             "printable" if 0x20 <= b <= 0x7E or b in (9, 11, 12) else "control" if b < 0x20 or b == 0x7F else "high")
        res.bump("nesting_depth", depth_of(tree))
        nmax = max([len(tree[1])] + [len(lf[1]) for lf in leaves(tree, [])]) if tree[0] != "L" or tree[1] else 0
        res.bump("max_element_count", "0" if nmax == 0 else "1-9" if nmax < 10 else "10-255" if nmax < 256 else "256" if nmax == 256 else "257-999" if nmax < 1000 else "1000+")
        try:
            item = build(tree)
            text = item.to_sml()
        except Exception as exc:  # noqa: BLE001
            res.violate("print-raises", f"to_sml() raised {type(exc).__name__} on a valid item", {"item": key[:400]})
            continue
        if str(item) != text or repr(item) != text:
            res.violate("str-differs", "str(item)/repr(item) differ from to_sml()", {"item": key[:400]}, text[:200], str(item)[:200])
        why = roundtrip_fails(tree)
        if why == "hang":
            note_hang(text, "print/parse of a generated item")
            res.bump("roundtrip", "fails:c15-nontermination")
        elif why:
            klass = report_failure(tree, why, "generated item")
            res.bump("roundtrip", "fails:" + klass)
        else:
            res.bump("roundtrip", "ok")
            if i < n_exh:
                if i % 40 == 0:
                    valid_texts.append(text)
            else:
                valid_texts.append(text)
        # C: print
        cases.append(key[:300])
        lines.append(print_line(flags, tree))
        answers.append("ok " + hlib.hexs(text.encode("latin1", "replace")))
        # C: parse of the printed text (also of the defective ones: same error expected)
        ans, _ = impl_parse(text)
        if ans == "hang":
            note_hang(text, "printed text")
        else:
            pcases.append(text[:300])
            plines.append(parse_line(text))
            panswers.append(ans)
            res.bump("parse_printed_outcome", ans.split(" ")[0] + (" " + ans.split(" ")[1] if ans.startswith("err") else ""))
    lap("items: impl print/parse + oracle")
    hlib.compare_batch(res, drv, f"to_sml() vs Model.Sml.toSml (defects={flags})", cases, lines, answers)
    hlib.compare_batch(res, drv, "Item.from_sml vs Model.Sml.parse on printed text", pcases, plines, panswers)

    lap("items: model correspondence")
    # ------------------------------------------------------------ A'. A/J items constructed from `str` (O)
    # every character of U+0000..U+00FF, the JIS X 0201 specials (yen, overline, half-width katakana) and a few others: either the text is
    # not an encodable item (constructor / encode() raises — then nothing is claimed) or its SML parses back to the same text
    cps = list(range(0x100)) + [0xA5, 0x203E] + list(range(0xFF61, 0xFFA0)) + [0x100, 0x131, 0x20AC, 0x3000, 0xFF60, 0xFFA0]
    str_texts = []
    for c in cps:
        if c == QUOTE and flags[0] == "1":
            continue
        str_texts += [chr(c), "a" + chr(c) + "b", chr(c) * 2, "\n" + chr(c)]
    str_texts += ["C:\\x", "C:\\dir\\file~1.txt", "~/x", "a\\\\b", "~", "\\", "x~y\\z", "\u00a5\\", "\u203e~", "\uff61\\\uff9f", "abc\\", "\\abc"]
    for _ in range(2000 if big else 300):
        str_texts.append("".join(chr(rng.choice(cps)) if rng.chance(1, 2) else chr(rng.range(0x20, 0x7E)) for _ in range(rng.range(1, 8))).replace('"', "'" if flags[0] == "1" else '"'))
    n_str = 0
    shown = 0
    for tag in ("J", "A"):
        for text in str_texts:
            bad = str_item_fails(tag, text)
            n_str += 1
            res.count(("str-item", tag, text))
            res.bump("str_built_items", tag + (":not-an-item" if bad is None and _not_item(tag, text) else ":ok" if bad is None else ":fails"))
            if bad and bad[0] == "hang":
                note_hang(bad[1] or text, "SML of a str-built item")
            elif bad:
                jis_known = tag == "J" and flags[1] == "1" and any(ord(ch) in (0xA5, 0x203E) or 0xFF61 <= ord(ch) <= 0xFF9F for ch in text)
                klass = "c15-jis8-nonascii" if jis_known else "roundtrip-str-built"
                shown += 1
                if shown <= 8:
                    res.violate(klass, f"SML text of Item{tag}(<str>) does not parse back to the same text ({bad[0]})",
                                {"kind": "str-item", "type": tag, "codepoints": [ord(ch) for ch in text], "text": bad[1]},
                                expected=repr(text), actual=bad[0])
    res.exhaustive_parts.append(f"A and J items constructed from str: every character of U+0000..U+00FF and the JIS X 0201 specials alone and in three "
                                f"contexts, backslash/tilde texts, random mixes: {n_str} texts")

    lap("str-built items")
    # ------------------------------------------------------------ B. rejection stream
    cases, lines, answers = [], [], []

    def reject_case(text, must_raise, origin):
        ans, _ = impl_parse(text)
        res.count(("text", text), nontrivial=bool(text.strip()))
        res.bump("reject_stream", origin)
        res.bump("reject_outcome", "hang" if ans == "hang" else ans.split(" ")[0] + (" " + ans.split(" ")[1] if ans.startswith("err") else ""))
        if ans == "hang":
            note_hang(text, origin)
            return
        if must_raise and ans.startswith("ok"):
            res.violate("accepts-" + must_raise, f"an item is returned for text with {must_raise.replace('-', ' ')}",
                        {"text": text[:400], "kind": "accepts", "origin": origin}, "exception", ans[:200])
        cases.append({"origin": origin, "text": text[:200]})
        lines.append(parse_line(text))
        answers.append(ans)

    for t in corpus.get("texts", []):
        reject_case(t, None, "corpus")
    base_texts = valid_texts[: (2000 if big else 400)]
    n_del = n_mut = 0
    for text in base_texts:
        toks = tokens_of(text)
        if toks is None:
            note_hang(text, "tokenizer on valid SML")
            continue
        if len(toks) > (160 if big else 60):
            continue
        joined = " ".join(toks)
        if impl_parse(joined)[0] != impl_parse(text)[0]:
            res.violate("layout", "re-spacing the tokens of valid SML changes the parse result", {"text": text[:300], "kind": "layout"})
        for i, tok in enumerate(toks):
            variant = " ".join(toks[:i] + toks[i + 1:])
            reject_case(variant, "missing-closing-bracket" if tok == ">" else None, "delete-token:" + ("closer" if tok == ">" else "opener" if tok == "<" else "other"))
            n_del += 1
        for i, tok in enumerate(toks):
            if i > 0 and toks[i - 1] == "<":
                for name in ([rng.choice(UNKNOWN_NAMES), tok + "X", tok.lower() + "_"] if not big else UNKNOWN_NAMES + [tok + "X"]):
                    if name.upper() in CLASSES:
                        continue
                    variant = " ".join(toks[:i] + [name] + toks[i + 1:])
                    reject_case(variant, "unknown-type-name", "mutate-type-name")
                    n_mut += 1
    # a closing `>` replaced by each other token kind of the grammar.  Text whose item lost its closing bracket must be rejected; the one
    # replacement the code deliberately accepts is `.` for the `>` of a *list* (`_read_items`: `not in ">."`, a documented note) — there the
    # result only has to agree with the model.  A trailing blank is appended so that a final `.` is tokenised at all (no flush at EOF).
    typed = []
    for tag in TYPE_NAMES:
        if tag == "L":
            continue
        for leaf in (gen_leaf(rng, tag), (tag, b"" if tag in ("A", "J", "B") else [])):
            if tag in ("A", "J"):
                leaf = (tag, bytes(b for b in leaf[1] if b != QUOTE and b not in JIS_SPECIAL) if leaf[1] else leaf[1])
            typed += [leaf, chain(1, leaf), chain(3, leaf), ("L", [("U1", [1]), leaf, ("A", b"x")]), ("L", [("L", [leaf, leaf]), ("L", [])])]
    typed_texts = []
    for t in typed:
        if roundtrip_fails(t) is None:
            typed_texts.append(impl_print(t))
    REPLACEMENTS = [(".", "dot"), ("<", "open"), ("1", "number"), ("0x1", "number"), ('"x"', "quoted"), ("U1", "type-word"), ("A", "type-word"),
                    ("L", "type-word"), ("]", "bracket"), ("[", "bracket")]
    n_rep = 0
    for text in typed_texts + base_texts[-(600 if big else 120):]:
        toks = tokens_of(text)
        if toks is None or len(toks) > (160 if big else 60):
            continue
        stack, owner = [], {}
        for i, tok in enumerate(toks):
            if tok == "<" and i + 1 < len(toks):
                stack.append(toks[i + 1].upper())
            elif tok == ">" and stack:
                owner[i] = stack.pop()
        for i, ty in owner.items():
            for repl, kind in REPLACEMENTS:
                variant = " ".join(toks[:i] + [repl] + toks[i + 1:]) + " "
                tolerated = ty == "L" and repl == "."
                reject_case(variant, None if tolerated else "closing-bracket-replaced",
                            f"replace-closer:{'list' if ty == 'L' else 'leaf'}:{kind}")
                res.bump("replace_closer_item_type", ty)
                n_rep += 1
    res.exhaustive_parts.append(f"every closing '>' of {len(typed_texts)} per-type texts (every class, empty and non-empty, alone and nested 1-3 deep) and of "
                                f"generated texts replaced by each of {len(REPLACEMENTS)} other tokens: {n_rep} texts")
    res.exhaustive_parts.append(f"every single-token deletion ({n_del}) and type-name mutation at every type position ({n_mut}) of {len(base_texts)} valid SML texts")
    for i in range(40000 if big else 6000):
        reject_case(random_token_text(rng), None, "random-tokens")
    for i in range(40000 if big else 6000):
        t = random_shaped_text(rng)
        if rng.chance(1, 4):
            t = t + rng.choice([" ", "", " >", " <", " . ", " junk"])
        reject_case(t, None, "hand-layout")
    for i in range(30000 if big else 4000):
        reject_case(random_char_text(rng), None, "random-chars")
    # every strict prefix of a valid text lacks (at least) the final closing bracket
    quoted = [t for t in base_texts if '"' in t]
    for text in quoted[:(200 if big else 40)] + base_texts[-(200 if big else 40):]:
        cuts = range(len(text)) if len(text) <= 400 else sorted({rng.below(len(text)) for _ in range(150)} | set(range(len(text) - 40, len(text))) | set(range(40)))
        for cut in cuts:
            reject_case(text[:cut], "missing-closing-bracket", "truncate")
    # every single-character deletion of valid SML (in particular: each quote of a literal, each bracket, each separating blank)
    n_chdel = 0
    for text in [t for t in base_texts if '"' in t][:(300 if big else 50)] + base_texts[:(100 if big else 20)]:
        if len(text) > 160:
            continue
        for i in range(len(text)):
            reject_case(text[:i] + text[i + 1:], None, "delete-char:" + ("quote" if text[i] in "\"'" else "bracket" if text[i] in "<>[]" else "other"))
            n_chdel += 1
    res.exhaustive_parts.append(f"every single-character deletion of valid SML texts (those with quoted literals first): {n_chdel} texts")
    lap("rejection stream: impl")
    hlib.compare_batch(res, drv, "Item.from_sml vs Model.Sml.parse on the rejection stream", cases, lines, answers)

    lap("rejection stream: model correspondence")
    # ------------------------------------------------------------ C. tokenizer and int() literal correspondence
    cases, lines, answers = [], [], []
    for i in range(20000 if big else 3000):
        t = random_char_text(rng) if i % 2 else random_token_text(rng)
        toks = tokens_of(t)
        if toks is None:
            note_hang(t, "tokenizer on random text")
            continue
        cases.append(t[:100])
        lines.append("sml tokens " + dotted(t))
        answers.append("ok " + "|".join(dotted(x) for x in toks))
        res.count(("tok", t), nontrivial=bool(t.strip()))
    hlib.compare_batch(res, drv, "SMLParser.parse_all vs Model.Sml.tokenize", cases, lines, answers)
    cases, lines, answers = [], [], []
    lit_alpha = list("0123456789abcdefxXoObB_+- ") + ["\t", "\x0b", "\x0c", "\x1f", "\x85", "\xa0", "g", "A", "F", " ", "."]
    lits = [t for t in TOKEN_ALPHABET] + ["0x_1f", "0x__1", "0_0", "0_1", "-00", "+-1", "- 1", " 1 ", "0B1", "0O17", "0x_", "", "-", "0b2", "0o8", "0x1_f", "0_", "0__0",
                                          "0b_1", "0_x1", "-0x10", "+0b11", "0xFF", "0Xff", "1_", "١"[:0] + "12", " 1　", "\x1f1"]
    for i in range(30000 if big else 4000):
        lits.append("".join(rng.choice(lit_alpha) for _ in range(rng.range(0, 6))))
    for t in lits:
        for b0 in (0, 1):
            cases.append((b0, t))
            lines.append(f"sml int {b0} {dotted(t)}")
            try:
                answers.append("ok " + str(int(t, 0) if b0 else int(t)))
            except ValueError:
                answers.append("err ValueError")
            res.count(("int", b0, t), nontrivial=bool(t))
    hlib.compare_batch(res, drv, "int(text) / int(text, 0) vs Model.Sml.pyInt", cases, lines, answers)

    lap("tokenizer / int literal correspondence")
    # ------------------------------------------------------------ D. the laws assumed of the float text (theorem hypotheses), sampled
    n_law = 0
    bad_chars = set(" \t\n\r<>[]'\"")
    for i in range(200000 if big else 30000):
        if i < len(SPECIAL_DOUBLES):
            x = SPECIAL_DOUBLES[i]
        elif i % 4 == 0:
            x = struct.unpack(">f", struct.pack(">I", rng.below(0x7F800000) | (rng.below(2) << 31)))[0]
        else:
            x = from_bits(rng.next())
            if x != x or abs(x) == float("inf"):
                continue
        s = ItemF8._format_value(x)
        n_law += 1
        ok = len(s) > 0 and not (set(s) & bad_chars)
        try:
            ok = ok and dbits(float(s)) == dbits(x)
        except ValueError:
            ok = False
        if not ok:
            res.violate("float-text-law", "float(format(x)) != x bit for bit, or the text contains a tokenizer-relevant character",
                        {"item": f"(F8 {dbits(x):016x})", "text": s})
    res.evaluations += n_law
    res.bump("float_law_samples", "doubles", n_law)
    # FloatRejectsBrackets (hypothesis of C15_reject_unclosed / C15_reject_deleted_closer): the reader the parser uses for F4/F8 tokens
    # (`cls._type(token)`) raises on `<` and on every list terminator; on a sample of token-alphabet strings, whatever it accepts is
    # neither of those nor contains a bracket character
    n_rej = 0
    for cls in (ItemF4, ItemF8):
        reader = cls._type
        sample = ["<", ">", ".", "", ">."] + TOKEN_ALPHABET + ["<1", "1>", "[1]", "1.", ".1", "..", ">>", "<>", " . ", " < ", "\t>", "1e5>", "-.", "+.", "._", "0.", ".0"] \
            + [random_char_text(rng)[:6] for _ in range(3000 if big else 600)]
        for t in sample:
            n_rej += 1
            try:
                reader(t)
                accepted = True
            except (ValueError, OverflowError):
                accepted = False
            if accepted and (t in ("<", ">", ".", "", ">.") or any(ch in "<>[]" for ch in t)):
                res.violate("float-rejects-law", f"{cls.__name__}._type accepts a bracket / terminator token", {"text": t, "kind": "float-accepts"})
            res.bump("float_rejects_samples", "accepted" if accepted else "rejected")
    res.evaluations += n_rej
    lap("float laws")
    res.bump("watchdog", "deadline hits refuted by the step budget (machine load)", HANGS["false_alarms"])
    res.bump("watchdog", "confirmed non-terminations", HANGS["n"])


def parse_sexp(s: str):
    """inverse of sexp() (replay files)"""
    toks = s.replace("(", " ( ").replace(")", " ) ").split()
    pos = 0

    def rd():
        nonlocal pos
        assert toks[pos] == "("
        tag = toks[pos + 1]
        pos += 2
        if tag == "L":
            xs = []
            while toks[pos] != ")":
                xs.append(rd())
            pos += 1
            return ("L", xs)
        atoms = []
        while toks[pos] != ")":
            atoms.append(toks[pos])
            pos += 1
        pos += 1
        if tag in ("A", "J", "B"):
            return (tag, b"" if atoms == ["-"] else bytes.fromhex(atoms[0]))
        if tag == "BOOLEAN":
            return (tag, [x == "1" for x in atoms])
        if tag in FLT_TYPES:
            return (tag, [from_bits(int(x, 16)) for x in atoms])
        return (tag, [int(x) for x in atoms])
    return rd()


if __name__ == "__main__":
    main()
