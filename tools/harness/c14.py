"""C14 — the Item API agrees with SEMI E5 and with the variables API on every value.

Correspondence (C): the real `secsgem.secs.items` classes against `Model.Item` through the driver domain `item`
  (`hdr`, `new`, `from`, `enc`, `dec`, `value`).
Direct oracle (O) on the real classes:
  * an Item built from a value holds that value (`.value`, element for element);
  * `Item.encode()` = the E5 byte string (harness's own encoder, and `Spec.E5.encode` via `codec spec`) = the bytes the variables API
    produces for the same typed value;
  * `Item.decode` of any valid encoding (also with more length bytes than needed; first accepted by the Lean reference `decodeAny`)
    re-encodes to the canonical bytes;
  * an item built from a mutable container (list, nested list, bytearray) does not change when the container is edited afterwards;
  * text outside the character set of A / J (above U+00FF; backslash, tilde, CJK for J) is refused at construction or encode(), never
    sent with other characters, and refused exactly where the variables API refuses it;
  * `Item.from_value` picks BOOLEAN / A / B / L and for integers the narrowest U1..U8 (non-negative) or I1..I8 (negative), value unchanged.
"""
from __future__ import annotations

import json
import os
import sys

sys.path.insert(0, os.path.dirname(os.path.abspath(__file__)))
import codeclib as K  # noqa: E402
from codeclib import hlib, I  # noqa: E402
from c01 import js, unjs  # noqa: E402
from secsgem.secs.packet_data import PacketData  # noqa: E402

PROP = "C14"
TAGS = ["L"] + K.LEAVES


def narrowest(n):
    if n >= 0:
        for t in ("U1", "U2", "U4", "U8"):
            if n <= K.int_range(t)[1]:
                return t
        return None
    for t in ("I1", "I2", "I4", "I8"):
        if n >= K.int_range(t)[0]:
            return t
    return None


def plain_of_val(v):
    """the plain Python value `Item.value` is expected to return for an item holding v"""
    t, xs = v
    if t == "L":
        return [plain_of_val(x) for x in xs]
    if t in ("A", "J"):
        return "".join(chr(e) for e in xs)
    if t == "B":
        return bytes(xs)
    els = [bool(e) for e in xs] if t == "BOOLEAN" else [K.b2f(e) for e in xs] if t in ("F4", "F8") else list(xs)
    return els[0] if len(els) == 1 else els


def same_plain(a, b):
    """equality that tells bool from int and compares floats by bit pattern"""
    if type(a) is not type(b):
        return False
    if isinstance(a, list):
        return len(a) == len(b) and all(same_plain(x, y) for x, y in zip(a, b))
    if isinstance(a, float):
        return K.f2b(a) == K.f2b(b)
    return a == b


def oracle_value(res, v, spec_hex=None):
    """build the item through its own constructor from the natural Python value; it must hold it and encode it as E5 says"""
    case = {"kind": "value", "val": js(v)}
    t = v[0]
    try:
        it = K.build_item(v)
    except Exception as exc:  # noqa: BLE001
        res.violate("ctor-raises", f"{t} item refused a value of its type: {type(exc).__name__}: {exc}", case)
        return None
    held = K.val_of_item(it)
    if held != v:
        res.violate("holds-other-value", "the item does not hold the value it was built from", case, K.show_val(v)[:200], K.show_val(held)[:200])
        return None
    want_plain = plain_of_val(v)
    if not same_plain(it.value, want_plain) and not (t in ("U1", "U2", "U4", "U8", "I1", "I2", "I4", "I8") and it.value == want_plain):
        res.violate("holds-other-value", "`.value` differs from the value the item was built from", case, repr(want_plain)[:200], repr(it.value)[:200])
    try:
        enc = it.encode()
    except Exception as exc:  # noqa: BLE001
        res.violate("encode-raises", f"encode() raised {type(exc).__name__}: {exc}", case)
        return None
    own = K.own_encode(v)
    if enc != own:
        res.violate("encode-not-E5", "Item.encode() differs from the E5 byte string (harness's own encoder)", case, own.hex()[:200], enc.hex()[:200])
    if spec_hex is not None and spec_hex != "ok " + hlib.hexs(enc):
        res.violate("encode-not-E5", "Item.encode() differs from Spec.E5.encode (Lean, via the driver)", case, spec_hex[:200], enc.hex()[:200])
    try:
        venc = K.build_var_any(v).encode()
    except Exception as exc:  # noqa: BLE001
        venc = None
        if not K.has_nan(v):
            res.violate("apis-differ", f"variables API refuses a value the Item API encodes: {type(exc).__name__}", case)
    if venc is not None and venc != enc:
        res.violate("apis-differ", "the two item APIs produce different bytes for the same typed value", case, venc.hex()[:200], enc.hex()[:200])
    return enc


def ctor_forms(v, rng):
    """other natural constructor inputs that stand for the same leaf value v"""
    t, es = v
    out = []
    if t in K.INTS:
        out.append(list(es))
        if len(es) == 1:
            out.append(es[0])
    elif t in ("F4", "F8"):
        out.append([K.b2f(e) for e in es])
        if len(es) == 1:
            out.append(K.b2f(es[0]))
    elif t == "B":
        out += [bytes(es), list(es), [bytes([e]) for e in es]]
        if es:
            k = rng.below(len(es))
            out.append([bytes(es[:k])] + list(es[k:]))
            out.append(list(es[:k]) + [bytes(es[k:])])
        if len(es) == 1:
            out.append(es[0])
        if all(e < 128 for e in es):
            out.append(bytes(es).decode("ascii"))
    elif t == "BOOLEAN":
        out += [[bool(e) for e in es], [int(e) for e in es]]
        if len(es) == 1:
            out += [bool(es[0]), int(es[0])]
    elif t == "A":
        out += ["".join(chr(e) for e in es), bytes(es)]
    elif t == "J":
        out += ["".join(chr(e) for e in es), bytes(K.jis_byte(e) for e in es)]
    return out


def oracle_ctor(res, v, rng):
    """an Item built from any natural input form of v holds v"""
    t = v[0]
    for form in ctor_forms(v, rng):
        case = {"kind": "ctor", "val": js(v), "form": repr(form)[:300]}
        try:
            it = K.ITEMCLS[t](form)
        except Exception as exc:  # noqa: BLE001
            res.violate("ctor-raises", f"{t} item refused an input standing for a value of its type: {type(exc).__name__}: {exc}", case)
            continue
        held = K.val_of_item(it)
        if held != v:
            res.violate("holds-other-value", "the item does not hold the value it was built from", case, K.show_val(v)[:200], K.show_val(held)[:200])


def oracle_alias(res, tag, src_repr):
    """an item built from a mutable container keeps its own copy: editing the container afterwards (append, overwrite with an
    out-of-range value, clear) changes neither the held value nor the encoding"""
    import copy
    case = {"kind": "alias", "cls": tag, "src": src_repr}
    src = eval(src_repr, {"bytearray": bytearray})  # noqa: S307 - a literal built by this harness
    try:
        it = K.ITEMCLS[tag](src)
        held, enc = K.val_of_item(it), it.encode()
    except Exception:  # noqa: BLE001
        return          # not an accepted input form
    bad = {"BOOLEAN": 2, "B": 300, "L": None}.get(tag, 10 ** 30 if tag not in ("F4", "F8") else "x")

    def edits(c):
        yield "append", (lambda: c.append(copy.deepcopy(c[0]) if len(c) else 0))
        if len(c):
            yield "overwrite", (lambda: c.__setitem__(0, bad))
        yield "clear", (lambda: c.clear() if hasattr(c, "clear") else None)
    targets = [("source", src)] + [(f"source[{i}]", x) for i, x in enumerate(src) if isinstance(x, (list, bytearray))] if isinstance(src, list) else [("source", src)]
    for where, container in targets:
        for name, edit in edits(container):
            try:
                edit()
            except Exception:  # noqa: BLE001
                continue
            try:
                now, enc2 = K.val_of_item(it), it.encode()
                same = now == held and enc2 == enc
                got = K.show_val(now)[:200]
            except Exception as exc:  # noqa: BLE001
                same, got = False, f"{type(exc).__name__}: {exc}"
            if not same:
                res.violate("aliases-constructor-argument", f"{tag} item changed after its constructor argument was edited ({name} on {where})",
                            dict(case, edit=name, where=where), K.show_val(held)[:200], got)
                return


CHARSET_POOL = list(range(0x100)) + [0xA5, 0x203E] + list(range(0xFF61, 0xFFA0)) + [0xFF60, 0xFFA0, 0x100, 0x17F, 0x20AC, 0x3042, 0x4E2D, 0xFFFD, 0x1F600, 0x10FFFF]


def oracle_charset(res, t, cps, via="ctor"):
    """text the item's character set cannot represent is never sent altered: the Item API refuses it (at construction or at encode())
    wherever the format has no encoding for it — which is also where the variables API refuses it; representable text gives the E5 bytes"""
    case = {"kind": "charset", "type": t, "cps": list(cps), "via": via}
    text = "".join(chr(c) for c in cps)
    try:
        want = K.own_encode((t, list(cps)))
    except Exception:  # noqa: BLE001
        want = None
    try:
        K.VARCLS[t](text).encode()
        var_ok = True
    except Exception:  # noqa: BLE001
        var_ok = False
    try:
        it = I.Item.from_value(text) if via == "from_value" else K.ITEMCLS[t](text)
        enc = it.encode()
    except Exception:  # noqa: BLE001
        enc = None
    if want is None and enc is not None:
        res.violate("item-sends-altered-text", f"{t} item built from text outside its character set is encoded (to other characters) instead of being refused",
                    case, "refusal", enc.hex()[:200])
    elif want is not None and enc != want:
        res.violate("encode-not-E5", f"{t} item of representable text is not encoded to its E5 bytes", case, want.hex()[:200], None if enc is None else enc.hex()[:200])
    elif var_ok != (enc is not None):
        res.violate("apis-differ", "one item API sends the text, the other refuses it", case, var_ok, enc is not None)


def oracle_decode(res, v, data: bytes, ref_val=None):
    """`data` is a valid E5 encoding of v (any number of length bytes): decode, re-encode = canonical"""
    case = {"kind": "decode", "val": js(v), "data": data.hex()}
    want = K.norm_val(v)
    want_s = K.show_val(want)
    if ref_val is not None and ref_val != want_s:
        res.disagree("harness value vs Spec.E5.decodeAny", case, ref_val[:300], want_s[:300])
    try:
        pd = PacketData(data)
        it = I.Item.decode(pd)
    except Exception as exc:  # noqa: BLE001
        res.violate("decode-rejects-valid", f"Item.decode refuses a valid E5 encoding: {type(exc).__name__}: {exc}", case)
        return
    if len(pd._data) != 0:
        res.violate("decode-wrong-position", "Item.decode left bytes of the item unconsumed", case, 0, len(pd._data))
    try:
        re = it.encode()
    except Exception as exc:  # noqa: BLE001
        res.violate("reencode-raises", f"encode() of the decoded item raised {type(exc).__name__}", case)
        return
    canon = K.own_encode(want)
    if re != canon:
        res.violate("reencode-not-canonical", "Item.decode(bytes).encode() is not the canonical encoding", case, canon.hex()[:200], re.hex()[:200])
    got = K.show_val(K.val_of_item(it))
    if got != want_s:
        res.violate("decode-wrong-value", "Item.decode yields a different value", case, want_s[:200], got[:200])


def oracle_from_value(res, p):
    """p: pyval term of plain bool/int/str/bytes/list values"""
    case = {"kind": "from", "py": js(p)}
    x = K.py_real(p, "item")

    def expect(q):
        k = q[0]
        if k == "bool":
            return ("BOOLEAN", [int(q[1])])
        if k == "int":
            t = narrowest(q[1])
            return None if t is None else (t, [q[1]])
        if k == "str":
            return ("A", list(q[1]))
        if k == "bytes":
            return ("B", list(q[1]))
        if k == "list":
            sub = [expect(y) for y in q[1]]
            return None if any(s is None for s in sub) else ("L", sub)
        return None
    want = expect(p)
    if want is None:
        return
    try:
        it = I.Item.from_value(x)
    except Exception as exc:  # noqa: BLE001
        res.violate("from-value-raises", f"Item.from_value refused a plain value: {type(exc).__name__}: {exc}", case)
        return
    got = K.val_of_item(it)
    if got != want:
        res.violate("from-value-type", "Item.from_value does not pick the matching / narrowest type", case, K.show_val(want)[:200], K.show_val(got)[:200])
        return
    if not same_plain(it.value, x):
        res.violate("from-value-changes-value", "Item.from_value(x).value differs from x", case, repr(x)[:200], repr(it.value)[:200])


def replay_case(res, case):
    k = case.get("kind")
    if k == "value":
        oracle_value(res, unjs(case["val"]))
    elif k == "ctor":
        oracle_ctor(res, unjs(case["val"]), hlib.Rng(1))
        oracle_ctor(res, unjs(case["val"]), hlib.Rng(2))
    elif k == "charset":
        oracle_charset(res, case["type"], case["cps"], case.get("via", "ctor"))
    elif k == "alias":
        oracle_alias(res, case["cls"], case["src"])
    elif k == "decode":
        oracle_decode(res, unjs(case["val"]), bytes.fromhex(case["data"]))
    elif k == "from":
        oracle_from_value(res, unjs_py(case["py"]))
    elif k == "header":
        oracle_header(res, case["code"], case["length"])


def unjs_py(x):
    if isinstance(x, list) and x and isinstance(x[0], str):
        if x[0] in ("list", "tuple"):
            return (x[0], [unjs_py(y) for y in x[1]])
        if x[0] == "obj":
            return ("obj", unjs(x[1]))
        return tuple(x)
    return x


def oracle_header(res, code, length):
    it = I.ItemU1(1)
    it._hsms_type = code
    case = {"kind": "header", "code": code, "length": length}
    try:
        got = it.encode_item_header(length)
    except ValueError:
        got = None
    want = K.own_header(code, length) if 0 <= length <= 0xFFFFFF else None
    if got != want:
        res.violate("header", "Item.encode_item_header is not format byte + minimal big-endian length", case,
                    None if want is None else want.hex(), None if got is None else got.hex())


# ---------------------------------------------------------------------------------------------- constructor input forms
def gen_ctor_arg(rng, tag, depth=0):
    """a constructor argument (pyval term) for class `tag`, good and bad forms"""
    def num_scalar(t):
        if t in ("F4", "F8"):
            r = rng.below(8)
            if r < 5:
                return ("float", rng.choice(K.F64_SPECIAL + K.f4_accepted_pool()[:40] + K.f4_rejected_pool() + K.NANS))
            return ("int", rng.range(-3, 3)) if r < 7 else ("bool", rng.below(2))
        lo, hi = K.int_range(t)
        r = rng.below(10)
        if r < 6:
            return ("int", rng.choice([lo, hi, lo - 1, hi + 1, 0, 1, -1, 255, 256]) if rng.chance(2, 3) else rng.range(lo - 2, hi + 2))
        if r < 7:
            return ("bool", rng.below(2))
        if r < 8:
            return ("float", 0x3FF0000000000000)
        return rng.choice([("none",), ("str", [49]), ("bytes", [1])])
    if tag in K.NUMERIC:
        r = rng.below(10)
        if r < 5:
            return ("list", [num_scalar(tag) for _ in range(rng.choice([0, 1, 2, 3, 5]))])
        if r < 6:
            return ("tuple", [num_scalar(tag)])
        return num_scalar(tag)
    if tag == "B":
        def el():
            q = rng.below(10)
            if q < 5:
                return ("int", rng.choice([0, 1, 2, 3, 127, 128, 255, 256, -1]))
            if q < 7:
                return ("bytes", list(rng.bytes(rng.below(4))))
            if q < 8:
                return ("str", [rng.choice([65, 0x7F, 0x80, 0xE9, 0x7FF, 0x800, 0x20AC, 0xFFFF, 0x10000, 0x10FFFF, 0xD800]) for _ in range(rng.below(3))])
            if q < 9:
                return ("bool", rng.below(2))
            return rng.choice([("float", 0x3FF0000000000000), ("none",), ("list", []), ("ba", [1])])
        r = rng.below(10)
        if r < 5:
            return ("list", [el() for _ in range(rng.choice([0, 1, 2, 3, 6]))])
        if r < 6:
            return rng.choice([("tuple", [("int", 1)]), ("ba", [1, 2])])
        return el()
    if tag == "BOOLEAN":
        def el():
            q = rng.below(8)
            if q < 3:
                return ("bool", rng.below(2))
            if q < 6:
                return ("int", rng.choice([0, 1, 2, -1]))
            return rng.choice([("str", [84]), ("float", 0x3FF0000000000000), ("none",)])
        r = rng.below(10)
        if r < 5:
            return ("list", [el() for _ in range(rng.choice([0, 1, 2, 3]))])
        return el()
    if tag in ("A", "J"):
        r = rng.below(10)
        n = rng.choice([0, 1, 2, 5])
        if r < 4:
            pool = list(range(0, 130)) + [0xA5, 0xFF, 0x100, 0x203E, 0xFF61, 0x20AC]
            return ("str", [rng.choice(pool) for _ in range(n)])
        if r < 8:
            return ("bytes", list(rng.bytes(n)))
        return rng.choice([("int", 5), ("list", [("int", 65)]), ("none",), ("ba", [65]), ("bool", 1), ("float", 0)])
    # L
    r = rng.below(10)
    if r < 8 and depth < 3:
        return ("list", [gen_plain(rng, depth + 1) for _ in range(rng.choice([0, 1, 2, 3]))])
    return rng.choice([("int", 5), ("str", [65]), ("none",), ("tuple", [("int", 1)])])


def gen_plain(rng, depth=0):
    """plain Python values (and now and then an Item object) as `from_value` meets them"""
    r = rng.below(16)
    if r < 5:
        pool = [0, 1, 255, 256, 65535, 65536, 2 ** 32 - 1, 2 ** 32, 2 ** 64 - 1, 2 ** 64, -1, -128, -129, -32768, -32769, -2 ** 31, -2 ** 31 - 1, -2 ** 63, -2 ** 63 - 1]
        return ("int", rng.choice(pool) if rng.chance(2, 3) else rng.range(-(2 ** rng.range(1, 66)), 2 ** rng.range(1, 66)))
    if r < 6:
        return ("bool", rng.below(2))
    if r < 8:
        return ("str", [rng.choice(list(range(32, 127)) + [0, 10, 0xE9, 0xFF]) for _ in range(rng.choice([0, 1, 3, 8]))])
    if r < 10:
        return ("bytes", list(rng.bytes(rng.choice([0, 1, 2, 7]))))
    if r < 11:
        return ("float", rng.choice(K.F64_SPECIAL + K.f4_accepted_pool()[:30] + K.f4_rejected_pool() + K.NANS))
    if r < 12:
        return ("obj", K.gen_leaf(rng, maxlen=4))
    if r < 13:
        return rng.choice([("none",), ("tuple", [("int", 1)]), ("ba", [1])])
    if depth < 5:
        return ("list", [gen_plain(rng, depth + 1) for _ in range(rng.choice([0, 1, 2, 3]))])
    return ("int", 7)


def has_obj_nan(p):
    k = p[0]
    if k == "obj":
        return K.has_nan(p[1])
    if k in ("list", "tuple"):
        return any(has_obj_nan(q) for q in p[1])
    return False


def main():
    a = hlib.std_args()
    replay_cases = []
    if a.replay:
        body = json.load(open(a.replay))
        a.seed, a.tier = body.get("seed", a.seed), body.get("tier", a.tier)
        replay_cases = [v["case"] for v in body.get("violations", []) if isinstance(v.get("case"), dict)]
    res = hlib.Result(PROP, a.tier, a.seed)
    rng = hlib.Rng(a.seed ^ 0xC14)
    drv = K.BigDriver()
    big = a.tier == "thorough" or a.search
    res.rule = ("same value generator as C01 (every item type, counts 0..3/254..257/random, numeric boundaries of each width, float boundaries, all 256 byte "
                "values, depth <= 6, <= 40 nodes) through Item API, variables API, the harness's own E5 encoder and Spec.E5.encode; constructor input forms "
                "(scalars, lists, tuples, bytes, bytearray, str incl. non-ASCII and surrogates, bool, float, None, nested lists, Item objects); from_value over "
                "plain values with integers at every width boundary +-1; Item.decode of valid encodings with 1-3 length bytes (accepted by the Lean reference "
                "first), truncations and random bytes; 65535/65536-byte payloads. distinct = distinct canonical input")

    for case in replay_cases:
        replay_case(res, case)
        res.count(("replay", json.dumps(case, sort_keys=True)))

    # ------------------------------------------------------------------ A. header
    lens = [-1, 0, 1, 254, 255, 256, 257, 65534, 65535, 65536, 65537, 16777214, 16777215, 16777216, 16777217, 2 ** 32]
    try:
        facts = json.load(open(os.path.join(hlib.ROOT, "gen", "facts.json")))
        for n in facts.get("ItemHeaderItem", {}).get("literals", []):
            lens += [n - 1, n, n + 1]
    except Exception:  # noqa: BLE001
        pass
    cases, lines, answers = [], [], []
    for code in sorted(set(K.CODE.values())) + [63, 64, -1]:
        for ln in sorted(set(lens)):
            it = I.ItemU1(1)
            it._hsms_type = code
            cases.append({"code": code, "len": ln})
            lines.append(f"item hdr {code} {ln}")
            answers.append(K.impl(lambda: hlib.hexs(it.encode_item_header(ln))))
            res.count(("hdr", code, ln))
            if 0 <= code < 64:
                oracle_header(res, code, ln)
    hlib.compare_batch(res, drv, "Item.encode_item_header vs Gen.ItemHeaderItem.encode", cases, lines, answers)

    # ------------------------------------------------------------------ B. values: holds / encodes / both APIs / spec
    vals = []
    for t in K.LEAVES:
        for n in K.LEN_BOUNDARY:
            vals.append((t, K.gen_elems(rng, t, n, "finite")))
    for t in K.INTS:
        lo, hi = K.int_range(t)
        vals.append((t, [lo, lo + 1, 0, 1, hi - 1, hi] + ([-1] if lo < 0 else [])))
    vals.append(("F4", K.f4_accepted_pool()))
    vals.append(("F8", K.F64_SPECIAL))
    vals.append(("B", list(range(256))))
    vals.append(("A", list(range(256))))
    vals.append(("J", sorted(set(K.gen_elems(hlib.Rng(5), "J", 4000)))))
    for n in (255, 256):
        vals.append(("L", [("U1", [i % 256]) for i in range(n)]))
    for cps in K.NUL_TEXTS:
        vals.append(("A", cps))
        vals.append(("J", cps))
    vals.append(K.deep_val(rng, 6))
    vals.append(K.deep_val(rng, 40, "A"))
    for t, n in (("B", 65535), ("B", 65536), ("A", 65536), ("U1", 65536), ("BOOLEAN", 65535)):
        es = [(i * 7 + 3) % 256 for i in range(n)]
        vals.append((t, [e & 1 for e in es] if t == "BOOLEAN" else es))
    for _ in range(900 if big else 250):
        vals.append(K.gen_val(rng, flavour="finite"))
    small = [v for v in vals if K.size_of(v) < 300 and (v[0] == "L" or len(v[1]) < 5000)]
    spec_out = drv.run(["codec spec " + K.send_val(v) for v in small]) if drv.available else [None] * len(small)
    if drv.available:
        res.driver_used = True
    spec_of = {id(v): s for v, s in zip(small, spec_out)}
    cases, lines, answers = [], [], []
    encoded = []
    for i, v in enumerate(vals):
        enc = oracle_value(res, v, spec_of.get(id(v)))
        if v[0] != "L" and len(v[1]) <= 300:
            oracle_ctor(res, v, rng)
        res.count(("val", K.show_val(v)[:4000]), sample={"op": "item value", "val": K.show_val(v)[:100]} if i % 113 == 0 else None)
        res.bump("top_type", v[0])
        res.bump("depth", K.depth_of(v))
        if enc is None:
            continue
        encoded.append((v, enc))
        if id(v) in spec_of:
            cases.append(K.show_val(v)[:300])
            lines.append("item enc " + K.send_val(v))
            answers.append("ok " + hlib.hexs(enc))
            cases.append(K.show_val(v)[:300])
            lines.append("item value " + K.send_val(v))
            answers.append(K.impl(lambda v=v: K.show_py(K.py_of_real(K.build_item(v).value))))
        else:
            import zlib
            cases.append({"type": v[0], "n": len(v[1])})
            lines.append("item encsum " + K.send_val(v))
            answers.append(f"ok len={len(enc)} adler={zlib.adler32(enc)}")
            cases.append({"type": v[0], "n": len(v[1]), "op": "dec"})
            lines.append("item decsum " + K.data_tokens(enc))
            answers.append(f"ok {K.val_digest(v)} rest=0")
            res.bump("long_payload_len_bytes", enc[0] & 3)
    hlib.compare_batch(res, drv, "Item.encode / .value vs Model.Item.encode / valueOf", cases, lines, answers)

    # ------------------------------------------------------------------ C. constructors: input forms
    cases, lines, answers = [], [], []
    for i in range(3000 if big else 900):
        tag = rng.choice(TAGS)
        p = gen_ctor_arg(rng, tag)
        if has_obj_nan(p):
            continue

        def f(tag=tag, p=p):
            return K.show_val(K.val_of_item(K.ITEMCLS[tag](K.py_real(p, "item"))))
        ans = K.impl(f)
        cases.append({"cls": tag, "value": K.show_py(p)[:200]})
        lines.append(f"item new {tag} {K.show_py(p)}")
        answers.append(ans)
        res.count(("new", tag, K.show_py(p)), sample={"op": "constructor", "cls": tag, "value": K.show_py(p)[:80]} if i % 307 == 0 else None)
        res.bump("ctor_input_form", p[0])
        res.bump("ctor_outcome", "ok" if ans.startswith("ok") else ans)
    hlib.compare_batch(res, drv, "Item constructors (validate_value) vs Model.Item.construct", cases, lines, answers)

    # text inside / outside the character set of A and J: oracle, and Item.encode against the model's encodeText
    ccases, clines, canswers = [], [], []
    for t in ("A", "J"):
        for c in CHARSET_POOL:
            for cps in ([c], [97, c, 98]):
                oracle_charset(res, t, cps)
                res.count(("charset", t, tuple(cps)))
                v = (t, cps)
                ccases.append(K.show_val(v))
                clines.append("item enc " + K.show_val(v))
                canswers.append(K.impl(lambda t=t, cps=cps: hlib.hexs(K.ITEMCLS[t]("".join(chr(q) for q in cps)).encode())))
                res.bump("charset_outcome", f"{t} {'ok' if canswers[-1].startswith('ok') else canswers[-1]}")
        if t == "A":
            for c in CHARSET_POOL:
                oracle_charset(res, "A", [c], via="from_value")
    hlib.compare_batch(res, drv, "Item(str).encode() inside/outside the character set vs Model.Item.encode (encodeText)", ccases, clines, canswers)

    # aliasing: every constructor input form that is a mutable container
    for tag in TAGS:
        forms = []
        if tag in K.INTS:
            lo, hi = K.int_range(tag)
            forms = [[1, 2, 3], [hi], [lo, 0], []]
        elif tag in ("F4", "F8"):
            forms = [[1.5, -2.0], [0.0], []]
        elif tag == "B":
            forms = [[1, 2, 3], [b"ab", 7], [255], [], bytearray(b"ab")]
        elif tag == "BOOLEAN":
            forms = [[True, False], [1, 0, 1], []]
        elif tag == "L":
            forms = [[1, "a", b"x"], [[1, 2], [3]], [[[]], 5], [], [[True], [1.5, 2.5]]]
        elif tag in ("A", "J"):
            forms = [bytearray(b"ab")]
        for f in forms:
            oracle_alias(res, tag, repr(f))
            res.count(("alias", tag, repr(f)))
            res.bump("alias_probe", tag)

    # ------------------------------------------------------------------ D. from_value
    cases, lines, answers = [], [], []
    plain = []
    for w in (8, 16, 32, 64):
        for d in (-2, -1, 0, 1):
            plain.append(("int", (1 << w) + d))
            plain.append(("int", -(1 << (w - 1)) + d))
    plain += [("int", 0), ("int", -1), ("bool", 0), ("bool", 1), ("str", []), ("bytes", []), ("list", []), ("list", [("list", [("list", [("int", 1)])])])]
    for _ in range(2500 if big else 700):
        plain.append(gen_plain(rng))
    for i, p in enumerate(plain):
        if has_obj_nan(p):
            continue

        def f(p=p):
            return K.show_val(K.val_of_item(I.Item.from_value(K.py_real(p, "item"))))
        ans = K.impl(f)
        cases.append(K.show_py(p)[:200])
        lines.append("item from " + K.show_py(p))
        answers.append(ans)
        res.count(("from", K.show_py(p)), sample={"op": "from_value", "value": K.show_py(p)[:80], "result": ans[:80]} if i % 251 == 0 else None)
        res.bump("from_value_outcome", (ans.split()[1].strip("()") if ans.startswith("ok") else ans))
        oracle_from_value(res, p)
    hlib.compare_batch(res, drv, "Item.from_value vs Model.Item.fromValue", cases, lines, answers)

    # ------------------------------------------------------------------ E. decode: valid (1-3 length bytes), then malformed
    wire = []
    for v, enc in encoded:
        if len(enc) > 3000:
            continue
        w = K.norm_val(v)
        wire.append((w, K.own_encode(w)))
        if K.size_of(w) < 40:
            wire.append((w, K.own_encode(w, rng, noncanon=70)))
    for t in K.LEAVES:
        for n in (0, 1, 2):
            es = K.gen_elems(rng, t, n, "finite")
            v = K.norm_val((t, es))
            body = K.own_encode(v)[2:]
            for nlb in (1, 2, 3):
                wire.append((v, K.own_header(K.CODE[t], n * K.WIDTH[t], nlb) + body))
    for body in (bytes([0, 1, 0xFF, 2, 0x80]), bytes([0x7F])):        # BOOLEAN: every non-zero byte is true
        wire.append((("BOOLEAN", [1 if b else 0 for b in body]), K.own_header(K.CODE["BOOLEAN"], len(body), 2) + body))
    ref_out = drv.run(["codec any " + K.data_tokens(e) for _, e in wire]) if drv.available else [None] * len(wire)
    cases, lines, answers = [], [], []

    def real_dec(data):
        def f():
            pd = PacketData(data)
            it = I.Item.decode(pd)
            return f"{K.show_val(K.val_of_item(it))} rest={len(pd._data)}"
        return K.impl(f)
    for (v, enc), ro in zip(wire, ref_out):
        ref_val = None
        if ro is not None:
            if not ro.startswith("ok ") or not ro.endswith(" rest=0"):
                res.disagree("harness encoder vs Spec.E5.decodeAny (reference refuses a harness encoding)", {"val": K.show_val(v)[:200], "data": enc.hex()[:200]}, ro[:200], "accept")
                continue
            ref_val = ro[3:-len(" rest=0")]
        oracle_decode(res, v, enc, ref_val)
        res.count(("decv", enc))
        nlb = enc[0] & 3
        length = int.from_bytes(enc[1:1 + nlb], "big")
        res.bump("length_bytes_used_vs_needed", f"{nlb}/{1 if length <= 0xFF else 2 if length <= 0xFFFF else 3}")
        cases.append(enc.hex()[:200])
        lines.append("item dec " + K.data_tokens(enc))
        answers.append(real_dec(enc))
    muts = []
    for v, enc in rng.shuffle([w for w in wire if len(w[1]) <= 48])[: (500 if big else 150)]:
        for cut in range(len(enc)) if len(enc) <= 10 else [0, 1, 2, len(enc) // 2, len(enc) - 1]:
            muts.append(enc[:cut])
        for nlb in range(4):
            muts.append(bytes([(enc[0] & 0xFC) | nlb]) + enc[1:])
        muts.append(bytes([enc[0] ^ (4 << rng.below(6))]) + enc[1:])
        muts.append(enc + rng.bytes(rng.range(1, 3)))
        pos = rng.below(len(enc))
        muts.append(enc[:pos] + bytes([rng.below(256)]) + enc[pos + 1:])
    for code in range(64):
        muts.append(bytes([(code << 2) | 1, 0]))
        muts.append(bytes([(code << 2) | 1, 1, 0x41]))
    for f4 in K.F32_SPECIAL + [0x7F800000, 0xFF800000, 0x7FC00000, 0x7F800001]:
        muts.append(K.own_header(K.CODE["F4"], 4) + f4.to_bytes(4, "big"))
    for b in K.NANS + K.INFS + [K.DBL_MAX64]:
        muts.append(K.own_header(K.CODE["F8"], 8) + b.to_bytes(8, "big"))
    for t in K.LEAVES:
        w = K.WIDTH[t]
        muts.append(K.own_header(K.CODE[t], w + 1) + bytes(range(w + 1)))
    for _ in range(300 if big else 80):
        muts.append(rng.bytes(rng.choice([0, 1, 2, 3, 5, 9])))
    for data in muts:
        cases.append(data.hex()[:200])
        lines.append("item dec " + K.data_tokens(data))
        answers.append(real_dec(data))
        res.count(("decm", data), nontrivial=len(data) > 0)
        res.bump("malformed_outcome", answers[-1].split()[0] if answers[-1].startswith("ok") else answers[-1])
    hlib.compare_batch(res, drv, "Item.decode (valid, non-canonical, malformed) vs Model.Item.decodeBytes", cases, lines, answers)
    res.exhaustive_parts.append("every E5 format code x 1..3 length bytes x 0..2 elements through Item.decode; every format code (0..63) as first byte")

    if big:
        n = 16777215
        for t in ("B", "A"):
            body = bytes([0x41]) * n
            want = K.own_header(K.CODE[t], n) + body
            try:
                it = K.ITEMCLS[t](body if t == "B" else body.decode("latin-1"))
                enc = it.encode()
                back = I.Item.decode(enc).encode()
            except Exception as exc:  # noqa: BLE001
                res.violate("encode-raises", f"{t} with 16777215 bytes: {type(exc).__name__}: {exc}", {"kind": "big", "type": t, "n": n})
                continue
            if enc != want:
                res.violate("encode-not-E5", f"{t} with 16777215 bytes: Item.encode() differs from the E5 byte string", {"kind": "big", "type": t, "n": n})
            if back != want:
                res.violate("reencode-not-canonical", f"{t} with 16777215 bytes does not decode / re-encode", {"kind": "big", "type": t, "n": n})
            try:
                K.ITEMCLS[t](body + b"A" if t == "B" else (body + b"A").decode("latin-1")).encode()
                res.violate("header", f"{t} with 16777216 bytes was encoded", {"kind": "big", "type": t, "n": n + 1})
            except ValueError:
                pass
            res.count(("big", t, n), sample={"op": "long payload", "type": t, "bytes": n})

    res.dump(a.out)


if __name__ == "__main__":
    main()
