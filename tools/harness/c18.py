"""C18 — state-machine engine: correspondence (Model.SM / Model.SMSched driver vs the real State/Transition/StateMachine classes)
and direct oracle (rejected => nothing changed; allowed => destination; active = current + ancestors; events exactly once).

Finding classes (stable strings): "c18-handler-raises" (a handler raises while a hierarchical machine is half-way through a
transition: the rest of the enter/leave chain is skipped), "c18-nested-hier" (handler-requested transition in a hierarchical machine leaves stale flags),
"c18-race" (two concurrent _perform_transition calls: result is not that of any sequential order).  Anything else is a violation,
in particular "c18-shipped-definition": a shipped machine behaves differently from its reference definition (Spec.Machines).
The driver domains used are `sm` (engine) and `gemctrl bare` (public methods of the shipped control machine).
"""
from __future__ import annotations

import enum
import inspect
import json
import logging
import os
import sys
import threading
import time

sys.path.insert(0, os.path.dirname(os.path.dirname(os.path.abspath(__file__))))
import hlib  # noqa: E402

import secsgem.common  # noqa: E402
from secsgem.common.state_machine import (  # noqa: E402
    State, StateMachine, Transition, UnknownTransitionError, WrongSourceStateError)

logging.disable(logging.CRITICAL)


# ------------------------------------------------------------------------------------------------ machine definitions
def chain(parents, s):
    out = [s]
    while parents[s] is not None:
        s = parents[s]
        out.append(s)
    return out


def depth(parents, s):
    return len(chain(parents, s))


def gen_machine(rng: hlib.Rng, flat=None):
    """<= 8 states, depth <= 3, <= 10 transitions, a handler table (possibly with failing nested requests), requests."""
    n = rng.range(2, 8)
    if flat is None:
        flat = rng.chance(1, 3)
    parents = [None]
    for i in range(1, n):
        cands = [p for p in range(i) if depth(parents, p) < 3]
        parents.append(None if flat or rng.chance(2, 5) or not cands else rng.choice(cands))
    nt = rng.range(1, 10)
    names = [f"t{i}" for i in range(nt)]
    if nt > 2 and rng.chance(1, 12):
        names[nt - 1] = names[0]  # duplicate name: only the first is reachable
    trans = []
    for nm in names:
        k = 1 if rng.chance(3, 5) else rng.range(1, min(3, n))
        srcs = []
        while len(srcs) < k:
            s = rng.below(n)
            if s not in srcs:
                srcs.append(s)
        trans.append((nm, srcs, rng.below(n)))
    handlers = []
    mode = rng.below(10)
    if mode >= 4:
        for _ in range(rng.range(1, 3)):
            kind = rng.choice("eeeeccl") if mode < 9 else rng.choice("ecl")
            once = rng.chance(1, 3) if kind != "l" else rng.chance(4, 5)
            reqs = [rng.choice(names) if rng.chance(8, 10) else rng.choice(["zz", "!"]) for _ in range(1 if rng.chance(3, 4) else 2)]
            if kind == "c":
                handlers.append(("c", rng.choice(names), once, reqs))
            else:
                handlers.append((kind, rng.below(n), once, reqs))
    init = rng.below(n)
    reqs = []
    cur = init  # tracked ignoring handlers: biases the sequence towards allowed requests
    for _ in range(rng.range(1, 8)):
        enabled = []
        for nm, srcs, dst in trans:
            if cur in srcs and nm not in [e[0] for e in enabled]:
                enabled.append((nm, dst))
        if enabled and rng.chance(3, 5):
            nm, cur = rng.choice(enabled)
            reqs.append(nm)
        else:
            reqs.append(rng.choice(names) if rng.chance(5, 6) else rng.choice(["zz", "t99"]))
    # display names: normally unique; sometimes equally named states (typically sub-states of different parents, e.g. an IDLE
    # below two parents).  The engine must tell State *objects* apart, whatever they are called.
    snames = [f"s{i}" for i in range(n)]
    if n >= 3 and rng.chance(1, 4):
        for _ in range(rng.range(1, 2)):
            a_ = rng.below(n)
            cands = [b_ for b_ in range(n) if b_ != a_ and parents[b_] != parents[a_]] or [b_ for b_ in range(n) if b_ != a_]
            snames[rng.choice(cands)] = snames[a_]
    return {"parents": parents, "trans": trans, "handlers": handlers, "init": init, "reqs": reqs, "names": snames}


def names_of(d):
    """display names of the states, recorded with a case only when they are not the default s0, s1, ..."""
    nm = d.get("names")
    return {"state_names": nm} if nm and nm != [f"s{i}" for i in range(len(nm))] else {}


def fmt_machine(d):
    p = "P=" + ",".join("-" if x is None else str(x) for x in d["parents"])
    t = "T=" + (",".join(f"{nm}:{'+'.join(map(str, srcs))}>{dst}" for nm, srcs, dst in d["trans"]) or "-")
    hs = []
    for kind, key, once, reqs in d["handlers"]:
        k = kind.upper() if once else kind
        hs.append((f"{k}.{key}" if kind == "c" else f"{k}{key}") + ":" + "+".join(reqs))
    h = "H=" + (";".join(hs) or "-")
    return f"{p} {t} {h} I={d['init']}"


class Built:
    """A machine definition instantiated with the REAL classes; every event is recorded."""

    def __init__(self, d):
        self.d = d
        parents = d["parents"]
        n = len(parents)
        enum_cls = enum.IntEnum("S", {f"s{i}": i for i in range(n)})
        self.log: list[str] = []
        self.nested = 0  # handler-requested _perform_transition calls that were started
        self.nested_kinds: set[str] = set()
        self.nested_done = 0  # ... that returned normally
        self.done_kinds: set[str] = set()
        self.booms = 0  # plain exceptions raised by handlers
        sm = StateMachine()
        act = set(chain(parents, d["init"]))
        self.states = []
        for i in range(n):
            self.states.append(State(enum_cls(i), (d.get("names") or [f"s{j}" for j in range(n)])[i], parent=None if parents[i] is None else self.states[parents[i]], initial=i in act))
        sm._current_state = self.states[d["init"]]
        sm._transitions = [Transition(nm, self.states[srcs[0]] if len(srcs) == 1 and len(nm) % 2 == 0 else [self.states[s] for s in srcs],
                                      self.states[dst]) for nm, srcs, dst in d["trans"]]
        self.sm = sm
        log = self.log

        def rec(tok):
            if len(log) > 20000:   # an engine that loops instead of recursing must not hang the check
                raise RecursionError("event budget exhausted")
            log.append(tok)
        for i, st in enumerate(self.states):
            st.events.enter.register(lambda _d, i=i: rec(f"e{i}"))
            st.events.leave.register(lambda _d, i=i: rec(f"l{i}"))
        for tr in sm._transitions:
            tr.events.called.register(lambda _d, nm=tr.name: rec("c." + nm))
        for kind, key, once, reqs in d["handlers"]:
            tok = ("c." + key) if kind == "c" else f"{kind}{key}"

            def cb(_d, tok=tok, once=once, reqs=reqs, kind=kind):
                if once and log.count(tok) != 1:
                    return
                for r in reqs:
                    if r == "!":
                        self.booms += 1
                        raise HandlerBoom()
                    self.nested += 1
                    self.nested_kinds.add(kind)
                    sm._perform_transition(r)
                    self.nested_done += 1
                    self.done_kinds.add(kind)
            if kind == "c":
                transition_object(sm, key).events.called.register(cb)
            elif kind == "e":
                self.states[key].events.enter.register(cb)
            else:
                self.states[key].events.leave.register(cb)

    def cur(self):
        return self.states.index(self.sm.current_state)

    def flags(self):
        return [bool(s.active) for s in self.states]

    def show(self):
        return f"cur={self.cur()} active={''.join('1' if b else '0' for b in self.flags())} log={','.join(self.log)}"


class HandlerBoom(Exception):
    """a plain exception raised by a handler (handler request `!`); the engine has no except clause, so for the model this is a
    handler requesting a transition that does not exist: same propagation through Event.__call__, fire, enter/leave, _perform_transition"""


RAISES = (WrongSourceStateError, UnknownTransitionError, HandlerBoom)
PENDING = []   # violations whose class depends on what the model of the unchanged code says: (violation dict, driver line)


def transition_object(sm, name):
    """the first Transition of that name, found without going through the engine's own lookup (which is under test)"""
    for tr in sm._transitions:
        if tr.name == name:
            return tr
    raise KeyError(name)


def errname(exc):
    if isinstance(exc, HandlerBoom):
        return "UnknownTransition"
    if isinstance(exc, WrongSourceStateError):
        return "WrongSource"
    if isinstance(exc, UnknownTransitionError):
        return "UnknownTransition"
    if isinstance(exc, RecursionError):
        return "Diverges"
    return "Other:" + type(exc).__name__


def lookup(d, name):
    for nm, srcs, dst in d["trans"]:
        if nm == name:
            return srcs, dst
    return None


def run_case(res: hlib.Result, d, oracle=True):
    """Run the request sequence on the real classes; returns the canonical answer.  Evaluates the direct oracle per request."""
    b = Built(d)
    parents = d["parents"]
    hier = any(p is not None for p in parents)
    results = []
    for i, r in enumerate(d["reqs"]):
        cur0, flags0, n0, nested0, done0, booms0 = b.cur(), b.flags(), len(b.log), b.nested, b.nested_done, b.booms
        b.nested_kinds.clear()
        b.done_kinds.clear()
        try:
            b.sm._perform_transition(r)
            out = "ok"
        except RAISES + (RecursionError,) as exc:
            out = errname(exc)
        if out == "Diverges":
            res.bump("outcome", "diverges")
            return f"ok diverges={i}"
        results.append(out)
        res.bump("outcome", out)
        if not oracle:
            continue
        # ---------------------------------------------------------------- direct oracle, exactly what the property covers
        delta = b.log[n0:]
        cur1, flags1 = b.cur(), b.flags()
        tr = lookup(d, r)
        allowed = tr is not None and cur0 in tr[0]
        nested = b.nested - nested0
        case = {"machine": fmt_machine(d), "requests": d["reqs"], "at": i, **names_of(d)}
        klass = "c18-nested-hier" if (hier and nested > 0) else "c18-engine"
        inv0 = [x in chain(parents, cur0) for x in range(len(parents))] == flags0
        if not allowed:
            # a request that is not allowed raises and changes nothing
            want = "UnknownTransition" if tr is None else "WrongSource"
            if out != want or cur1 != cur0 or flags1 != flags0 or delta:
                res.violate("c18-engine", "a request that is not allowed did not raise, or changed something", case,
                            {"raise": want, "cur": cur0, "active": flags0, "events": []}, {"raise": out, "cur": cur1, "active": flags1, "events": delta})
            res.bump("oracle", "rejected-noop")
            continue
        if "l" in b.nested_kinds:
            res.bump("oracle", "skipped: a leave handler requested a transition (not covered by the property; a leave handler that just raises is)")
            continue
        nested_done, booms = b.nested_done - done0, b.booms - booms0
        if out != "ok" and nested == 0 and booms == 0:
            res.violate("c18-engine", "an allowed request raised", case, "ok", out)
            continue
        if out != "ok":
            # an exception left a handler (a plain one, or a nested request that was refused) and propagated through the transition:
            # the property's clause that still applies: the states reporting active are exactly the current state and its ancestors
            res.bump("oracle", "allowed, a handler raised: " + ("hierarchical" if hier else "flat"))
            if inv0 and flags1 != [x in chain(parents, cur1) for x in range(len(parents))]:
                v = {"class": "c18-nested-hier" if (hier and nested_done > 0) else ("c18-handler-raises" if hier else "c18-engine"),
                     "what": "a handler raised during the transition; afterwards the active states are not exactly the current state and its ancestors",
                     "case": case, "expected": {"active": [x in chain(parents, cur1) for x in range(len(parents))]},
                     "actual": {"cur": cur1, "active": flags1, "events": delta, "raised": out}}
                PENDING.append((v, f"sm run {fmt_machine(d)} R=" + ",".join(d["reqs"][:i + 1]), parents))
            continue
        if not inv0:
            res.bump("oracle", "skipped: flags were already inconsistent before this request (reported at the request that caused it)")
            continue
        bad = None
        want_active = [x in chain(parents, cur1) for x in range(len(parents))]
        if nested == 0 and cur1 != tr[1]:
            bad = f"allowed transition ended in state {cur1}, destination is {tr[1]}"
        elif nested > 0 and cur1 not in {lookup(d, e[2:])[1] for e in delta if e.startswith("c.")} | {tr[1]}:
            bad = f"ended in state {cur1}, which is not the destination of any performed transition"
        elif flags1 != want_active:
            bad = "afterwards the active states are not exactly the current state and its ancestors"
        else:
            leaves = [int(e[1:]) for e in delta if e[0] == "l"]
            enters = [int(e[1:]) for e in delta if e[0] == "e"]
            calls = [e[2:] for e in delta if e[0] == "c"]
            if nested == 0:
                src_chain, dst_chain = chain(parents, cur0), chain(parents, tr[1])
                exited = [x for x in src_chain if x == cur0 or x not in dst_chain]
                entered = [x for x in dst_chain if x == tr[1] or x not in src_chain]
                common = [x for x in src_chain if x in dst_chain]
                if calls != [r]:
                    bad = "'called' did not fire exactly once"
                elif len(set(leaves)) != len(leaves) or len(set(enters)) != len(enters):
                    bad = "a leave/enter event fired more than once"
                elif any(x not in leaves for x in exited) or any(x not in enters for x in entered):
                    bad = "the leave event of an exited state / the enter event of an entered state did not fire"
                elif any(x not in exited and not (x in common and x in enters) for x in leaves) or \
                        any(x not in entered and not (x in common and x in leaves) for x in enters):
                    bad = "an event fired for a state that is neither exited/entered nor a common ancestor left and re-entered"
            elif not hier:
                if not (len(leaves) == len(enters) == len(calls) == nested + 1):
                    bad = "nested transitions: leave/enter/called do not pair up one per performed transition"
        if bad:
            res.violate(klass, bad, case, {"active": want_active}, {"cur": cur1, "active": flags1, "events": delta})
        res.bump("oracle", "allowed: " + ("nested" if nested else "plain") + (" hierarchical" if hier else " flat"))
    return f"ok {b.show()} res={','.join(results)}"


def settle_pending(res, drv):
    """A handler that raises leaves a *hierarchical* machine half-way in the unchanged engine too (finding c18-handler-raises).  A case is
    filed under that class only if the model of the unchanged code shows the same inconsistency for it; otherwise it is a violation."""
    todo = PENDING[:]
    del PENDING[:]
    if not todo:
        return
    outs = drv.run([line for _, line, _ in todo]) if drv.available else [None] * len(todo)
    for (v, line, parents), ans in zip(todo, outs):
        klass = v["class"]
        if klass == "c18-handler-raises" and ans is not None:
            ans = hlib.strip_branch(ans)
            f = dict(w.split("=", 1) for w in ans.split()[1:] if "=" in w)
            if "cur" in f and "active" in f:
                mcur = int(f["cur"])
                mflags = [c == "1" for c in f["active"]]
                if mflags == [x in chain(parents, mcur) for x in range(len(parents))]:
                    klass = "c18-engine"   # the unchanged engine keeps the flags exact here: this is not the recorded finding
        SETTLED[klass] = SETTLED.get(klass, 0) + 1
        res.bump("handler_raised_inconsistent", klass)
        if SETTLED[klass] <= (4 if klass != "c18-engine" else 12):   # a recorded finding is demonstrated by a few cases, not by hundreds
            res.violate(klass, v["what"], v["case"], v["expected"], v["actual"])


SETTLED: dict = {}


# ------------------------------------------------------------------------------------------------ baton scheduler
REQUIRED_STEPS = ["lookup", "check", "leave", "readOld", "setCur", "enter", "called"]   # `log` has no effect: optional


def line_labels():
    """line number of `StateMachine._perform_transition` -> (model step labels, statement id), found by the SHAPE of the syntax tree:

      lookup  : the statement that calls `self.transition(...)` (or reads `self._transitions`)
      check   : the test of the `if` one of whose branches raises `WrongSourceStateError`; the raising branch is `raise` (no model step)
      log     : a call through `self._logger`                                   (optional)
      leave   : the statement containing a `.leave(...)` call
      enter   : the statement containing a `.enter(...)` call
      readOld : the assignment to the local that is passed to `.enter(...)`, reading `self._current_state`
      setCur  : the assignment whose target is `self._current_state`          (one statement doing both is `readOld`+`setCur`)
      called  : the call of the transition object (`transition()`)

    Extra local assignments, renamed locals, `with`/`try` wrappers and statements spread over several lines do not matter (all lines
    of a statement carry its label; unlabelled statements are switch points without a model step).  The tie is broken only if one of
    the required operations is absent or their order differs: returns (labels, problems)."""
    import ast
    import textwrap
    src, first = inspect.getsourcelines(StateMachine._perform_transition)
    fn = ast.parse(textwrap.dedent("".join(src))).body[0]
    off = first - 1

    def has_call_attr(node, attr):
        return any(isinstance(c, ast.Call) and isinstance(c.func, ast.Attribute) and c.func.attr == attr for c in ast.walk(node))

    def is_self_attr(n, attr):
        return isinstance(n, ast.Attribute) and isinstance(n.value, ast.Name) and n.value.id == "self" and n.attr == attr

    def raises_wrong_source(stmts):
        for st in stmts:
            for n in ast.walk(st):
                if isinstance(n, ast.Raise) and n.exc is not None and "WrongSourceStateError" in ast.unparse(n.exc):
                    return True
        return False

    # the local handed to .enter(...)
    enter_arg = None
    lookup_var = None
    for n in ast.walk(fn):
        if isinstance(n, ast.Call) and isinstance(n.func, ast.Attribute) and n.func.attr == "enter" and n.args and isinstance(n.args[0], ast.Name):
            enter_arg = n.args[0].id
        if isinstance(n, ast.Assign) and len(n.targets) == 1 and isinstance(n.targets[0], ast.Name) and has_call_attr(n.value, "transition"):
            lookup_var = n.targets[0].id
    labelled = []   # (first line, last line, labels)

    def put(node, labs, last=None):
        labelled.append((node.lineno + off, (last if last is not None else node.end_lineno) + off, tuple(labs)))

    def classify(st):
        labs = []
        if has_call_attr(st, "transition") or any(is_self_attr(n, "_transitions") for n in ast.walk(st)):
            labs.append("lookup")
        if any(isinstance(c, ast.Call) and "_logger" in ast.unparse(c.func) for c in ast.walk(st)):
            return ["log"]
        if has_call_attr(st, "leave"):
            labs.append("leave")
        if isinstance(st, (ast.Assign, ast.AnnAssign)):
            targets = st.targets if isinstance(st, ast.Assign) else [st.target]
            flat = [e for t in targets for e in (t.elts if isinstance(t, ast.Tuple) else [t])]
            reads_cur = st.value is not None and any(is_self_attr(n, "_current_state") and isinstance(n.ctx, ast.Load) for n in ast.walk(st.value))
            if reads_cur and any(isinstance(e, ast.Name) and e.id == enter_arg for e in flat):
                labs.append("readOld")
            if any(is_self_attr(e, "_current_state") for e in flat):
                labs.append("setCur")
        if has_call_attr(st, "enter"):
            labs.append("enter")
        if isinstance(st, ast.Expr) and isinstance(st.value, ast.Call) and not st.value.args and (
                (isinstance(st.value.func, ast.Name) and (lookup_var is None or st.value.func.id == lookup_var))
                or (isinstance(st.value.func, ast.Attribute) and st.value.func.attr == "__call__")):
            labs.append("called")
        return labs

    def walk(stmts):
        for st in stmts:
            if isinstance(st, ast.If) and (raises_wrong_source(st.body) or raises_wrong_source(st.orelse)):
                body0 = (st.body or st.orelse)[0]
                put(st, ["check"], last=body0.lineno - 1 if body0.lineno > st.lineno else st.lineno)
                bad, good = (st.body, st.orelse) if raises_wrong_source(st.body) else (st.orelse, st.body)
                for b in bad:
                    put(b, ["raise"])
                walk(good)
            elif isinstance(st, ast.Raise):
                put(st, ["raise"])
            elif isinstance(st, (ast.With, ast.Try)):
                walk(st.body)
                for h in getattr(st, "handlers", []):
                    walk(h.body)
                walk(getattr(st, "orelse", []))
                walk(getattr(st, "finalbody", []))
            elif isinstance(st, ast.If):
                walk(st.body)
                walk(st.orelse)
            elif isinstance(st, (ast.For, ast.While)):
                labs = classify(st)
                if labs:
                    put(st, labs)
            else:
                labs = classify(st)
                if labs:
                    put(st, labs)
    walk(fn.body)
    labels = {}
    for sid, (a_, b_, labs) in enumerate(labelled):
        for ln in range(a_, b_ + 1):
            labels.setdefault(ln, (labs, sid))
    # required operations present, each once, in this order
    seq = [l for _, _, labs in sorted(labelled) for l in labs if l in REQUIRED_STEPS]
    problems = []
    for l in REQUIRED_STEPS:
        if seq.count(l) != 1:
            problems.append(f"{l}: found {seq.count(l)} times")
    if not problems and seq != REQUIRED_STEPS:
        problems.append("order " + ",".join(seq))
    return labels, problems


class Sched:
    """Runs callables in real threads, one traced line of `_perform_transition` at a time, in the order given by `schedule`."""

    # A granted thread that does not reach its next switch point is *blocked* (only possible if somebody added a lock to the engine).
    # "Did not come back in time" must not be mistaken for that on a loaded machine: the first stall of the process gets a long
    # bound; only after one stall has been seen (locks exist) the bound shrinks to a large multiple of the slowest step observed.
    FIRST_STALL = 20.0
    stall_seen = False
    max_latency = 0.0

    @classmethod
    def grant_timeout(cls):
        return cls.FIRST_STALL if not cls.stall_seen else max(1.0, 200 * cls.max_latency)

    def __init__(self, schedule, labels):
        self.schedule = list(schedule)
        self.labels = labels
        self.cv = threading.Condition()
        self.turn = None
        self.waiting: dict[int, str] = {}
        self.done: set[int] = set()
        self.trace: list[tuple[int, str]] = []
        self.stuck = False
        self.target = StateMachine._perform_transition.__code__

    def _tracer(self, tid):
        last = {}   # frame id -> statement id of the previous line event (all lines of one statement are ONE switch point)

        def local(frame, event, _arg):
            if event == "line":
                labs, sid = self.labels.get(frame.f_lineno, (("?" + str(frame.f_lineno),), -frame.f_lineno))
                if last.get(id(frame)) != sid:
                    last[id(frame)] = sid
                    self._yield(tid, "+".join(labs))
            return local

        def glob(frame, _event, _arg):
            return local if frame.f_code is self.target else None
        return glob

    def _yield(self, tid, label):
        with self.cv:
            self.waiting[tid] = label
            self.cv.notify_all()
            deadline = time.time() + 180
            while self.turn != tid:
                if not self.cv.wait(1.0) and time.time() > deadline:
                    self.stuck = True
                    return
            self.turn = None
            del self.waiting[tid]
            self.trace.append((tid, label))

    def run(self, fns):
        out = {}

        def wrap(tid, fn):
            sys.settrace(self._tracer(tid))
            try:
                out[tid] = fn()
            finally:
                sys.settrace(None)
                with self.cv:
                    self.done.add(tid)
                    self.cv.notify_all()
        ths = [threading.Thread(target=wrap, args=(i, f), daemon=True) for i, f in enumerate(fns)]
        for t in ths:
            t.start()

        blocked = set()

        def grant(tid):
            with self.cv:
                t_start = time.time()
                end = t_start + self.grant_timeout()
                if tid in blocked and tid not in self.waiting and tid not in self.done:
                    return False  # still blocked: do not wait for it again
                blocked.discard(tid)
                while tid not in self.waiting and tid not in self.done:
                    if not self.cv.wait(max(0.0, end - time.time())) and time.time() >= end:
                        blocked.add(tid)
                        Sched.stall_seen = True
                        return False  # blocked (e.g. on a lock): skip
                if tid in self.done:
                    return True
                n = len(self.trace)
                self.turn = tid
                self.cv.notify_all()
                while len(self.trace) == n and tid not in self.done:
                    if not self.cv.wait(max(0.0, end - time.time())) and time.time() >= end:
                        Sched.stall_seen = True
                        return False
                end = time.time() + self.grant_timeout()
                while tid not in self.waiting and tid not in self.done:   # run on to the next switch point
                    if not self.cv.wait(max(0.0, end - time.time())) and time.time() >= end:
                        blocked.add(tid)
                        Sched.stall_seen = True
                        return False
                Sched.max_latency = max(Sched.max_latency, time.time() - t_start)
                return True
        for tid in self.schedule:
            grant(tid)
        # let everyone finish, lowest id first
        guard = time.time() + 180
        while time.time() < guard:
            with self.cv:
                alive = [i for i in range(len(fns)) if i not in self.done]
            if not alive:
                break
            progressed = [grant(tid) for tid in alive]
            if not any(progressed):
                time.sleep(0.01)
        for t in ths:
            t.join(30)
        self.stuck = self.stuck or any(t.is_alive() for t in ths)
        return out


def call(sm, name):
    def f():
        try:
            sm._perform_transition(name)
            return "ok"
        except (WrongSourceStateError, UnknownTransitionError) as exc:
            return errname(exc)
    return f


def race_case(res, drv_lines, d, a, bname, schedule, labels):
    """two concurrent triggers on a handler-free machine under `schedule`; returns (canonical answer, executed steps, serial outcomes)"""
    b = Built(d)
    sch = Sched(schedule, labels)
    out = sch.run([call(b.sm, a), call(b.sm, bname)])
    if sch.stuck:
        return None
    # model steps: a statement doing two labelled operations counts as both; statements without a model step (the raise, extra locals,
    # a `with lock:` line) are dropped; the effect-free `log` step of the model is supplied where the source has none
    steps = []
    for t, l in sch.trace:
        for part in l.split("+"):
            if part == "raise" or part.startswith("?"):
                continue
            if part == "leave" and not any(t2 == t and l2 == "log" for t2, l2 in steps):
                steps.append((t, "log"))
            steps.append((t, part))
    ans = f"ok {b.show()} res={out.get(0)},{out.get(1)}"
    line = f"sm sched {fmt_machine(d)} A={a} B={bname} S=" + (",".join(f"{t}.{l}" for t, l in steps) or "-")
    drv_lines.append(line)
    serial = []
    for order in ((0, 1), (1, 0)):
        s = Built(d)
        rs = {}
        for tid in order:
            rs[tid] = call(s.sm, (a, bname)[tid])()
        serial.append((s.cur(), s.flags(), rs[0], rs[1]))
    got = (b.cur(), b.flags(), out.get(0), out.get(1))
    ok = got in serial
    parents = d["parents"]
    inv = got[1] == [x in chain(parents, got[0]) for x in range(len(parents))]
    return ans, steps, ok, inv, got, serial


# ------------------------------------------------------------------------------------------------ shipped machines
class FakeTimer:
    def __init__(self, *_a, **_k):
        pass

    def start(self):
        pass

    def cancel(self):
        pass


def shipped_instances():
    import secsgem.gem.communication_state_machine as comm_mod
    import secsgem.gem.control_state_machine as ctrl_mod
    import secsgem.hsms
    import secsgem.hsms.connection_state_machine as conn_mod
    comm_mod.threading = type("T", (), {"Timer": FakeTimer})  # timers never fire in this harness
    settings = secsgem.hsms.HsmsSettings()
    return {
        "ConnSM": lambda: conn_mod.ConnectionStateMachine(),
        "CommSM": lambda: comm_mod.CommunicationStateMachine(settings),
        "CtrlSM": lambda: ctrl_mod.ControlStateMachine("EQUIPMENT_OFFLINE", "REMOTE"),
    }


def snapshot(sm, states):
    """everything a rejected request must leave alone: current state, every flag, and every plain attribute of the machine object"""
    plain = {k: v for k, v in vars(sm).items() if isinstance(v, (str, int, float, bool, type(None)))}
    return (states.index(sm.current_state), tuple(bool(x.active) for x in states), tuple(sorted(plain.items(), key=lambda kv: kv[0])))


CTRL_ATTRS = ["init", "control", "offline", "equipment_offline", "attempt_online", "host_offline", "online", "online_local", "online_remote"]


def ctrl_public_methods(res, rng, big, cases, lines, answers):
    """the shipped control machine through its PUBLIC methods (they do more than `_perform_transition`: `switch_online_local/remote`
    record the operator's choice): correspondence with `gemctrl bare`, and the oracle "a rejected request changes nothing" over the
    whole machine object - judged directly and by what later allowed requests do (the model tracks the remembered sub-state)."""
    import secsgem.gem.control_state_machine as ctrl_mod
    cls = ctrl_mod.ControlStateMachine
    methods = [k for k, v in vars(cls).items() if callable(v) and not k.startswith("_")]
    seqs = []
    # the shape of the recorded seed: on-line, leave ON-LINE, a rejected local/remote switch, re-enter ON-LINE
    for sw in ("switch_online_local", "switch_online_remote"):
        for leave, back in (("remote_offline", ["remote_online"]), ("switch_offline", ["switch_online", "attempt_online_success"])):
            seqs.append(["start", leave, sw] + back + [sw, leave, sw] + back)
    for _ in range(1500 if big else 300):
        seqs.append(["start"] + [rng.choice(methods) for _ in range(rng.range(2, 14))])
    for seq in seqs:
        initial = rng.choice(["EQUIPMENT_OFFLINE", "ATTEMPT_ONLINE", "HOST_OFFLINE", "ONLINE"])
        sub = rng.choice(["LOCAL", "REMOTE"])
        sm = cls(initial, sub)
        states = [getattr(sm, a) for a in CTRL_ATTRS]
        steps = []
        for i, m in enumerate(seq):
            before = snapshot(sm, states)
            try:
                getattr(sm, m)()
                out = "ok"
            except (WrongSourceStateError, UnknownTransitionError) as exc:
                out = errname(exc)
                after = snapshot(sm, states)
                if after != before:
                    diff = [(a, b) for a, b in zip(before[2], after[2]) if a != b] or [before[:2], after[:2]]
                    res.violate("c18-engine", f"ControlStateMachine.{m}() was rejected ({out}) but changed the machine",
                                {"machine": "ControlStateMachine", "initial": initial, "sub": sub, "methods": seq[:i + 1]}, "nothing changed", diff)
            bits = "".join("1" if x.active else "0" for x in states)
            steps.append(f"{sm.current_state.name}:{bits}:{'REMOTE' if sm._online_control_state == 'REMOTE' else 'LOCAL'}:{out}")
            res.bump("ctrl_method", f"{m}:{out}")
        cases.append({"machine": "ControlStateMachine", "initial": initial, "sub": sub, "methods": seq})
        lines.append(f"gemctrl bare {initial} {sub} " + ",".join(seq))
        answers.append("ok " + "|".join(steps))
        res.count(lines[-1], nontrivial=any(x.endswith(":ok") for x in steps[1:]))


def introspect(sm):
    states = [v for k, v in vars(sm).items() if isinstance(v, State) and k != "_current_state"]
    st = ",".join(f"{s.name}:{s.state.value}:{s.parent.name if s.parent else '-'}:{1 if s.active else 0}" for s in states)
    tr = ",".join(f"{t.name}:{'+'.join(s.name for s in t.sources)}>{t.destination.name}" for t in sm._transitions)
    return f"ok states={st} transitions={tr} initial={sm.current_state.name}", states


def shipped_run(sm, states, reqs):
    log = []
    for i, st in enumerate(states):
        st.events.enter.register(lambda _d, i=i: log.append(f"e{i}"))
        st.events.leave.register(lambda _d, i=i: log.append(f"l{i}"))
    for tr in sm._transitions:
        tr.events.called.register(lambda _d, nm=tr.name: log.append("c." + nm))
    results = []
    changed = None
    for r in reqs:
        before = snapshot(sm, states), len(log)
        try:
            sm._perform_transition(r)
            results.append("ok")
        except (WrongSourceStateError, UnknownTransitionError) as exc:
            results.append(errname(exc))
            if (snapshot(sm, states), len(log)) != before and changed is None:
                changed = r
    shipped_run.changed = changed
    cur = states.index(sm.current_state)
    return f"ok cur={cur} active={''.join('1' if s.active else '0' for s in states)} log={','.join(log)} res={','.join(results)}"


# ------------------------------------------------------------------------------------------------ shipped definitions vs reference
def parse_table(text):
    """`sm table` / `sm reftable` / introspect() format -> (states {name: parent}, order, transitions [(name, frozenset(srcs), dst)], initial)"""
    parts = dict(w.split("=", 1) for w in text.split()[1:])
    states, order = {}, []
    for w in parts["states"].split(","):
        nm, _val, par, _ini = w.split(":")
        states[nm] = None if par == "-" else par
        order.append(nm)
    trans = []
    for w in parts["transitions"].split(","):
        nm, rest = w.split(":")
        srcs, dst = rest.split(">")
        trans.append((nm, frozenset(srcs.split("+")), dst))
    return states, order, trans, parts["initial"]


def named_run(sm, states, reqs):
    """requests on a real shipped machine, everything observed by NAME (format of `sm ref`)"""
    log = []
    # recorders go in FRONT of the callbacks the constructor registered (the forwarders), so that an event is recorded when it fires
    for st in states:
        st.events.enter._callbacks.insert(0, lambda _d, n=st.name: log.append("e." + n))
        st.events.leave._callbacks.insert(0, lambda _d, n=st.name: log.append("l." + n))
    for tr in sm._transitions:
        tr.events.called._callbacks.insert(0, lambda _d, n=tr.name: log.append("c." + n))
    results = []
    for i, r in enumerate(reqs):
        try:
            sm._perform_transition(r)
            results.append("ok")
        except RAISES as exc:
            results.append(errname(exc))
        except RecursionError:
            return f"ok diverges={i}"
        if len(log) > 20000:
            return f"ok diverges={i}"
    return f"ok cur={sm.current_state.name} active={'+'.join(x.name for x in states if x.active)} log={','.join(log)} res={','.join(results)}"


def describe_difference(seq, impl, ref):
    fi = dict(w.split("=", 1) for w in impl.split()[1:])
    fr = dict(w.split("=", 1) for w in ref.split()[1:]) if ref.startswith("ok cur=") else {}
    hist = ", ".join(seq)
    if not fr:
        return f"after [{hist}]: the reference model answers {ref[:80]!r}"
    if fi["res"] != fr["res"]:
        ri, rr = fi["res"].split(","), fr["res"].split(",")
        k = next(i for i, (a, b) in enumerate(zip(ri, rr)) if a != b)
        return f"[{', '.join(seq[:k])}] then {seq[k]}: {'raised ' + ri[k] if ri[k] != 'ok' else 'was performed'}; by the reference definition it {'is performed' if rr[k] == 'ok' else 'raises ' + rr[k]}"
    if fi["cur"] != fr["cur"]:
        return f"after [{hist}]: current state {fi['cur']}, reference definition: {fr['cur']}"
    if fi["active"] != fr["active"]:
        return f"after [{hist}]: active states {{{fi['active']}}} in {fi['cur']}, reference definition: {{{fr['active']}}}"
    return f"after [{hist}]: events fired {fi['log']} - reference definition: {fr['log']}"


def shipped_vs_reference(res, rng, drv, big):
    """The REAL shipped machines against the reference definitions of Spec.Machines interpreted by the engine model (`sm ref`):
    structure, every single transition from every reachable state, all short histories, random histories."""
    if not drv.available:
        res.notes.append("driver unavailable: shipped definitions not compared with the reference definitions")
        return
    import collections
    mk = shipped_instances()
    ref_tables = drv.run([f"sm reftable {n}" for n in ("ConnSM", "CommSM", "CtrlSM")])
    jobs = []   # (label, ctor, driver line prefix, request sequence)
    for name, ref_text in zip(("ConnSM", "CommSM", "CtrlSM"), ref_tables):
        rstates, rorder, rtrans, rinit = parse_table(hlib.strip_branch(ref_text))
        impl_text, _ = introspect(mk[name]())
        istates, iorder, itrans, iinit = parse_table(impl_text)
        # ---- structure (states, hierarchy, initial state, transitions): concrete element that differs
        diffs = []
        if iorder != rorder:
            diffs.append(f"states {iorder} - reference {rorder}")
        for nm in rorder:
            if nm in istates and istates[nm] != rstates[nm]:
                diffs.append(f"state {nm}: parent {istates[nm] or 'none'} - reference definition: parent {rstates[nm] or 'none'}")
        if iinit != rinit:
            diffs.append(f"initial state {iinit} - reference {rinit}")
        rt = {t[0]: t for t in rtrans}
        if [t[0] for t in itrans] != [t[0] for t in rtrans]:
            diffs.append(f"transitions {[t[0] for t in itrans]} - reference {[t[0] for t in rtrans]}")
        for t in itrans:
            if t[0] in rt and (t[1], t[2]) != (rt[t[0]][1], rt[t[0]][2]):
                diffs.append(f"transition {t[0]}: {sorted(t[1])} -> {t[2]} - reference definition: {sorted(rt[t[0]][1])} -> {rt[t[0]][2]}")
        res.count(("definition", name), sample={"definition": name, "differences": diffs})
        res.bump("shipped_definition", f"{name}: " + ("equals the reference definition" if not diffs else "DIFFERS"))
        tnames = [t[0] for t in rtrans]
        # ---- histories
        if name != "CtrlSM":
            # shortest path (by the reference definition) to every reachable current state, then every single transition
            paths = {rinit: []}
            dq = collections.deque([rinit])
            while dq:
                cur = dq.popleft()
                for nm, srcs, dst in rtrans:
                    if cur in srcs and dst not in paths:
                        paths[dst] = paths[cur] + [nm]
                        dq.append(dst)
            seqs = [p_ + [t] for p_ in sorted(paths.values(), key=len) for t in tnames + ["zz"]]
            seqs += [p_ + [t, u] for p_ in sorted(paths.values(), key=len) for t in tnames for u in tnames]
            for _ in range(1200 if big else 250):
                seqs.append([rng.choice(tnames) for _ in range(rng.range(3, 12))])
            for seq in seqs:
                jobs.append((name, mk[name], f"sm ref {name} R=" + ",".join(seq), seq, None))
            res.exhaustive_parts.append(f"{name}: every transition (and every pair) from every current state reachable by the reference definition ({len(paths)} states)")
        else:
            import secsgem.gem.control_state_machine as ctrl_mod
            for initial in ("EQUIPMENT_OFFLINE", "ATTEMPT_ONLINE", "HOST_OFFLINE", "ONLINE"):
                for sub in ("LOCAL", "REMOTE"):
                    seqs = [["start"]] + [["start", t] for t in tnames] + [["start", t, u] for t in tnames for u in tnames]
                    for _ in range(300 if big else 60):
                        seqs.append(["start"] + [rng.choice(tnames) for _ in range(rng.range(3, 10))])
                    for seq in seqs:
                        jobs.append((name, (lambda i=initial, s_=sub: ctrl_mod.ControlStateMachine(i, s_)),
                                     f"sm ref CtrlSM {initial} {sub} R=" + ",".join(seq), seq, f"{initial}/{sub}"))
            res.exhaustive_parts.append("CtrlSM: start, then every transition and every pair of transitions, for each of the 8 configurations")
        if diffs:
            # a structural difference without a differing history would still be reported (it cannot happen for states/transitions in use)
            jobs.append((name, None, None, None, diffs))
    lines = [j[2] for j in jobs if j[2]]
    outs = iter(drv.run(lines)) if lines else iter([])
    reported = collections.Counter()
    structural = {}
    for name, ctor, line, seq, extra in jobs:
        if ctor is None:
            structural[name] = extra
            continue
        ref = hlib.strip_branch(next(outs))
        sm = ctor()
        _, states = introspect(sm)
        impl = named_run(sm, states, seq)
        res.count(("ref", line), nontrivial=",ok" in impl or "res=ok" in impl)
        res.traces_validated += 1
        if impl != ref:
            reported[name] += 1
            if reported[name] <= 3:
                cfg = f" (configuration {extra})" if extra else ""
                res.violate("c18-shipped-definition", f"{name}{cfg}: " + describe_difference(seq, impl, ref),
                            {"shipped": name, "config": extra, "requests": seq}, ref[:400], impl[:400])
    for name, diffs in structural.items():
        res.bump("shipped_definition_histories", f"{name}: {reported[name]} histories differ from the reference")
        if not reported[name]:
            res.violate("c18-shipped-definition", f"{name}: definition differs from the reference definition: " + "; ".join(diffs[:4]),
                        {"shipped": name, "differences": diffs})


def shipped_raising_handlers(res, rng, drv, big):
    """The three REAL shipped machines with one additional callback at every position (enter / leave of every state, called of every
    transition) that raises a plain exception or requests a transition (often a refused one), under the single-transition histories of
    section D.  Expected: the reference definition interpreted by the engine model with the same callback (`sm ref … H=`): the exception
    propagates, the state is what the engine had reached.  Oracle: the states reporting active are the current state and its ancestors -
    unless the model of the unchanged engine shows the same inconsistency (hierarchical machine: finding c18-handler-raises)."""
    if not drv.available:
        return
    import collections
    import secsgem.gem.control_state_machine as ctrl_mod
    mk = shipped_instances()
    ref_tables = drv.run([f"sm reftable {n}" for n in ("ConnSM", "CommSM", "CtrlSM")])
    jobs = []
    for name, ref_text in zip(("ConnSM", "CommSM", "CtrlSM"), ref_tables):
        rstates, rorder, rtrans, rinit = parse_table(hlib.strip_branch(ref_text))
        tnames = [t[0] for t in rtrans]
        if name != "CtrlSM":
            paths = {rinit: []}
            dq = collections.deque([rinit])
            while dq:
                cur = dq.popleft()
                for nm, srcs, dst in rtrans:
                    if cur in srcs and dst not in paths:
                        paths[dst] = paths[cur] + [nm]
                        dq.append(dst)
            runs = [(mk[name], f"sm ref {name}", None, [p_ + [t] for p_ in paths.values() for t in tnames])]
        else:
            runs = []
            for initial, sub in rng.shuffle([(i_, s_) for i_ in ("EQUIPMENT_OFFLINE", "ATTEMPT_ONLINE", "HOST_OFFLINE", "ONLINE") for s_ in ("LOCAL", "REMOTE")])[: (8 if big else 2)]:
                runs.append(((lambda i=initial, s_=sub: ctrl_mod.ControlStateMachine(i, s_)), f"sm ref CtrlSM {initial} {sub}", f"{initial}/{sub}",
                             [["start"]] + [["start", t] for t in tnames]))
        positions = [("e", i) for i in range(len(rorder))] + [("l", i) for i in range(len(rorder))] + [("c", t) for t in tnames]
        for ctor, prefix, cfg, seqs in runs:
            for kind, key in positions:
                for req in ("!", rng.choice(tnames)):
                    h = (f"c.{key}" if kind == "c" else f"{kind}{key}") + ":" + req
                    for seq in seqs:
                        jobs.append((name, ctor, f"{prefix} H={h} R=" + ",".join(seq), cfg, kind, key, req, seq, rstates, rorder))
    outs = drv.run([j[2] for j in jobs])
    reported = collections.Counter()
    for (name, ctor, line, cfg, kind, key, req, seq, rstates, rorder), ref in zip(jobs, outs):
        ref = hlib.strip_branch(ref)
        sm = ctor()
        _, states = introspect(sm)

        done = []

        def cb(_d, sm=sm, req=req, done=done):
            if req == "!":
                raise HandlerBoom()
            sm._perform_transition(req)
            done.append(1)
        if kind == "c":
            transition_object(sm, key).events.called.register(cb)
        else:
            getattr(states[key].events, "enter" if kind == "e" else "leave").register(cb)
        impl = named_run(sm, states, seq)
        res.count(("raise", line), nontrivial="UnknownTransition" in impl or "WrongSource" in impl)
        res.traces_validated += 1
        res.bump("shipped_raising", f"{name}: " + ("plain exception" if req == "!" else "nested request") + f" in {'enter' if kind == 'e' else 'leave' if kind == 'l' else 'called'} handler")
        if "diverges" in impl or "diverges" in ref:
            continue
        hdesc = f"{'enter' if kind == 'e' else 'leave' if kind == 'l' else 'called'} handler of {rorder[key] if kind != 'c' else key} " + \
            ("raises an exception" if req == "!" else f"requests {req}")
        case = {"shipped": name, "config": cfg, "handler": line.split(" H=")[1].split(" ")[0], "handler_text": hdesc, "requests": seq}
        if impl != ref:
            res.disagree(f"{name} with a raising handler vs the reference definition interpreted by Model.SM", case, ref[:300], impl[:300])
        # oracle: active = current + ancestors
        def consistent(ans):
            f = dict(w.split("=", 1) for w in ans.split()[1:] if "=" in w)
            want, st = [], f["cur"]
            while st is not None:
                want.append(st)
                st = rstates.get(st)
            return sorted(want) == sorted(x for x in f["active"].split("+") if x), f
        if kind == "l" and req != "!":
            continue   # a leave handler that requests a transition is not covered by the property (a leave handler that raises is)
        ok_i, fi = consistent(impl)
        if not ok_i:
            ok_m, _ = consistent(ref)
            hier = any(v is not None for v in rstates.values())
            known = "c18-nested-hier" if done else "c18-handler-raises"   # a nested request was performed / an exception left the handler
            klass = known if (hier and not ok_m) else "c18-engine"
            reported[(name, klass)] += 1
            if reported[(name, klass)] <= 2:
                res.violate(klass, f"{name}: {hdesc}; after [{', '.join(seq)}] the machine is in {fi['cur']} but the states reporting active are {{{fi['active']}}}",
                            case, "active = current state and its ancestors", impl[:300])


# ------------------------------------------------------------------------------------------------ main
WITNESS_CHILD = {"parents": [None, 0, None], "trans": [("go", [2], 1), ("back", [1], 2)], "handlers": [("e", 1, False, ["back"])],
                 "init": 2, "reqs": ["go"]}
WITNESS_PARENT = {"parents": [None, 0, 1, None], "trans": [("go", [3], 2), ("back", [2], 3)], "handlers": [("e", 1, False, ["back"])],
                  "init": 3, "reqs": ["go"]}
# a handler that raises while a hierarchical machine is being entered from outside the parent: the parent is never entered
WITNESS_RAISE = {"parents": [None, 0, None], "trans": [("go", [2], 1), ("back", [1], 2)], "handlers": [("e", 1, False, ["!"])],
                 "init": 2, "reqs": ["go"]}
CONN = {"parents": [None, None, 1, 1], "trans": [("connect", [0], 2), ("disconnect", [2, 3], 0), ("select", [2], 3), ("deselect", [3], 2),
                                                  ("timeoutT7", [2], 0)], "handlers": [], "init": 2, "reqs": []}
# equally named sub-states below different parents: A ⊃ IDLE(2), B ⊃ IDLE(3); the engine must go by the State object, not by its name
DIRECTED = [
    {"parents": [None, None, 0, 1], "names": ["A", "B", "IDLE", "IDLE"], "trans": [("work", [2], 1), ("rest", [3], 0)], "handlers": [],
     "init": 3, "reqs": ["work", "rest", "rest", "work"]},
    {"parents": [None, None, 0, 1], "names": ["A", "B", "IDLE", "IDLE"], "trans": [("work", [2], 3), ("rest", [3], 2)], "handlers": [],
     "init": 2, "reqs": ["rest", "work", "work", "rest", "rest"]},
    {"parents": [None, None, None], "names": ["X", "X", "Y"], "trans": [("a", [0], 2), ("b", [1], 2), ("c", [2], 1)], "handlers": [],
     "init": 1, "reqs": ["a", "b", "c", "a"]},
]
RACE_SCHEDULE = [0, 0, 1, 1, 0, 0, 1, 1, 0, 0, 1, 1, 0, 1, 0, 1]


def private_driver():
    """other checks may relink lean/.lake/build/bin/driver while this harness runs: work on a private copy"""
    import shutil
    import tempfile
    for _ in range(120):
        if os.path.exists(hlib.DRIVER) and os.access(hlib.DRIVER, os.X_OK):
            try:
                dst = os.path.join(os.environ.get("VERIF_SCRATCH") or tempfile.mkdtemp(prefix="verif-c18-"), "driver-c18")
                shutil.copy2(hlib.DRIVER, dst)
                hlib.DRIVER = dst
                return
            except OSError:
                pass
        time.sleep(0.5)


def main():
    a = hlib.std_args()
    res = hlib.Result("C18", a.tier, a.seed)
    rng = hlib.Rng(a.seed ^ 0xC18)
    private_driver()
    drv = hlib.Driver()
    big = a.tier == "thorough" or a.search
    res.rule = ("random machine definitions (2-8 states, forest depth <= 3, 1-10 transitions incl. duplicate names, handler tables on enter/leave/called "
                "events incl. unknown names and once-only handlers) instantiated with the real State/Transition/StateMachine, random request sequences "
                "(1-8, 10% unknown names); a quarter of the machines with >= 3 states have states sharing a display name (preferably under different parents) plus three directed ones; the three shipped machines under random and (thorough) exhaustive request sequences; two concurrent "
                "_perform_transition calls under line-level schedules (settrace baton). distinct = distinct (machine, handlers, initial state, "
                "request sequence or schedule); non-trivial = at least one request was allowed")
    replay_cases = None
    if a.replay:
        body = json.load(open(a.replay))
        replay_cases = [v["case"] for v in body.get("violations", [])] + [b for b in body.get("cases", [])]

    if replay_cases is not None:
        labels, _missing = line_labels()
        for c in replay_cases:
            c = c.get("case", c) if isinstance(c, dict) and "machine" not in c else c
            if not isinstance(c, dict) or "machine" not in c:
                continue
            if "shipped" in c:
                if "requests" in c and drv.available:
                    name, seq = c["shipped"], c["requests"]
                    if name == "CtrlSM":
                        import secsgem.gem.control_state_machine as ctrl_mod
                        ini, sub = (c.get("config") or "EQUIPMENT_OFFLINE/REMOTE").split("/")
                        sm = ctrl_mod.ControlStateMachine(ini, sub)
                        line = f"sm ref CtrlSM {ini} {sub} R=" + ",".join(seq)
                    else:
                        sm = shipped_instances()[name]()
                        line = f"sm ref {name} R=" + ",".join(seq)
                    _, states_ = introspect(sm)
                    if c.get("handler"):
                        hk, hreq = c["handler"].split(":")
                        line = line.replace(" R=", f" H={c['handler']} R=")

                        def cb(_d, sm=sm, hreq=hreq):
                            if hreq == "!":
                                raise HandlerBoom()
                            sm._perform_transition(hreq)
                        if hk[0] == "c":
                            transition_object(sm, hk[2:]).events.called.register(cb)
                        else:
                            getattr(states_[int(hk[1:])].events, "enter" if hk[0] == "e" else "leave").register(cb)
                    impl = named_run(sm, states_, seq)
                    ref = hlib.strip_branch(drv.run([line])[0])
                    if c.get("handler"):
                        par = parse_table(hlib.strip_branch(drv.run([f"sm reftable {name}"])[0]))[0]
                        fi = dict(w.split("=", 1) for w in impl.split()[1:] if "=" in w)
                        want, st_ = [], fi.get("cur")
                        while st_ is not None:
                            want.append(st_)
                            st_ = par.get(st_)
                        if sorted(want) != sorted(x for x in fi.get("active", "").split("+") if x):
                            res.violate("c18-engine", f"{name}: {c.get('handler_text')}; active states {fi.get('active')} in {fi.get('cur')}", c, None, impl[:300])
                    elif impl != ref:
                        res.violate("c18-shipped-definition", f"{name}: " + describe_difference(seq, impl, ref), c, ref[:400], impl[:400])
                    res.count(("replay", line))
                continue
            if "schedule" in c:
                d = parse_machine(c["machine"], [])
                d["names"] = c.get("state_names")
                sch = [int(x.split(".")[0]) for x in c["schedule"]]
                lines_ = []
                r = race_case(res, lines_, d, c["a"], c["b"], sch, labels)
                if r is not None and not (r[2] and r[3]):
                    res.violate("c18-race", "two concurrent _perform_transition calls: the result is not that of either sequential order", c,
                                {"one of": [list(x) for x in r[5]]}, list(r[4]))
            else:
                d = parse_machine(c["machine"], c.get("requests") or [])
                d["names"] = c.get("state_names")
                run_case(res, d)
                settle_pending(res, drv)
            res.count(("replay", c["machine"]))

        res.dump(a.out)
        os._exit(0)

    # ------------------------------------------------------------ A. random machines: correspondence + oracle
    cases, lines, answers = [], [], []
    n_rand = 20000 if big else 6000
    for i in range(n_rand + len(DIRECTED)):
        d = dict(DIRECTED[i]) if i < len(DIRECTED) else gen_machine(rng)
        if len(set(d["names"])) != len(d["names"]):
            res.bump("display_names", "some states share a display name")
        ans = run_case(res, d)
        cases.append({"machine": fmt_machine(d), "requests": d["reqs"], **names_of(d)})
        lines.append(f"sm run {fmt_machine(d)} R=" + (",".join(d["reqs"]) or "-"))
        answers.append(ans)
        nontriv = "res=" in ans and "ok" in ans.split("res=")[1].split(",")
        res.count(lines[-1], nontrivial=nontriv, sample={"line": lines[-1], "impl": ans[:200]} if i < 3 else None)
        res.bump("states", len(d["parents"]))
        res.bump("depth", max(depth(d["parents"], s) for s in range(len(d["parents"]))))
        res.bump("handler_entries", len(d["handlers"]))
    hlib.compare_batch(res, drv, "StateMachine._perform_transition / State.enter / State.leave vs Model.SM.perform", cases, lines, answers)
    settle_pending(res, drv)

    # ------------------------------------------------------------ B. the two recorded defect classes, demonstrated deterministically
    for nm, w, want in (("nested-hier child-enter-handler", WITNESS_CHILD, "cur=2 active=101"), ("nested-hier parent-enter-handler", WITNESS_PARENT, "cur=3 active=1001"),
                        ("handler-raises child-enter-handler", WITNESS_RAISE, "cur=1 active=010")):
        before = len(res.violations) + sum(SETTLED.values())
        ans = run_case(res, w)
        settle_pending(res, drv)
        res.count(("witness", nm), sample={"witness": nm, "impl": ans})
        hlib.compare_batch(res, drv, f"witness {nm}", [w["reqs"]], [f"sm run {fmt_machine(w)} R=go"], [ans])
        res.bump("witness", f"{nm}: " + ("reproduced" if len(res.violations) + sum(SETTLED.values()) > before else "not reproduced (repaired?)"))
        if want not in ans and len(res.violations) + sum(SETTLED.values()) == before:
            res.notes.append(f"witness {nm}: engine behaves differently from both the recorded defect and its absence: {ans}")

    labels, missing = line_labels()
    if missing:
        res.disagree("a labelled operation of StateMachine._perform_transition is absent or out of order (tie broken)", {"problems": missing},
                     "lookup, check, [log,] leave, readOld, setCur, enter, called - each once, in this order",
                     [f"{ln}:{'+'.join(labs)}" for ln, (labs, _) in sorted(labels.items())])
    else:
        sched_lines, sched_cases, sched_answers = [], [], []
        todo = [(CONN, "select", "disconnect", RACE_SCHEDULE, True)]
        pairs = [("select", "disconnect"), ("select", "select"), ("select", "timeoutT7"), ("disconnect", "timeoutT7"), ("connect", "select")]
        n_sched = 900 if big else 200
        for _ in range(n_sched):
            if rng.chance(2, 3):
                d, (x, y) = CONN, rng.choice(pairs)
            else:
                d = gen_machine(rng)
                d["handlers"] = []
                nmz = [t[0] for t in d["trans"]]
                x, y = rng.choice(nmz), rng.choice(nmz)
            ones = rng.shuffle([0] * 9 + [1] * 9)
            todo.append((d, x, y, ones, False))
        if True:
            # exhaustive (both tiers): every interleaving of the first five lines of each call (check / leave / readOld / setCur are where it matters)
            import itertools
            for pos in itertools.combinations(range(10), 5):
                sch = [0 if i in pos else 1 for i in range(10)] + [0] * 4 + [1] * 4
                todo.append((CONN, "select", "disconnect", sch, False))
            res.exhaustive_parts.append("all 252 interleavings of the first five lines of select() || disconnect() on the connection machine")
        n_bad = 0
        for d, x, y, sch, is_witness in todo:
            r = race_case(res, sched_lines, d, x, y, sch, labels)
            if r is None:
                res.notes.append("scheduler: a thread did not come back within the bound (skipped)")
                continue
            ans, steps, ok, inv, got, serial = r
            sched_cases.append({"machine": fmt_machine(d), "a": x, "b": y, "steps": [f"{t}.{l}" for t, l in steps], **names_of(d)})
            sched_answers.append(ans)
            res.count(("sched", fmt_machine(d), x, y, tuple(steps)), sample={"sched": sched_lines[-1][:240], "impl": ans[:160]} if is_witness else None)
            res.bump("sched_outcome", "serialisable" if ok and inv else "not serialisable / inconsistent flags")
            if not (ok and inv):
                n_bad += 1
                if n_bad <= 3 or is_witness:
                    res.violate("c18-race", "two concurrent _perform_transition calls: the result is not that of either sequential order"
                                + ("" if inv else " (active flags inconsistent)"),
                                {"machine": fmt_machine(d), "a": x, "b": y, "schedule": [f"{t}.{l}" for t, l in steps], **names_of(d)},
                                {"one of": [list(s) for s in serial]}, list(got))
        res.bump("witness", "race select||disconnect: " + ("reproduced" if n_bad else "not reproduced (repaired?)"))
        hlib.compare_batch(res, drv, "two threads in _perform_transition under a line schedule vs Model.SMSched", sched_cases, sched_lines, sched_answers)

    # ------------------------------------------------------------ C. shipped machines
    mk = shipped_instances()
    cases, lines, answers = [], [], []
    for name, ctor in mk.items():
        sm = ctor()
        desc, states = introspect(sm)
        cases.append({"table": name})
        lines.append(f"sm table {name}")
        answers.append(desc)
        names = [t.name for t in sm._transitions]
        seqs = []
        for _ in range(400 if big else 80):
            seqs.append([rng.choice(names) if rng.chance(14, 15) else "zz" for _ in range(rng.range(1, 12))])
        if big and name != "CtrlSM":
            import itertools
            seqs += [list(s) for s in itertools.product(names, repeat=3)]
            res.exhaustive_parts.append(f"{name}: all request sequences of length 3")
        if name == "CtrlSM":
            ctrl_public_methods(res, rng, big, cases, lines, answers)
            continue
        for seq in seqs:
            sm = ctor()
            _, states = introspect(sm)
            init = sm.current_state.name
            ans = shipped_run(sm, states, seq)
            if shipped_run.changed is not None:
                res.violate("c18-engine", f"{name}: the rejected request {shipped_run.changed!r} changed the machine", {"machine": name, "requests": seq})
            cases.append({"machine": name, "requests": seq})
            lines.append(f"sm shipped {name} I={init} R=" + ",".join(seq))
            answers.append(ans)
            res.count(lines[-1], nontrivial="ok" in ans.split("res=")[1])
            # oracle on the shipped machine: flags exact after every sequence (handlers request nothing)
            cur = states.index(sm.current_state)
            anc = []
            s = sm.current_state
            while s is not None:
                anc.append(states.index(s))
                s = s.parent
            if [i in anc for i in range(len(states))] != [bool(x.active) for x in states]:
                res.violate("c18-engine", f"{name}: active states are not the current state and its ancestors", {"machine": name, "requests": seq},
                            sorted(anc), [i for i, x in enumerate(states) if x.active])
    hlib.compare_batch(res, drv, "shipped machines: structure (Gen.Machines) and behaviour", cases, lines, answers)

    # ------------------------------------------------------------ D. the shipped definitions against the reference definitions
    shipped_vs_reference(res, rng, drv, big)

    # ------------------------------------------------------------ E. the shipped machines with a raising callback at every position
    t_e = time.time()
    shipped_raising_handlers(res, rng, drv, big)
    res.notes.append(f"section E (raising handlers on the shipped machines): {time.time() - t_e:.1f}s")

    res.dump(a.out)
    os._exit(0)


def parse_machine(text, reqs):
    parts = dict(w.split("=", 1) for w in text.split())
    parents = [None if x == "-" else int(x) for x in parts["P"].split(",")]
    trans = []
    if parts["T"] != "-":
        for w in parts["T"].split(","):
            nm, rest = w.split(":")
            srcs, dst = rest.split(">")
            trans.append((nm, [int(s) for s in srcs.split("+")] if srcs else [], int(dst)))
    handlers = []
    if parts["H"] != "-":
        for w in parts["H"].split(";"):
            key, rq = w.split(":")
            kind = key[0].lower()
            once = key[0].isupper()
            handlers.append(("c", key[2:], once, rq.split("+")) if kind == "c" else (kind, int(key[1:]), once, rq.split("+")))
    return {"parents": parents, "trans": trans, "handlers": handlers, "init": int(parts["I"]), "reqs": list(reqs)}


if __name__ == "__main__":
    main()
